#!/usr/bin/env python3
"""Copies the seeded changes that tools/verify_seeds.py confirmed into /verif/seeded/<Cxx>-<k>/."""
import json, os, shutil, glob, subprocess

res = json.load(open("/tmp/seedwt/results.json"))
head = subprocess.check_output(["git", "-C", "/repo", "rev-parse", "--short", "HEAD"]).decode().strip()
kept, dropped = [], []
for r in res:
    sid = r["id"]
    tag, k = sid.split("-")
    prop = tag.lstrip("UVXZ")
    src = "/tmp/seed/%s/%s" % (tag, k)
    if not os.path.isdir(src):
        continue  # results of an earlier round whose scratch directory is gone: already kept
    ok = r.get("suite_passes_with_change") and r.get("demo_fails_with_change") and r.get("demo_passes_without_change")
    if not ok:
        dropped.append((sid, r.get("error") or "not confirmed: suite=%s demo_fails=%s demo_passes_clean=%s" % (
            r.get("suite_passes_with_change"), r.get("demo_fails_with_change"), r.get("demo_passes_without_change"))))
        continue
    dst = "/verif/seeded/" + sid
    shutil.rmtree(dst, ignore_errors=True)
    os.makedirs(dst)
    # the patch as it applies to the current tree
    p = "/tmp/seedwt/%s.patch" % sid
    shutil.copy(p if os.path.exists(p) and os.path.getsize(p) > 0 else os.path.join(src, "patch.diff"), os.path.join(dst, "patch.diff"))
    for f in glob.glob(os.path.join(src, "*_test.go")) + glob.glob(os.path.join(src, "DEMO.txt")):
        name = os.path.basename(f)
        if name.endswith("_test.go"):
            name = name + ".txt"  # keep demos out of any Go tooling that walks /verif
        shutil.copy(f, os.path.join(dst, name))
    meta = {}
    try:
        meta = json.load(open(os.path.join(src, "meta.json")))
    except Exception:
        pass
    meta["property"] = prop
    meta["confirmed"] = {
        "tree": "/repo at " + head + " (scratch git worktree under /tmp/seedwt, removed afterwards)",
        "patch_applies": r.get("apply"),
        "builds": r.get("builds"),
        "suite_passes_with_change": True,
        "suite_cmd": "unshare -n sh -c 'ip link set lo up && go test -vet=off -count=1 -timeout 25m ./...'",
        "demo_cmds": r.get("demo_cmds"),
        "demo_fails_with_change": True,
        "demo_passes_without_change": True,
        "demo_output_with_change_tail": (r.get("demo_output_with_change") or "")[-300:],
    }
    meta["detected_by"] = {k2: v for k2, v in (r.get("detected_by") or {}).items() if "check broken" not in k2}
    meta["check_broken_on"] = [k2 for k2 in (r.get("detected_by") or {}) if "check broken" in k2]
    json.dump(meta, open(os.path.join(dst, "meta.json"), "w"), indent=1)
    kept.append(sid)
print("kept", len(kept), kept)
print("dropped", dropped)
