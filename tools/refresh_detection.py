#!/usr/bin/env python3
"""Re-runs all 20 quick checks on every seeded change (scratch worktrees) and rewrites meta.json detected_by /
check_broken_on from what the current checker reports. Arguments filter by substring of the seed id."""
import json, os, re, shutil, subprocess, sys, glob
from concurrent.futures import ThreadPoolExecutor
ENV = dict(os.environ, GOFLAGS="-mod=mod", GOPROXY="off", GOSUMDB="off", GOTOOLCHAIN="local"); ENV.pop("GOWORK", None)
BIN = os.environ.get("GMVCHECK", "/verif/bin/gmvcheck")
PROPS = ["C%02d" % i for i in range(1, 21)]
def sh(cmd, cwd=None):
    p = subprocess.run(cmd, shell=True, cwd=cwd, env=ENV, stdout=subprocess.PIPE, stderr=subprocess.STDOUT, text=True)
    return p.returncode, p.stdout
def probe(d):
    sid = os.path.basename(d)
    wt = "/tmp/seedwt/rf-" + sid
    sh("git -C /repo worktree remove --force %s" % wt); sh("git -C /repo worktree add --detach %s HEAD" % wt)
    try:
        rc, out = sh("git apply %s" % os.path.join(d, "patch.diff"), cwd=wt)
        if rc != 0:
            return sid, None, None
        vdir = wt + ".verif"; os.makedirs(vdir, exist_ok=True); shutil.copy("/verif/known_findings.json", vdir)
        det, broken = {}, []
        for p in PROPS:
            rc, out = sh("%s -prop %s -tier quick -repo %s -verif %s" % (BIN, p, wt, vdir))
            if rc == 1 and "VIOLATION property=" in out:
                lines = [l for l in out.splitlines() if "[R" in l and not l.startswith("KNOWN") and not l.startswith("CHECK-BROKEN")]
                det[p] = [re.sub(r"^\S+: ", "", l)[:200] for l in lines[:3]]
            elif rc == 2:
                broken.append(p)
        return sid, det, broken
    finally:
        sh("git -C /repo worktree remove --force %s" % wt); shutil.rmtree(wt + ".verif", ignore_errors=True)
dirs = sorted(glob.glob("/verif/seeded/*C[0-9][0-9]-*"))
if len(sys.argv) > 1:
    dirs = [d for d in dirs if any(a in d for a in sys.argv[1:])]
os.makedirs("/tmp/seedwt", exist_ok=True)
with ThreadPoolExecutor(max_workers=6) as ex:
    for sid, det, broken in ex.map(probe, dirs):
        mp = "/verif/seeded/%s/meta.json" % sid
        meta = json.load(open(mp))
        if det is None:
            print(sid, "APPLY-FAILED"); continue
        meta["detected_by"], meta["check_broken_on"] = det, broken
        json.dump(meta, open(mp, "w"), indent=1)
        own = meta["property"]
        print(sid, "own=%s %s" % (own, "DETECTED" if own in det else "MISSED"), "all=%s" % sorted(det), "broken=%s" % broken)
