# one claim() per property whose check exists and is silent on the reference tree
claim("C12", "static: select/blocking-operation audit + termination-signal model + path-enumerated teardown typestate + who-may-close inventory (go/ssa)",
      "Structural necessary conditions of 'Close terminates and releases everything', decided on every function of package gomavlib: every blocking channel operation is guarded by a termination source that is triggered on the Close path; node-loop epilogue order; goroutine inventory with verified joins; Channel.run teardown typestate on every exit path; failed-initialisation cleanup; endpoint acquire/release pairing. It does not observe executions: termination under real schedules is not decided.",
      "Trusts the Go type checker and x/tools SSA construction; termination sources are classified structurally (chan struct{} only closed by plain close / ctx with called cancel); user transports' Close is assumed to unblock their Read.",
      "DESIGN.md §5 C12")
claim("C10", "static: who-may-emit inventory, dominance (open first), path enumeration of Channel.run and of the reader loop (one event per read result), select shape of pushEvent, reader plumbing (go/ssa)",
      "Structural necessary conditions of the per-channel event stream: only pushEvent sends events and only the channel's own goroutines call it; open event dominates the first read and every other event; on every exit path of Channel.run exactly one close event after both workers ended; every loop path of runReader emits exactly one event of the right kind carrying the value just read; pushEvent cannot drop. Interleavings themselves are not explored.",
      "Trusts Go type checker / SSA; the frame reader's own correctness is the subject of C02/C05/C06; ordering across goroutines is argued from join structure, not observed.",
      "DESIGN.md §5 C10")
claim("C11", "static: request plumbing of the six Write* methods, node-loop dispatch guards (control dependence on membership / exclusion tests), queue ownership (who-may-send / who-may-receive), non-blocking summary of the loop body (go/ssa)",
      "Structural necessary conditions of the fan-out: each Write* encodes, then hands the right request over the right unbuffered channel; the loop dispatches To/All/Except with exactly the required guard and exactly one enqueue per target; one bounded FIFO (capacity 64), one producer function, one consumer goroutine per channel; the loop body cannot block. Exactly-once/FIFO under real schedules is not observed.",
      "Trusts Go channel semantics (FIFO, unbuffered rendezvous) and SSA construction.",
      "DESIGN.md §5 C11")
claim("C13", "static: non-blocking summary of the node loop body (call graph), shape of the enqueue select, worker self-return analysis against the awaited set of Channel.run's select (go/ssa)",
      "Structural necessary conditions: enqueue is a non-blocking select on a bounded queue; nothing reachable from the loop body can block; a per-channel worker that can end on its own is awaited by Channel.run, or it never ends on its own (a failed write returns to the queue). Behaviour under real stalls is not observed.",
      "Trusts Go type checker / SSA; denylist of blocking library calls is enumerated in the checker (time.Sleep, sync locks/waits, io/net/bufio reads, I/O interface methods).",
      "DESIGN.md §5 C13")
claim("C01", "static: symbolic byte-buffer interpretation of marshalTo (offsets affine in payload length) against the spec table, shift-table extraction of the LE24/LE48 helpers, reader destination map, dominance of the v1 id gate, constant evaluation of capacities (go/ssa + go/types)",
      "Decides that the byte layout implemented by writer and reader agrees with the MAVLink spec table (not merely with each other), that ids > 255 cannot reach the v1 buffer, that marker constants dispatch to the right frame kind, and that buffer/peek capacities cover the largest frame. Round-trip equality over all values is not observed; it rests on this layout agreement plus bufio/encoding/binary.",
      "Spec table transcribed from the MAVLink serialization guide inside the checker; trusts encoding/binary, bufio, copy semantics.",
      "DESIGN.md §5 C01")
claim("C02", "static: ordered hash-input extraction (symbolic bytes) of GenerateChecksum vs spec, edge-cut must-pass-through of the checksum comparison in Reader.Read, no-store-before-validation, constant checks of the X.25 framing, rejection inventory (go/ssa)",
      "Decides the pre-image order/content of the checksum, that decode/delivery/any modification of the parsed frame lie behind the pass edge of the comparison of the frame's own generated and carried checksum, X.25 init/no-final-xor/byte order, and that no unknown rejection drops frames. The CRC step arithmetic itself is not decided.",
      "X25.Write's arithmetic identity with CRC-16/MCRF4XX is assumed (covered by the repository's own x25 unit test vectors).",
      "DESIGN.md §5 C02")
claim("C05", "static: dominance of the marker read over all returns, who-may-call inventory of stream-consuming primitives, Peek/Discard pairing, peek-buffer lifetime typestate, constant index bounds, 8-bit arithmetic lint on wire bytes, tlog reader plumbing (go/ssa)",
      "Decides the code-shape necessary conditions of totality/progress/segmentation independence: at least one byte consumed per non-fatal call, only exact-length primitives, peeked bytes never used after a refill, all constant indices inside their peeked block, consumed length = written length, one-byte resynchronisation. Panic-freedom in general and segmentation independence as behaviours are not observed.",
      "Trusts bufio.Reader / io.ReadFull contracts.",
      "DESIGN.md §5 C05")
claim("C06", "static: ordered hash-input extraction of GenerateSignature vs spec, edge-cut must-pass-through of the three signature gates, sign-last ordering with feasible-path enumeration, configuration plumbing tables (go/ssa)",
      "Decides that every wire byte (and key, link id, timestamp) is in the SHA-256 pre-image in spec order, that with an incoming key delivery lies behind type test, presence test and whole-array signature comparison, that writers set flag/link id/timestamp/checksum before signing and nothing after, and that keys are forwarded to every reader/writer. Unforgeability is SHA-256's.",
      "Trusts crypto/sha256 and Go array comparison.",
      "DESIGN.md §5 C06")
claim("C07", "static: unsigned-subtraction-under-comparison lint with dominating-guard check, normalisation of the window comparison (constant, strictness, operands), single-store monotone-update rule, constant evaluation of the timestamp unit and epoch (go/ssa)",
      "Decides that the window arithmetic cannot wrap, that the refusal is strict with constant 1,000,000 and only after signature verification, that the remembered maximum only moves forward and only for verified, accepted frames, and that writers stamp uint64(time.Since(2015-01-01 UTC))/10000. Monotonicity of the wall clock is not decided.",
      "Trusts time.Since/time.Date.",
      "DESIGN.md §5 C07")
claim("C09", "static: guard→effect facts of both Initialize siblings, frame-field store provenance in the originating writers, success-edge control dependence of the sequence increment on the hand-over, checksum provenance and ordering, isV2 provenance at every encode site (go/ssa)",
      "Decides initialisation refusals, that header identity fields come from the link configuration before the checksum, that the per-link counter has one increment on the success edge of the hand-over only (no number burned by a refused write), checksum from the frame's own codec after encoding, and version-correct encoding at every site. Emitted sequences over long histories are not observed.",
      "uint8 wrap is the type's; per-link independence rests on one writer object per channel (C11 R11.4).",
      "DESIGN.md §5 C09")
claim("C20", "static: symbolic byte layout of the stamp (big-endian table), shift-table extraction of the reader, sink-order analysis of tlog.Writer.Write (no user write before a pre-I/O failure point), error-flow-to-return check, entry-construction dominance (go/ssa)",
      "Decides the 8-byte big-endian microsecond format on both sides, that nothing reaches the user's writer before the frame is known to be encodable, that all I/O errors are returned, that the reader shares one bufio.Reader with the frame reader and builds an Entry only after both reads succeeded. Round trips and cut-point behaviour are not observed.",
      "Trusts bytes.Buffer, io.ReadFull, time.Unix/UnixMicro.",
      "DESIGN.md §5 C20")
claim("C08", "static: region analysis of frame mutations (edge-cut), who-may-write table of frame header fields, interprocedural checksum/payload coherence typestate with feasible-path enumeration (type-test correlation, closed-world frame kinds), ordering in FixFrame (go/ssa)",
      "Decides that without a dialect nothing modifies a parsed or written frame, that header fields are only written by parsers/originators, that wherever a frame's message is re-encoded or its payload trimmed the checksum is regenerated before the frame is marshalled / queued / returned, and FixFrame's encode→checksum→signature order. Byte identity and next-hop decode equality are not observed.",
      "Trusts SSA; 'stale on return' summaries are context-insensitive (conservative).",
      "DESIGN.md §5 C08")
claim("C04", "static: alias-derivation (may-share-backing-array) taint of the caller's payload with write-effect summaries of callees, dominance of the length gates, shape of truncation helpers, control dependence of extension skipping (go/ssa)",
      "Decides that no value aliasing the caller's payload is ever appended to / copied into / stored through (also inside readValue), that v1 exact-length and v2 zero-extension gates precede decoding, that truncation is applied exactly for v2 with a one-byte floor, that fields are skipped iff !isV2 && extension symmetrically in Read and Write, and the bounded string scan/copy. Value-level round trips and panic-freedom over all payloads are not decided.",
      "Trusts reflect and encoding/binary; append's in-place behaviour per the Go spec.",
      "DESIGN.md §5 C04")
claim("C03", "static: constant-table evaluation, per-case width/accessor extraction of readValue/writeValue, comparator dependence analysis, ordered hash-input extraction of the CRC_EXTRA closure, narrowing-conversion/8-bit-arithmetic lint with bound-test dominance, exhaustive go/types evaluation of all 3,444 listed message structs against an independent spec oracle and the published CRC table",
      "Algorithm half: each ingredient of the codec (type tables, per-type widths and little-endian accessors, ordering comparator, CRC_EXTRA pre-image, non-wrapping size arithmetic) is decided structurally. Data half: exhaustive over every message listed by every shipped dialect (admissibility, extension suffix, size ≤ 255, constant unique ids, golden CRC_EXTRA for standard messages computed by the checker's own oracle). The run-time composition of the ingredients is not executed.",
      "Golden CRC table recalled from the reference C headers and retained only where the checker's independent spec computation agrees (136 ids).",
      "DESIGN.md §5 C03")
