# one claim() per property whose check exists and is silent on the reference tree
claim("C12", "static: select/blocking-operation audit + termination-signal model + path-enumerated teardown typestate + who-may-close inventory (go/ssa)",
      "Structural necessary conditions of 'Close terminates and releases everything', decided on every function of package gomavlib: every blocking channel operation is guarded by a termination source that is triggered on the Close path; node-loop epilogue order; goroutine inventory with verified joins; Channel.run teardown typestate on every exit path; failed-initialisation cleanup; endpoint acquire/release pairing. It does not observe executions: termination under real schedules is not decided.",
      "Trusts the Go type checker and x/tools SSA construction; termination sources are classified structurally (chan struct{} only closed by plain close / ctx with called cancel); user transports' Close is assumed to unblock their Read.",
      "DESIGN.md §5 C12")
claim("C10", "static: who-may-emit inventory, dominance (open first), path enumeration of Channel.run and of the reader loop (one event per read result), select shape of pushEvent, reader plumbing (go/ssa)",
      "Structural necessary conditions of the per-channel event stream: only pushEvent sends events and only the channel's own goroutines call it; open event dominates the first read and every other event; on every exit path of Channel.run exactly one close event after both workers ended; every loop path of runReader emits exactly one event of the right kind carrying the value just read; pushEvent cannot drop. Interleavings themselves are not explored.",
      "Trusts Go type checker / SSA; the frame reader's own correctness is the subject of C02/C05/C06; ordering across goroutines is argued from join structure, not observed.",
      "DESIGN.md §5 C10")
claim("C11", "static: request plumbing of the six Write* methods, node-loop dispatch guards (control dependence on membership / exclusion tests), queue ownership (who-may-send / who-may-receive), non-blocking summary of the loop body (go/ssa)",
      "Structural necessary conditions of the fan-out: each Write* encodes, then hands the right request over the right unbuffered channel; the loop dispatches To/All/Except with exactly the required guard and exactly one enqueue per target; one bounded FIFO (capacity 64), one producer function, one consumer goroutine per channel; the loop body cannot block. Exactly-once/FIFO under real schedules is not observed.",
      "Trusts Go channel semantics (FIFO, unbuffered rendezvous) and SSA construction.",
      "DESIGN.md §5 C11")
claim("C13", "static: non-blocking summary of the node loop body (call graph), shape of the enqueue select, worker self-return analysis against the awaited set of Channel.run's select (go/ssa)",
      "Structural necessary conditions: enqueue is a non-blocking select on a bounded queue; nothing reachable from the loop body can block; a per-channel worker that can end on its own is awaited by Channel.run, or it never ends on its own (a failed write returns to the queue). Behaviour under real stalls is not observed.",
      "Trusts Go type checker / SSA; denylist of blocking library calls is enumerated in the checker (time.Sleep, sync locks/waits, io/net/bufio reads, I/O interface methods).",
      "DESIGN.md §5 C13")
