#!/bin/sh
# tools/seedtest.sh <patch.diff> <prop> [<prop>...] : apply a seeded change to /repo, run the checks, undo it.
patch="$1"; shift
cd /repo || exit 2
if [ -n "$(git status --porcelain)" ]; then echo "/repo not clean"; exit 2; fi
git apply "$patch" || git apply -3 "$patch" || { echo "APPLY-FAILED $patch"; git checkout -- . ; exit 3; }
for p in "$@"; do
  out=$(/verif/run.sh "$p" quick 2>&1); code=$?
  echo "--- $p exit=$code"
  echo "$out" | grep -v '^WARNING' | grep -v '^gmvcheck' | head -${SEEDTEST_LINES:-6}
done
git checkout -- . ; git status --porcelain | head -3
