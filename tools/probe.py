#!/usr/bin/env python3
"""probe.py <dir>... : apply <dir>/patch.diff to a scratch worktree of /repo HEAD, run all 20 quick checks, print what fires."""
import json, os, re, shutil, subprocess, sys
from concurrent.futures import ThreadPoolExecutor
ENV = dict(os.environ, GOFLAGS="-mod=mod", GOPROXY="off", GOSUMDB="off", GOTOOLCHAIN="local"); ENV.pop("GOWORK", None)
BIN = os.environ.get("GMVCHECK", "/verif/bin/gmvcheck")
PROPS = ["C%02d" % i for i in range(1, 21)]
def sh(cmd, cwd=None):
    p = subprocess.run(cmd, shell=True, cwd=cwd, env=ENV, stdout=subprocess.PIPE, stderr=subprocess.STDOUT, text=True)
    return p.returncode, p.stdout
def probe(d):
    sid = "-".join(d.rstrip("/").split("/")[-2:])
    wt = "/tmp/seedwt/pr-" + sid
    sh("git -C /repo worktree remove --force %s" % wt); sh("git -C /repo worktree add --detach %s HEAD" % wt)
    lines = []
    try:
        rc, out = sh("git apply %s" % os.path.join(d, "patch.diff"), cwd=wt)
        if rc != 0:
            return sid, ["APPLY-FAILED " + out[-200:]]
        vdir = wt + ".verif"; os.makedirs(vdir, exist_ok=True); shutil.copy("/verif/known_findings.json", vdir)
        for p in PROPS:
            rc, out = sh("%s -prop %s -tier quick -repo %s -verif %s" % (BIN, p, wt, vdir))
            if rc != 0:
                for l in [l for l in out.splitlines() if ("[R" in l or l.startswith("CHECK-BROKEN")) and not l.startswith("KNOWN")][:2]:
                    lines.append("%s exit=%d %s" % (p, rc, re.sub(r"^\S+: ", "", l)[:230]))
        return sid, lines
    finally:
        sh("git -C /repo worktree remove --force %s" % wt); shutil.rmtree(wt + ".verif", ignore_errors=True)
os.makedirs("/tmp/seedwt", exist_ok=True)
with ThreadPoolExecutor(max_workers=4) as ex:
    for sid, lines in ex.map(probe, sys.argv[1:]):
        print(sid, "DETECTED" if any("exit=1" in l for l in lines) else ("BROKEN" if lines else "silent"))
        for l in lines:
            print("     ", l)
