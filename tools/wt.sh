#!/bin/sh
# tools/wt.sh <patch> : (re)create scratch worktree /tmp/seedwt/dbg of /repo HEAD with the patch applied (debug aid)
git -C /repo worktree remove --force /tmp/seedwt/dbg 2>/dev/null
git -C /repo worktree add --detach /tmp/seedwt/dbg HEAD >/dev/null 2>&1
cd /tmp/seedwt/dbg && git apply "$1" && echo applied
