#!/usr/bin/env python3
"""Confirms seeded regressions produced by independent sub-agents and records which checks detect them.

For every /tmp/seed/<Cxx>/<k>/ (patch.diff, demo *_test.go, meta.json):
  1. scratch worktree of /repo HEAD under /tmp/seedwt/<id>: patch applies (plain or 3-way), `go build ./...` passes
  2. the repository's whole test suite passes with the change (private network namespace)
  3. the demonstration FAILS with the change and PASSES without it
  4. every claimed check is run against the patched scratch tree: which ones report a VIOLATION
Kept seeds are copied to /verif/seeded/<Cxx>-<k>/ with an augmented meta.json. Scratch trees are removed."""
import json, os, re, shutil, subprocess, sys, glob
from concurrent.futures import ThreadPoolExecutor

ENV = dict(os.environ, GOFLAGS="-mod=mod", GOPROXY="off", GOSUMDB="off", GOTOOLCHAIN="local")
ENV.pop("GOWORK", None)
PKGDIR = {"gomavlib": ".", "frame": "pkg/frame", "message": "pkg/message", "streamwriter": "pkg/streamwriter", "tlog": "pkg/tlog",
          "conversion": "pkg/conversion", "timednetconn": "pkg/timednetconn", "dialects": "pkg/dialects", "common": "pkg/dialects/common",
          "dialect": "pkg/dialect", "x25": "pkg/x25", "ardupilotmega": "pkg/dialects/ardupilotmega", "minimal": "pkg/dialects/minimal"}
PROPS = ["C%02d" % i for i in range(1, 21)]

def sh(cmd, cwd=None, timeout=1500):
    p = subprocess.run(cmd, shell=True, cwd=cwd, env=ENV, stdout=subprocess.PIPE, stderr=subprocess.STDOUT, text=True, errors="replace", timeout=timeout)
    return p.returncode, p.stdout

def netns(cmd):
    return "unshare -n sh -c 'ip link set lo up && %s'" % cmd

def verify(seed_dir):
    tag, k = seed_dir.rstrip("/").split("/")[-2:]
    prop = tag.lstrip("UVXZ")  # later-round seeds live under /tmp/seed/UCxx, /tmp/seed/VCxx
    sid = "%s-%s" % (tag, k)
    wt = "/tmp/seedwt/" + sid
    res = {"id": sid, "property": prop}
    sh("git -C /repo worktree remove --force %s" % wt)
    rc, out = sh("git -C /repo worktree add --detach %s HEAD" % wt)
    if rc != 0:
        res["error"] = "worktree: " + out[-300:]
        return res
    try:
        patch = os.path.join(seed_dir, "patch.diff")
        rc, out = sh("git apply %s" % patch, cwd=wt)
        res["apply"] = "plain"
        if rc != 0:
            rc, out = sh("git apply -3 %s" % patch, cwd=wt)
            res["apply"] = "3way"
            if rc != 0 or "with conflicts" in out:
                res["error"] = "patch does not apply to the current tree: " + out[-300:]
                return res
        sh("git diff HEAD > /tmp/seedwt/%s.patch" % sid, cwd=wt)
        rc, out = sh("go build ./...", cwd=wt)
        res["builds"] = rc == 0
        if rc != 0:
            res["error"] = "build: " + out[-300:]
            return res
        # checks against the patched tree
        vdir = "/tmp/seedwt/%s.verif" % sid
        os.makedirs(vdir, exist_ok=True)
        shutil.copy("/verif/known_findings.json", vdir)
        det = {}
        for p in PROPS:
            rc, out = sh("/verif/bin/gmvcheck -prop %s -tier quick -repo %s -verif %s" % (p, wt, vdir))
            if rc == 1 and "VIOLATION property=" in out:
                lines = [l for l in out.splitlines() if "[R" in l and not l.startswith("KNOWN") and not l.startswith("CHECK-BROKEN")]
                det[p] = [re.sub(r"^\S+: ", "", l)[:200] for l in lines[:3]]
            elif rc == 2:
                det[p + " (check broken)"] = [l[:200] for l in out.splitlines() if l.startswith("CHECK-BROKEN")][:2]
        res["detected_by"] = det
        # suite with the change
        rc, out = sh(netns("go test -vet=off -count=1 -timeout 25m ./... 2>&1 | grep -v \"no test files\" | grep -v ^ok"), cwd=wt)
        bad = [l for l in out.splitlines() if l.strip()]
        if bad and all("TestNodeRoute" in l or l.startswith("FAIL") or l.startswith("---") or "node_test.go" in l or "Error" in l or "Test:" in l or "expected" in l or "actual" in l or l.startswith(" ") or l.startswith("\t") for l in bad) and any("TestNodeRoute" in l for l in bad):
            # known flaky test on the unmodified code: retry once
            rc, out = sh(netns("go test -vet=off -count=1 -timeout 25m ./... 2>&1 | grep -v \"no test files\" | grep -v ^ok"), cwd=wt)
            bad = [l for l in out.splitlines() if l.strip()]
        res["suite_passes_with_change"] = len(bad) == 0
        if bad:
            res["suite_output"] = "\n".join(bad[:15])
        # demo
        demos = [f for f in glob.glob(os.path.join(seed_dir, "*_test.go"))]
        runs = []
        for d in demos:
            src = open(d).read()
            m = re.search(r"^package (\w+)", src, re.M)
            pk = m.group(1).replace("_test", "") if m else ""
            ddir = PKGDIR.get(pk)
            if ddir is None:
                res["error"] = "unknown demo package " + pk
                return res
            tests = re.findall(r"^func (Test\w+)\(", src, re.M)
            runs.append((d, ddir, tests))
        race = "-race " if prop == "C15" else ""
        def run_demo(tree):
            ok_all, outs = True, []
            for d, ddir, tests in runs:
                dst = os.path.join(tree, ddir, os.path.basename(d))
                shutil.copy(d, dst)
            for d, ddir, tests in runs:
                cmd = "go test %s-vet=off -count=1 -timeout 10m -run \"^(%s)$\" ./%s" % (race, "|".join(tests), ddir)
                rc, out = sh(netns(cmd), cwd=tree)
                outs.append((cmd, rc, out[-600:]))
                if rc != 0:
                    ok_all = False
            for d, ddir, tests in runs:
                os.remove(os.path.join(tree, ddir, os.path.basename(d)))
            return ok_all, outs
        ok_with, outs_with = run_demo(wt)
        res["demo_fails_with_change"] = not ok_with
        res["demo_cmds"] = [c for c, _, _ in outs_with]
        res["demo_output_with_change"] = outs_with[0][2][-400:] if outs_with else ""
        sh("git checkout -- . && git clean -fdq", cwd=wt)
        ok_without, outs_without = run_demo(wt)
        res["demo_passes_without_change"] = ok_without
        if not ok_without:
            res["demo_output_without_change"] = outs_without[0][2][-400:]
        return res
    finally:
        sh("git -C /repo worktree remove --force %s" % wt)
        shutil.rmtree("/tmp/seedwt/%s.verif" % sid, ignore_errors=True)

def main():
    os.makedirs("/tmp/seedwt", exist_ok=True)
    dirs = sorted(d for d in glob.glob("/tmp/seed/C*/[0-9]") + glob.glob("/tmp/seed/UC*/[0-9]") + glob.glob("/tmp/seed/VC*/[0-9]") + glob.glob("/tmp/seed/XC*/[0-9]") + glob.glob("/tmp/seed/ZC*/[0-9]") if os.path.exists(os.path.join(d, "patch.diff")))
    if len(sys.argv) > 1:
        dirs = [d for d in dirs if any(a in d for a in sys.argv[1:])]
    with ThreadPoolExecutor(max_workers=5) as ex:
        results = list(ex.map(verify, dirs))
    merged = {}
    if os.path.exists("/tmp/seedwt/results.json"):
        for r0 in json.load(open("/tmp/seedwt/results.json")):
            merged[r0["id"]] = r0
    for r1 in results:
        merged[r1["id"]] = r1
    json.dump([merged[k] for k in sorted(merged)], open("/tmp/seedwt/results.json", "w"), indent=1)
    for r in results:
        print(r["id"], "apply=%s" % r.get("apply"), "suite=%s" % r.get("suite_passes_with_change"), "demo_fails=%s" % r.get("demo_fails_with_change"),
              "demo_passes_clean=%s" % r.get("demo_passes_without_change"), "detected_by=%s" % sorted(r.get("detected_by", {}).keys()), r.get("error", ""))

if __name__ == "__main__":
    main()
