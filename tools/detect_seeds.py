#!/usr/bin/env python3
"""Regression of rule power: for every seeded change under /verif/seeded, apply it to a scratch worktree and run the
checks recorded as detecting it (meta.json detected_by); report any that no longer fire."""
import json, os, re, shutil, subprocess, sys, glob
from concurrent.futures import ThreadPoolExecutor
ENV = dict(os.environ, GOFLAGS="-mod=mod", GOPROXY="off", GOSUMDB="off", GOTOOLCHAIN="local"); ENV.pop("GOWORK", None)
BIN = os.environ.get("GMVCHECK", "/verif/bin/gmvcheck")
def sh(cmd, cwd=None):
    p = subprocess.run(cmd, shell=True, cwd=cwd, env=ENV, stdout=subprocess.PIPE, stderr=subprocess.STDOUT, text=True)
    return p.returncode, p.stdout
def probe(d):
    sid = os.path.basename(d)
    meta = json.load(open(os.path.join(d, "meta.json")))
    wt = "/tmp/seedwt/det-" + sid
    sh("git -C /repo worktree remove --force %s" % wt)
    sh("git -C /repo worktree add --detach %s HEAD" % wt)
    try:
        rc, out = sh("git apply %s" % os.path.join(d, "patch.diff"), cwd=wt)
        if rc != 0:
            return sid, "APPLY-FAILED", {}
        vdir = wt + ".verif"; os.makedirs(vdir, exist_ok=True); shutil.copy("/verif/known_findings.json", vdir)
        props = sorted(set(list(meta.get("detected_by", {}).keys()) + [meta["property"]]))
        res = {}
        for p in props:
            rc, out = sh("%s -prop %s -tier quick -repo %s -verif %s" % (BIN, p, wt, vdir))
            res[p] = rc
        return sid, "ok", res
    finally:
        sh("git -C /repo worktree remove --force %s" % wt); shutil.rmtree(wt + ".verif", ignore_errors=True)
dirs = sorted(glob.glob("/verif/seeded/*C[0-9][0-9]-*"))
os.makedirs("/tmp/seedwt", exist_ok=True)
with ThreadPoolExecutor(max_workers=6) as ex:
    results = list(ex.map(probe, dirs))
bad = 0
for sid, st, res in results:
    meta = json.load(open("/verif/seeded/%s/meta.json" % sid))
    lost = [p for p in meta.get("detected_by", {}) if res.get(p) != 1]
    own = res.get(meta["property"])
    if st != "ok" or lost:
        bad += 1
        print(sid, st, "LOST:", lost, res)
    elif not any(v == 1 for v in res.values()):
        print(sid, "undetected (as before)", res)
print("%d seeds, %d with lost detections" % (len(results), bad))
