#!/usr/bin/env python3
"""Regenerates /verif/MANIFEST.json from the table below. A property is claimed only once its check exists
and is silent on the reference tree; everything else is listed under not_applicable with the reason."""
import json, os, sys

HERE = os.path.dirname(os.path.dirname(os.path.abspath(__file__)))

# id -> (technique, level text, level note, design ref)
CLAIMED = {}

def claim(pid, technique, text, note, ref):
    CLAIMED[pid] = dict(technique=technique, text=text, note=note, ref=ref)

exec(open(os.path.join(HERE, "tools", "claims.py")).read())

props = [json.loads(l) for l in open(os.path.join(HERE, "properties.jsonl"))]
NOT_YET = "check not built yet in this tree (work in progress; see DESIGN.md §5 for the planned static rules)"
NA = {}
na_path = os.path.join(HERE, "tools", "not_applicable.json")
if os.path.exists(na_path):
    NA = json.load(open(na_path))

checks = []
not_applicable = []
for p in props:
    pid = p["id"]
    if pid in CLAIMED:
        c = CLAIMED[pid]
        checks.append({
            "property_id": pid,
            "quick_cmd": "./run.sh %s quick" % pid,
            "thorough_cmd": "./run.sh %s thorough" % pid,
            "evidence_file": "/verif/evidence/%s.json" % pid,
            "replay_cmd_template": "./run.sh --replay {path}",
            "engine": "gmvcheck",
            "level_claimed": {"category": "other", "text": c["text"], "design_ref": c["ref"]},
            "level_note": c["note"],
            "technique": c["technique"],
        })
    else:
        not_applicable.append({"property_id": pid, "reason": NA.get(pid, NOT_YET)})

baseline = json.load(open("/root/.vp/BASELINE.json"))["cmd"] if os.path.exists("/root/.vp/BASELINE.json") else "cd /repo && go test ./..."
manifest = {
    "version": 1,
    "setup_cmd": "cd /verif/checker && GOFLAGS=-mod=mod GOPROXY=off GOSUMDB=off GOTOOLCHAIN=local GOWORK=off go build -o ../bin/gmvcheck .",
    "hooks": {
        "guard": "verif",
        "enable": "none needed: static analysis reads the source of /repo's working tree, nothing is instrumented (no file in /repo carries the build tag)",
        "baseline_off_cmd": baseline,
        "source_commits": [],
        "add_only": True,
    },
    "engines": [{
        "name": "gmvcheck",
        "path": "/verif/checker",
        "serves_properties": sorted(CLAIMED.keys()),
        "kind_free_text": "repository-specific static checker (Go, golang.org/x/tools v0.29.0: go/packages + go/types + go/ssa): dominance / must-pass-through, path enumeration, select audit, provenance of values, who-may-write, constant-table evaluation over the resolved program; no gomavlib code is executed",
    }],
    "checks": checks,
    "not_applicable": not_applicable,
    "notes": "All claims are at level 'other': structural necessary conditions of each property decided exhaustively over the code of the current working tree; the per-property 'NOT DECIDED' clauses are listed in each evidence file's assumptions and in DESIGN.md §5. Exit 0 = all obligations discharged (or known findings), exit 1 = VIOLATION line, exit 2 = CHECK-BROKEN (load failure, unresolved anchor, undecided idiom).",
}
json.dump(manifest, open(os.path.join(HERE, "MANIFEST.json"), "w"), indent=1)
print("claimed:", sorted(CLAIMED.keys()))
print("not_applicable:", [x["property_id"] for x in not_applicable])
