#!/usr/bin/env python3
"""Hand-written single-edit mutants (a test of rule power, used during development and by DESIGN §10).
Each mutant: (id, file, old text, new text, properties expected to report it).
Applies each to /repo's working tree, checks that it still compiles, runs the expected checks, reverts."""
import subprocess, sys, os, json, shutil

ENV = dict(os.environ, GOFLAGS="-mod=mod", GOPROXY="off", GOSUMDB="off", GOTOOLCHAIN="local")
ENV.pop("GOWORK", None)

M = [
 ("m01-v1-gate-weakened", "pkg/frame/v1_frame.go", "if f.Message.GetID() > 0xFF {", "if f.Message.GetID() > 0xFFFF {", ["C01", "C09"]),
 ("m02-marker-swapped", "pkg/frame/reader.go", "case V1MagicByte:\n\t\tf = &V1Frame{}", "case V1MagicByte:\n\t\tf = &V2Frame{}", ["C01"]),
 ("m03-checksum-bigendian", "pkg/frame/v1_frame.go", "binary.LittleEndian.PutUint16(buf[n:], f.Checksum)", "binary.BigEndian.PutUint16(buf[n:], f.Checksum)", ["C01"]),
 ("m04-v2-header-swap-both", "pkg/frame/v2_frame.go", "buf[5] = f.SystemID\n\tbuf[6] = f.ComponentID", "buf[5] = f.ComponentID\n\tbuf[6] = f.SystemID", ["C01"]),
 ("m05-crc-skip-compat", "pkg/frame/v2_frame.go", "\th.Write([]byte{f.CompatibilityFlag})\n\th.Write([]byte{f.SequenceNumber})\n\th.Write([]byte{f.SystemID})\n\th.Write([]byte{f.ComponentID})\n\tuint24Encode(buf, msg.ID)", "\th.Write([]byte{f.SequenceNumber})\n\th.Write([]byte{f.CompatibilityFlag})\n\th.Write([]byte{f.SystemID})\n\th.Write([]byte{f.ComponentID})\n\tuint24Encode(buf, msg.ID)", ["C02"]),
 ("m06-checksum-compare-inverted", "pkg/frame/reader.go", "sum != f.GetChecksum() {", "sum == f.GetChecksum() {", ["C02"]),
 ("m07-x25-init-zero", "pkg/x25/x25.go", "x.crc = 0xFFFF", "x.crc = 0x0000", ["C02"]),
 ("m08-readbyte-error-wrapped", "pkg/frame/reader.go", "magicByte, err := r.BufByteReader.ReadByte()\n\tif err != nil {\n\t\treturn nil, err\n\t}", "magicByte, err := r.BufByteReader.ReadByte()\n\tif err != nil {\n\t\treturn nil, newError(\"%s\", err.Error())\n\t}", ["C05"]),
 ("m09-peek-discard-less", "pkg/frame/v1_frame.go", "br.Discard(size) //nolint:errcheck", "br.Discard(size - 1) //nolint:errcheck", ["C05"]),
 ("m10-sig-v1-bypass", "pkg/frame/reader.go", "if !ok {\n\t\t\treturn nil, newError(\"signature required but packet is not v2\")\n\t\t}\n", "if !ok {\n\t\t\treturn f, nil\n\t\t}\n", ["C06"]),
 ("m11-sign-before-checksum", "pkg/streamwriter/writer.go", "\t\tff.Signature = ff.GenerateSignature(w.Key)\n", "\t\tff.Signature = ff.GenerateSignature(w.Key)\n\t\tff.SequenceNumber = w.nextSeqNumber\n", ["C06"]),
 ("m12-window-nonstrict", "pkg/frame/reader.go", "(ff.SignatureTimestamp+(10*100000)) < r.curReadSignatureTime", "(ff.SignatureTimestamp+(10*100000)) <= r.curReadSignatureTime", ["C07"]),
 ("m13-window-constant", "pkg/frame/reader.go", "(ff.SignatureTimestamp+(10*100000)) < r.curReadSignatureTime", "(ff.SignatureTimestamp+(10*10000)) < r.curReadSignatureTime", ["C07"]),
 ("m14-timestamp-unit", "pkg/streamwriter/writer.go", "uint64(time.Since(signatureReferenceDate)) / 10000", "uint64(time.Since(signatureReferenceDate)) / 1000", ["C07"]),
 ("m15-fixframe-no-v1-checksum", "node.go", "\tcase *frame.V1Frame:\n\t\tff.Checksum = ff.GenerateChecksum(mp.CRCExtra())\n\tcase *frame.V2Frame:\n\t\tff.Checksum = ff.GenerateChecksum(mp.CRCExtra())\n\t}\n\n\t// fill Signature", "\tcase *frame.V2Frame:\n\t\tff.Checksum = ff.GenerateChecksum(mp.CRCExtra())\n\t}\n\n\t// fill Signature", ["C08"]),
 ("m16-component-default-removed", "pkg/streamwriter/writer.go", "\tif w.ComponentID < 1 {\n\t\tw.ComponentID = 1\n\t}\n", "", ["C09"]),
 ("m17-sysid-from-compid", "pkg/streamwriter/writer.go", "\tcase *frame.V2Frame:\n\t\tff.SequenceNumber = w.nextSeqNumber\n\t\tff.SystemID = w.SystemID", "\tcase *frame.V2Frame:\n\t\tff.SequenceNumber = w.nextSeqNumber\n\t\tff.SystemID = w.ComponentID", ["C09"]),
 ("m18-pushevent-default", "node.go", "\tcase n.chEvent <- evt:\n\tcase <-n.terminate:\n\t}", "\tcase n.chEvent <- evt:\n\tcase <-n.terminate:\n\tdefault:\n\t}", ["C10"]),
 ("m19-open-after-first-read", "channel.go", "\tch.node.pushEvent(&EventChannelOpen{ch})\n\n\tfor {\n\t\tfr, err := ch.frameWriter.Read()", "\tfor {\n\t\tfr, err := ch.frameWriter.Read()\n\t\tch.node.pushEvent(&EventChannelOpen{ch})", ["C10"]),
 ("m20-parse-error-ends-reader", "channel.go", "\t\t\t\tch.node.pushEvent(&EventParseError{err, ch})\n\t\t\t\tcontinue", "\t\t\t\tch.node.pushEvent(&EventParseError{err, ch})\n\t\t\t\treturn err", ["C10", "C14"]),
 ("m21-except-polarity", "node.go", "if ch != req.except {", "if ch == req.except {", ["C11"]),
 ("m22-writeto-no-membership", "node.go", "\t\t\tif _, ok := n.channels[req.ch]; !ok {\n\t\t\t\tcontinue\n\t\t\t}\n", "", ["C11"]),
 ("m23-queue-size", "channel.go", "writeBufferSize = 64", "writeBufferSize = 16", ["C11", "C13"]),
 ("m24-close-event-channel-early", "node.go", "\tn.wg.Wait()\n\n\tclose(n.chEvent)", "\tclose(n.chEvent)\n\n\tn.wg.Wait()", ["C12"]),
 ("m25-provider-not-closed", "node.go", "\tfor ca := range n.channelProviders {\n\t\tca.close()\n\t}\n\n\tfor ch := range n.channels {", "\tfor ch := range n.channels {", ["C12"]),
 ("m26-listener-not-closed", "endpoint_server.go", "\tclose(e.terminate)\n\te.listener.Close()", "\tclose(e.terminate)", ["C12"]),
 ("m27-newchannel-no-terminate", "node.go", "\tcase n.chNewChannel <- ch:\n\tcase <-n.terminate:\n\t\tch.close()\n\t}", "\tcase n.chNewChannel <- ch:\n\t}", ["C12"]),
 ("m28-failed-init-leak", "node.go", "\t\terr = ca.initialize()\n\t\tif err != nil {\n\t\t\tcloseExisting()\n\t\t\treturn err\n\t\t}", "\t\terr = ca.initialize()\n\t\tif err != nil {\n\t\t\treturn err\n\t\t}", ["C12"]),
 ("m29-client-two-channels", "endpoint_client.go", "func (e *endpointClient) oneChannelAtAtime() bool {\n\treturn true", "func (e *endpointClient) oneChannelAtAtime() bool {\n\treturn false", ["C14"]),
 ("m30-read-deadline-from-write-timeout", "pkg/timednetconn/conn.go", "c.wrapped.SetReadDeadline(time.Now().Add(c.readTimeout))", "c.wrapped.SetReadDeadline(time.Now().Add(c.writeTimeout))", ["C14"]),
 ("m31-reconnect-no-delay", "endpoint_serial.go", "\t\t\tselect {\n\t\t\tcase <-time.After(reconnectPeriod):\n\t\t\t\tcontinue\n\t\t\tcase <-e.ctx.Done():\n\t\t\t\treturn \"\", nil, errTerminated\n\t\t\t}", "\t\t\tselect {\n\t\t\tcase <-e.ctx.Done():\n\t\t\t\treturn \"\", nil, errTerminated\n\t\t\tdefault:\n\t\t\t\tcontinue\n\t\t\t}", ["C14"]),
 ("m32-running-set-in-provider", "channel_provider.go", "\t\tcp.node.newChannel(ch)\n", "\t\tch.running = false\n\t\tcp.node.newChannel(ch)\n", ["C15"]),
 ("m33-heartbeat-status", "node_heartbeat.go", "FieldByName(\"SystemStatus\").SetUint(4)", "FieldByName(\"SystemStatus\").SetUint(3)", ["C16"]),
 ("m34-stream-list", "node_stream_request.go", "\t\t\t6,  // common.MAV_DATA_STREAM_POSITION,\n", "", ["C16"]),
 ("m35-autopilot-filter", "node_stream_request.go", "FieldByName(\"Autopilot\").Uint() != 3", "FieldByName(\"Autopilot\").Uint() != 12", ["C16"]),
 ("m36-dup-id-check-removed", "pkg/dialect/readwriter.go", "\t\tif _, ok := rw.messageRWs[m.GetID()]; ok {\n\t\t\treturn fmt.Errorf(\"duplicate message with id %d\", m.GetID())\n\t\t}\n", "", ["C17"]),
 ("m37-heartbeat-field-order", "pkg/dialects/minimal/message_heartbeat.go", None, None, ["C17", "C03"]),
 ("m38-int16-read-width", "pkg/message/readwriter.go", "\tcase *int16:\n\t\t*tt = int16(binary.LittleEndian.Uint16(buf))\n\t\treturn 2", "\tcase *int16:\n\t\t*tt = int16(binary.LittleEndian.Uint16(buf))\n\t\treturn 4", ["C03", "C04"]),
 ("m39-v1-length-gate", "pkg/message/readwriter.go", "if len(payload) != int(rw.sizeNormal) {", "if len(payload) < int(rw.sizeNormal) {", ["C04"]),
 ("m40-truncation-floor", "pkg/message/readwriter.go", "for end > 1 && buf[end-1] == 0x00 {", "for end > 0 && buf[end-1] == 0x00 {", ["C04"]),
 ("m41-tlog-stamp-order", "pkg/tlog/writer.go", "\t\tbyte(epoch >> 56),\n\t\tbyte(epoch >> 48),", "\t\tbyte(epoch >> 48),\n\t\tbyte(epoch >> 56),", ["C20"]),
 ("m42-tlog-error-dropped", "pkg/tlog/writer.go", "\t_, err = w.ByteWriter.Write(w.buf.Bytes())\n\treturn err", "\tw.ByteWriter.Write(w.buf.Bytes()) //nolint:errcheck\n\treturn nil", ["C20"]),
 ("m43-enum-hex-base", "pkg/conversion/conversion.go", "strconv.ParseUint(entry.Value[2:], 16, 64)", "strconv.ParseUint(entry.Value[2:], 10, 64)", ["C18"]),
 ("m44-tags-unsorted", "pkg/conversion/conversion.go", "\t\tsort.Strings(tmp)\n", "", ["C18"]),
 ("m45-label-table-entry", "pkg/dialects/minimal/enum_mav_state.go", None, None, ["C19"]),
]

def sh(cmd, cwd="/repo"):
    p = subprocess.run(cmd, shell=True, cwd=cwd, env=ENV, stdout=subprocess.PIPE, stderr=subprocess.STDOUT, text=True)
    return p.returncode, p.stdout

def special(mid, path):
    s = open(path).read()
    if mid.startswith("m37"):
        # swap two fields of the standard HEARTBEAT struct (CRC_EXTRA changes, library-internal round trips still agree)
        import re
        lines = s.split("\n")
        idx = [i for i, l in enumerate(lines) if l.startswith("\tAutopilot ") or l.startswith("\tBaseMode ")]
        if len(idx) == 2:
            lines[idx[0]], lines[idx[1]] = lines[idx[1]], lines[idx[0]]
        return "\n".join(lines)
    if mid.startswith("m45"):
        return s.replace('MAV_STATE_ACTIVE:              "MAV_STATE_ACTIVE"', 'MAV_STATE_ACTIVE:              "MAV_STATE_ACTIV"', 1) if 'MAV_STATE_ACTIVE:              "MAV_STATE_ACTIVE"' in s else s.replace('"MAV_STATE_ACTIVE",', '"MAV_STATE_ACTIV",', 1)
    return s

def main():
    only = sys.argv[1:]
    rc, out = sh("git status --porcelain")
    if out.strip():
        print("/repo not clean"); sys.exit(2)
    results = []
    for mid, f, old, new, props in M:
        if only and not any(o in mid for o in only):
            continue
        path = os.path.join("/repo", f)
        src = open(path).read()
        if old is None:
            mut = special(mid, path)
        else:
            if src.count(old) != 1:
                results.append((mid, "SKIP: anchor text not found exactly once", props, []))
                continue
            mut = src.replace(old, new)
        if mut == src:
            results.append((mid, "SKIP: no change", props, []))
            continue
        open(path, "w").write(mut)
        try:
            rc, out = sh("go build ./... 2>&1 | tail -3")
            if rc != 0 or out.strip():
                results.append((mid, "SKIP: does not compile: " + out.strip()[:120], props, []))
                continue
            det = []
            for p in props:
                # evidence / violation files of these runs on a mutated tree go to a scratch directory, never to /verif
                os.makedirs("/tmp/seedwt/micro.verif", exist_ok=True)
                shutil.copy("/verif/known_findings.json", "/tmp/seedwt/micro.verif")
                rc, out = sh("/verif/bin/gmvcheck -prop %s -tier quick -repo /repo -verif /tmp/seedwt/micro.verif" % p, cwd="/verif")
                lines = [l for l in out.splitlines() if "[R" in l and not l.startswith("KNOWN")]
                status = {0: "MISSED", 1: "VIOLATION", 2: "BROKEN"}.get(rc, str(rc))
                det.append((p, status, (lines[0][:160] if lines else "")))
            results.append((mid, "ok", props, det))
        finally:
            sh("git checkout -- .")
    nd = 0
    for mid, st, props, det in results:
        hit = any(d[1] == "VIOLATION" for d in det)
        nd += hit
        print(("DETECTED " if hit else "MISSED   ") + mid, st if st != "ok" else "", " ".join("%s=%s" % (d[0], d[1]) for d in det))
        for d in det:
            if d[2]:
                print("      ", d[0], d[2])
    print("%d/%d detected" % (nd, len([r for r in results if r[1] == "ok"])))

if __name__ == "__main__":
    main()
