#!/usr/bin/env python3
"""False-alarm probe: applies the property-preserving changes of the silent corpus (/verif/refactors/<id>/patch.diff:
refactorings and property-neutral maintenance commits produced by independent sub-agents) to scratch worktrees of
/repo HEAD and runs every check; any VIOLATION or CHECK-BROKEN is listed. Arguments filter by substring of <id>."""
import json, os, re, shutil, subprocess, sys, glob
from concurrent.futures import ThreadPoolExecutor

ENV = dict(os.environ, GOFLAGS="-mod=mod", GOPROXY="off", GOSUMDB="off", GOTOOLCHAIN="local")
ENV.pop("GOWORK", None)
PROPS = ["C%02d" % i for i in range(1, 21)]
BIN = os.environ.get("GMVCHECK", "/verif/bin/gmvcheck")

def sh(cmd, cwd=None):
    p = subprocess.run(cmd, shell=True, cwd=cwd, env=ENV, stdout=subprocess.PIPE, stderr=subprocess.STDOUT, text=True)
    return p.returncode, p.stdout

def probe(d):
    sid = os.path.basename(d.rstrip("/"))
    wt = "/tmp/seedwt/" + sid
    sh("git -C /repo worktree remove --force %s" % wt)
    sh("git -C /repo worktree add --detach %s HEAD" % wt)
    out_lines = []
    try:
        rc, out = sh("git apply %s" % os.path.join(d, "patch.diff"), cwd=wt)
        if rc != 0:
            return sid, ["APPLY-FAILED " + out[-200:]]
        rc, out = sh("go build ./...", cwd=wt)
        if rc != 0:
            return sid, ["BUILD-FAILED " + out[-200:]]
        vdir = "/tmp/seedwt/%s.verif" % sid
        os.makedirs(vdir, exist_ok=True)
        shutil.copy("/verif/known_findings.json", vdir)
        for p in PROPS:
            rc, out = sh("%s -prop %s -tier quick -repo %s -verif %s" % (BIN, p, wt, vdir))
            if rc != 0:
                ls = [l for l in out.splitlines() if ("[R" in l or l.startswith("CHECK-BROKEN")) and not l.startswith("KNOWN")]
                for l in ls[:2]:
                    out_lines.append("%s exit=%d %s" % (p, rc, re.sub(r"^\S+: ", "", l)[:200]))
        return sid, out_lines
    finally:
        sh("git -C /repo worktree remove --force %s" % wt)
        shutil.rmtree("/tmp/seedwt/%s.verif" % sid, ignore_errors=True)

def main():
    dirs = sorted(d for d in glob.glob("/verif/refactors/*") if os.path.exists(os.path.join(d, "patch.diff")))
    if len(sys.argv) > 1:
        dirs = [d for d in dirs if any(a in d for a in sys.argv[1:])]
    os.makedirs("/tmp/seedwt", exist_ok=True)
    with ThreadPoolExecutor(max_workers=6) as ex:
        res = list(ex.map(probe, dirs))
    quiet = 0
    for sid, lines in res:
        if not lines:
            quiet += 1
            print(sid, "silent")
        else:
            print(sid, "ALARM")
            for l in lines:
                print("    ", l)
    print("%d/%d refactorings: all checks silent" % (quiet, len(res)))

if __name__ == "__main__":
    main()
