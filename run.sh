#!/bin/sh
# ./run.sh <Cxx> <quick|thorough>   -- manifest entry point; rebuilds nothing from /repo ahead of time:
# the checker re-loads and re-analyses /repo's working tree on every run.
# ./run.sh --replay <violation.json> -- re-run the property named in a violation file.
set -u
cd "$(dirname "$0")"
export GOFLAGS=-mod=mod GOPROXY=off GOSUMDB=off GOTOOLCHAIN=local
unset GOWORK
REPO="${VERIF_REPO:-/repo}"
if [ ! -x bin/gmvcheck ] || [ -n "$(find checker -name '*.go' -newer bin/gmvcheck 2>/dev/null | head -1)" ]; then
  mkdir -p bin
  (cd checker && go build -o ../bin/gmvcheck .) || { echo "CHECK-BROKEN: cannot build gmvcheck"; exit 2; }
fi
if [ "${1:-}" = "--replay" ]; then
  prop=$(python3 -c "import json,sys; print(json.load(open(sys.argv[1]))['property'])" "$2") || exit 2
  exec bin/gmvcheck -prop "$prop" -tier quick -repo "$REPO" -verif "$(pwd)"
fi
exec bin/gmvcheck -prop "$1" -tier "${2:-quick}" -repo "$REPO" -verif "$(pwd)"
