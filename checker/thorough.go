package main

func runThorough(c *Ctx, pd *propDef, repo string) {}
