package main

import (
	"encoding/json"
	"fmt"
	"os"
	"os/exec"
	"path/filepath"
	"sort"
	"strings"
)

// Thorough tier: everything of the quick tier, plus
//  (1) the same rules evaluated on a second build configuration (GOARCH=386: 32-bit int, other type sizes);
//      a verdict that differs there is reported with that configuration named;
//  (2) the mutant catalogue: every confirmed seeded change under /verif/seeded whose meta.json says this
//      property's check detects it is applied to a scratch copy of /repo's working tree (outside /repo and
//      /verif, removed afterwards) and analysed statically; the check must report a violation. A missed
//      mutant is a *checker regression* (CHECK-BROKEN), never a property violation. Mutants whose patch no
//      longer applies to the tree under analysis are skipped and listed.
// No gomavlib code is executed in either step.

type seedMeta struct {
	Property   string              `json:"property"`
	Summary    string              `json:"summary"`
	DetectedBy map[string][]string `json:"detected_by"`
}

func runThorough(c *Ctx, pd *propDef, repo string) {
	r := c.R
	// (1) second configuration
	r.Rule("T.config", "thorough: the rules of this property give the same verdict when the repository is loaded for GOARCH=386 (32-bit int); obligations that fail only there are reported with the configuration", 1)
	if c2, err := LoadRepo(repo, pd.Patterns, true, "GOARCH=386"); err != nil {
		r.Broken("T.config", "GOARCH=386 load", err.Error())
	} else {
		r2 := NewReport(pd.ID, "thorough")
		c2.R = r2
		func() {
			defer func() {
				if e := recover(); e != nil {
					r.Broken("T.config", "GOARCH=386 analysis", fmt.Sprint(e))
				}
			}()
			pd.Run(c2)
		}()
		base := map[string]string{}
		for _, o := range r.Obls {
			base[o.Rule+"|"+o.Construct] = o.Status
		}
		diff := 0
		for _, o := range r2.Obls {
			if o.Status == StViolation && base[o.Rule+"|"+o.Construct] != StViolation {
				diff++
				r.Fail(o.Rule, o.Construct+" [GOARCH=386]", o.Pos, o.Detail)
			}
			if o.Status == StBroken && base[o.Rule+"|"+o.Construct] != StBroken {
				diff++
				r.Broken(o.Rule, o.Construct+" [GOARCH=386]", o.Detail)
			}
		}
		if diff == 0 {
			r.OK("T.config", "GOARCH=386", "-", fmt.Sprintf("%d obligations re-evaluated on the 32-bit configuration, same verdicts", len(r2.Obls)))
		}
	}

	// (2) mutant catalogue
	r.Rule("T.mutants", "thorough: self-test of the checker on the catalogue of confirmed seeded changes (/verif/seeded): each change recorded as detected by this property's check is applied to a scratch copy of the tree under analysis and must be reported "+
		"(a miss is a checker regression, exit 2; a patch that no longer applies is skipped and listed)", 0)
	verif := verifDir
	metas, _ := filepath.Glob(filepath.Join(verif, "seeded", "*", "meta.json"))
	sort.Strings(metas)
	detected, skipped, total := 0, 0, 0
	for _, mf := range metas {
		var sm seedMeta
		b, err := os.ReadFile(mf)
		if err != nil || json.Unmarshal(b, &sm) != nil {
			continue
		}
		if _, ok := sm.DetectedBy[pd.ID]; !ok {
			continue
		}
		id := filepath.Base(filepath.Dir(mf))
		total++
		scratch, err := os.MkdirTemp("", "gmvscratch-")
		if err != nil {
			r.Broken("T.mutants", id, err.Error())
			continue
		}
		func() {
			defer os.RemoveAll(scratch)
			if out, err := exec.Command("sh", "-c", fmt.Sprintf("cd %q && tar --exclude=.git -cf - . | tar -xf - -C %q", repo, scratch)).CombinedOutput(); err != nil {
				r.Broken("T.mutants", id, "scratch copy failed: "+string(out))
				return
			}
			patch := filepath.Join(filepath.Dir(mf), "patch.diff")
			cmd := exec.Command("git", "apply", "--whitespace=nowarn", patch)
			cmd.Dir = scratch
			cmd.Env = append(os.Environ(), "GIT_CEILING_DIRECTORIES="+filepath.Dir(scratch))
			if out, err := cmd.CombinedOutput(); err != nil {
				skipped++
				r.Notes = append(r.Notes, fmt.Sprintf("mutant %s skipped: patch does not apply to the tree under analysis (%s)", id, strings.TrimSpace(lastLine(string(out)))))
				return
			}
			cm, err := LoadRepo(scratch, pd.Patterns, true)
			if err != nil {
				r.Notes = append(r.Notes, fmt.Sprintf("mutant %s: load failure counts as detection-by-compiler: %v", id, err))
				skipped++
				return
			}
			rm := NewReport(pd.ID, "thorough")
			cm.R = rm
			func() {
				defer func() { recover() }()
				pd.Run(cm)
			}()
			nv := 0
			first := ""
			for _, o := range rm.Obls {
				if o.Status == StViolation {
					// known findings of the unchanged tree do not count
					isBase := false
					for _, b := range r.Obls {
						if b.Rule == o.Rule && b.Construct == o.Construct && (b.Status == StViolation || b.Status == StKnown) {
							isBase = true
						}
					}
					if !isBase {
						nv++
						if first == "" {
							first = "[" + o.Rule + "] " + o.Construct
						}
					}
				}
			}
			if nv > 0 {
				detected++
				r.OK("T.mutants", id, "-", fmt.Sprintf("seeded change reported (%d new violations, first: %s)", nv, first))
			} else {
				r.Broken("T.mutants", id, "checker regression: the seeded change '"+sm.Summary+"' recorded as detected by "+pd.ID+" is no longer reported")
			}
		}()
	}
	r.Notes = append(r.Notes, fmt.Sprintf("mutant catalogue: %d applicable to %s, %d detected, %d skipped", total, pd.ID, detected, skipped))
}

func lastLine(s string) string {
	ls := strings.Split(strings.TrimSpace(s), "\n")
	return ls[len(ls)-1]
}
