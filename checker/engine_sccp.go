package main

// Sparse conditional constant propagation (Wegman–Zadeck) over the SSA of one small function, with some of its
// parameters fixed to constants. The lattice is ⊤ (not reached yet) > {integer / boolean constants, "is parameter k"}
// > ⊥ (anything). Only edges whose branch condition does not fold to the other side are executable, so a loop whose
// back edge cannot be taken under the assumption does not dilute the phis at its head. Nothing is executed: it is the
// classic dataflow fixpoint, used to decide base cases of tiny arithmetic helpers (x**0 == 1, x**1 == x).

import (
	"go/constant"
	"go/token"
	"go/types"

	"golang.org/x/tools/go/ssa"
)

type sccpVal struct {
	kind  int // 0 top, 1 const, 2 param identity, 3 bottom
	c     constant.Value
	param int
}

var sccpBottom = sccpVal{kind: 3}

func (a sccpVal) eq(b sccpVal) bool {
	if a.kind != b.kind {
		return false
	}
	switch a.kind {
	case 1:
		return a.c.Kind() == b.c.Kind() && constant.Compare(a.c, token.EQL, b.c)
	case 2:
		return a.param == b.param
	}
	return true
}

func sccpMeet(a, b sccpVal) sccpVal {
	if a.kind == 0 {
		return b
	}
	if b.kind == 0 {
		return a
	}
	if a.eq(b) {
		return a
	}
	return sccpBottom
}

// sccpTrunc wraps an integer constant to the width of an unsigned type (signed overflow is left undecided).
func sccpTrunc(v constant.Value, t types.Type) (constant.Value, bool) {
	b, ok := t.Underlying().(*types.Basic)
	if !ok {
		return v, false
	}
	if b.Info()&types.IsBoolean != 0 {
		return v, v.Kind() == constant.Bool
	}
	if b.Info()&types.IsInteger == 0 || v.Kind() != constant.Int {
		return v, false
	}
	bits := map[types.BasicKind]uint{types.Uint8: 8, types.Uint16: 16, types.Uint32: 32, types.Uint64: 64, types.Uint: 64, types.Uintptr: 64,
		types.Int8: 8, types.Int16: 16, types.Int32: 32, types.Int64: 64, types.Int: 64, types.UntypedInt: 64}[b.Kind()]
	if bits == 0 {
		return v, false
	}
	if b.Info()&types.IsUnsigned != 0 {
		if constant.Sign(v) < 0 {
			mod := constant.Shift(constant.MakeInt64(1), token.SHL, bits)
			v = constant.BinaryOp(v, token.ADD, mod) // one wrap is enough for the negation of in-range values
			if constant.Sign(v) < 0 {
				return v, false
			}
		}
		mask := constant.BinaryOp(constant.Shift(constant.MakeInt64(1), token.SHL, bits), token.SUB, constant.MakeInt64(1))
		return constant.BinaryOp(v, token.AND, mask), true
	}
	// signed: in range or undecided
	lim := constant.Shift(constant.MakeInt64(1), token.SHL, bits-1)
	if constant.Compare(v, token.LSS, lim) && constant.Compare(v, token.GEQ, constant.UnaryOp(token.SUB, lim, 0)) {
		return v, true
	}
	return v, false
}

// sccpReturns: the lattice value of every result of fn when the parameters listed in fixed have the given constant
// values (other parameters are symbolic identities). ok is false when no return is reachable under the assumption.
func sccpReturns(fn *ssa.Function, fixed map[int]int64) ([]sccpVal, bool) {
	val := map[ssa.Value]sccpVal{}
	get := func(v ssa.Value) sccpVal {
		switch x := v.(type) {
		case *ssa.Const:
			if x.Value == nil {
				return sccpBottom
			}
			if x.Value.Kind() == constant.Int || x.Value.Kind() == constant.Bool {
				return sccpVal{kind: 1, c: x.Value}
			}
			return sccpBottom
		case *ssa.Parameter:
			for i, p := range fn.Params {
				if p == x {
					if k, isFixed := fixed[i]; isFixed {
						return sccpVal{kind: 1, c: constant.MakeInt64(k)}
					}
					return sccpVal{kind: 2, param: i}
				}
			}
			return sccpBottom
		}
		return val[v]
	}
	isConst := func(a sccpVal, k int64) bool {
		return a.kind == 1 && a.c.Kind() == constant.Int && constant.Compare(a.c, token.EQL, constant.MakeInt64(k))
	}
	execEdge := map[[2]*ssa.BasicBlock]bool{}
	execBlock := map[*ssa.BasicBlock]bool{}
	if len(fn.Blocks) == 0 {
		return nil, false
	}
	execBlock[fn.Blocks[0]] = true
	eval := func(in ssa.Instruction) (sccpVal, bool) {
		switch x := in.(type) {
		case *ssa.Phi:
			out := sccpVal{}
			for i, e := range x.Edges {
				if execEdge[[2]*ssa.BasicBlock{x.Block().Preds[i], x.Block()}] {
					out = sccpMeet(out, get(e))
				}
			}
			return out, true
		case *ssa.BinOp:
			a, b := get(x.X), get(x.Y)
			if a.kind == 0 || b.kind == 0 {
				return sccpVal{}, true
			}
			// algebraic identities on symbolic operands
			switch x.Op {
			case token.MUL:
				if isConst(a, 1) {
					return b, true
				}
				if isConst(b, 1) {
					return a, true
				}
				if isConst(a, 0) || isConst(b, 0) {
					return sccpVal{kind: 1, c: constant.MakeInt64(0)}, true
				}
			case token.AND:
				if isConst(a, 0) || isConst(b, 0) {
					return sccpVal{kind: 1, c: constant.MakeInt64(0)}, true
				}
			case token.ADD, token.OR, token.XOR:
				if isConst(a, 0) {
					return b, true
				}
				if isConst(b, 0) {
					return a, true
				}
			case token.SUB, token.SHL, token.SHR:
				if isConst(b, 0) {
					return a, true
				}
			}
			if a.kind != 1 || b.kind != 1 {
				return sccpBottom, true
			}
			switch x.Op {
			case token.EQL, token.NEQ, token.LSS, token.LEQ, token.GTR, token.GEQ:
				if a.c.Kind() != b.c.Kind() {
					return sccpBottom, true
				}
				if a.c.Kind() == constant.Bool && x.Op != token.EQL && x.Op != token.NEQ {
					return sccpBottom, true
				}
				return sccpVal{kind: 1, c: constant.MakeBool(constant.Compare(a.c, x.Op, b.c))}, true
			case token.SHL, token.SHR:
				s, exact := constant.Uint64Val(b.c)
				if !exact || s > 64 || a.c.Kind() != constant.Int {
					return sccpBottom, true
				}
				if r, ok := sccpTrunc(constant.Shift(a.c, x.Op, uint(s)), x.Type()); ok {
					return sccpVal{kind: 1, c: r}, true
				}
				return sccpBottom, true
			case token.ADD, token.SUB, token.MUL, token.AND, token.OR, token.XOR, token.AND_NOT, token.QUO, token.REM:
				if a.c.Kind() != constant.Int || b.c.Kind() != constant.Int {
					return sccpBottom, true
				}
				op := x.Op
				if op == token.QUO || op == token.REM {
					if constant.Sign(b.c) == 0 {
						return sccpBottom, true
					}
					if op == token.QUO {
						op = token.QUO_ASSIGN // integer division
					}
				}
				if r, ok := sccpTrunc(constant.BinaryOp(a.c, op, b.c), x.Type()); ok {
					return sccpVal{kind: 1, c: r}, true
				}
				return sccpBottom, true
			}
			return sccpBottom, true
		case *ssa.UnOp:
			a := get(x.X)
			if a.kind == 0 {
				return sccpVal{}, true
			}
			if a.kind != 1 {
				return sccpBottom, true
			}
			switch x.Op {
			case token.NOT:
				if a.c.Kind() == constant.Bool {
					return sccpVal{kind: 1, c: constant.MakeBool(!constant.BoolVal(a.c))}, true
				}
			case token.SUB:
				if a.c.Kind() == constant.Int {
					if r, ok := sccpTrunc(constant.UnaryOp(token.SUB, a.c, 0), x.Type()); ok {
						return sccpVal{kind: 1, c: r}, true
					}
				}
			}
			return sccpBottom, true
		case *ssa.Convert:
			a := get(x.X)
			if a.kind == 1 {
				if r, ok := sccpTrunc(a.c, x.Type()); ok {
					return sccpVal{kind: 1, c: r}, true
				}
				return sccpBottom, true
			}
			if a.kind == 0 {
				return a, true
			}
			return sccpBottom, true
		case *ssa.ChangeType:
			return get(x.X), true
		}
		if _, isVal := in.(ssa.Value); isVal {
			return sccpBottom, true
		}
		return sccpVal{}, false
	}
	for changed, rounds := true, 0; changed && rounds < 200; rounds++ {
		changed = false
		for _, b := range fn.Blocks {
			if !execBlock[b] {
				continue
			}
			for _, in := range b.Instrs {
				if v, isVal := in.(ssa.Value); isVal {
					nv, ok := eval(in)
					if ok && !nv.eq(val[v]) {
						// monotone: never climb back
						if val[v].kind == 3 {
							continue
						}
						if val[v].kind != 0 && nv.kind != 3 {
							nv = sccpMeet(val[v], nv)
						}
						if !nv.eq(val[v]) {
							val[v] = nv
							changed = true
						}
					}
				}
			}
			mark := func(s *ssa.BasicBlock) {
				k := [2]*ssa.BasicBlock{b, s}
				if !execEdge[k] {
					execEdge[k] = true
					changed = true
				}
				if !execBlock[s] {
					execBlock[s] = true
					changed = true
				}
			}
			switch t := b.Instrs[len(b.Instrs)-1].(type) {
			case *ssa.If:
				cv := get(t.Cond)
				switch {
				case cv.kind == 0:
				case cv.kind == 1 && cv.c.Kind() == constant.Bool:
					if constant.BoolVal(cv.c) {
						mark(b.Succs[0])
					} else {
						mark(b.Succs[1])
					}
				default:
					mark(b.Succs[0])
					mark(b.Succs[1])
				}
			case *ssa.Jump:
				mark(b.Succs[0])
			}
		}
	}
	var out []sccpVal
	any := false
	for _, b := range fn.Blocks {
		if !execBlock[b] {
			continue
		}
		if ret, ok := b.Instrs[len(b.Instrs)-1].(*ssa.Return); ok {
			if !any {
				out = make([]sccpVal, len(ret.Results))
			}
			any = true
			for i, rv := range ret.Results {
				out[i] = sccpMeet(out[i], get(rv))
			}
		}
	}
	return out, any
}

func (a sccpVal) String() string {
	switch a.kind {
	case 0:
		return "unreached"
	case 1:
		return a.c.ExactString()
	case 2:
		return "its argument #" + string(rune('0'+a.param))
	}
	return "not a constant"
}
