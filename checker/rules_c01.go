package main

import (
	"fmt"
	"go/token"
	"go/types"
	"strings"

	"golang.org/x/tools/go/ssa"
)

func init() { register("C01", framePkgs, runC01) }

var framePkgs = []string{"./pkg/frame", "./pkg/tlog", "./pkg/streamwriter", "."}

// normMsg canonicalises the different spellings of "the raw message of this frame" in renderings.
func normMsg(s string) string {
	for _, v := range []string{"(frame.V1Frame).GetMessage(recv)", "(frame.V2Frame).GetMessage(recv)", "recv.Message"} {
		s = strings.ReplaceAll(s, v+".(*message.MessageRaw)", "MSG")
	}
	s = strings.ReplaceAll(s, "(message.MessageRaw).GetID(MSG)", "MSG.ID")
	s = strings.ReplaceAll(s, "(message.Message).GetID(recv.Message)", "MSG.ID")
	s = strings.ReplaceAll(s, "(message.Message).GetID((frame.V1Frame).GetMessage(recv))", "MSG.ID")
	s = strings.ReplaceAll(s, "(message.Message).GetID((frame.V2Frame).GetMessage(recv))", "MSG.ID")
	return s
}

// spec tables (MAVLink serialization guide). Offsets are affine in L = payload length.
var specV1Writer = []string{
	"0:const:254", "1:B(len(arg1),0)", "2:V(recv.SequenceNumber)", "3:V(recv.SystemID)", "4:V(recv.ComponentID)",
	"5:B(MSG.ID,0)", "6:run(arg1)*0+L", "6+L:B(recv.Checksum,0)", "7+L:B(recv.Checksum,1)",
}
var specV2Writer = []string{
	"0:const:253", "1:B(len(arg1),0)", "2:V(recv.IncompatibilityFlag)", "3:V(recv.CompatibilityFlag)", "4:V(recv.SequenceNumber)",
	"5:V(recv.SystemID)", "6:V(recv.ComponentID)", "7:B(MSG.ID,0)", "8:B(MSG.ID,1)", "9:B(MSG.ID,2)", "10:run(arg1)*0+L",
	"10+L:B(recv.Checksum,0)", "11+L:B(recv.Checksum,1)",
	"12+L:V(recv.SignatureLinkID) @SIGNED", "13+L:B(recv.SignatureTimestamp,0) @SIGNED", "14+L:B(recv.SignatureTimestamp,1) @SIGNED",
	"15+L:B(recv.SignatureTimestamp,2) @SIGNED", "16+L:B(recv.SignatureTimestamp,3) @SIGNED", "17+L:B(recv.SignatureTimestamp,4) @SIGNED",
	"18+L:B(recv.SignatureTimestamp,5) @SIGNED", "19+L:run(recv.Signature)*6 @SIGNED",
}

// normCond reduces the condition annotations of a writer layout to the ones the spec distinguishes.
func normLayoutConds(entries []string, gate string) []string {
	var out []string
	for _, e := range entries {
		parts := strings.SplitN(e, " @", 2)
		if len(parts) == 1 {
			out = append(out, e)
			continue
		}
		var keep []string
		for _, c := range strings.Split(parts[1], " && ") {
			switch {
			case c == "(len(arg1) > 0)" || c == "(len(arg1) != 0)":
				// copying nothing when the payload is empty is the identity
			case gate != "" && c == gate:
				// the version gate is checked separately (R1.4)
			case strings.HasPrefix(c, "(len(arg0) >= ") || strings.HasPrefix(c, "(len(arg0) > ") || strings.HasSuffix(c, " <= len(arg0))") || strings.HasSuffix(c, " < len(arg0))"):
				// capacity guard on the destination buffer: refusing a buffer that is too small changes no byte
			case c == "(recv.Signature != nil)":
				// a frame flagged as signed without a signature cannot be marshalled at all
			case c == "(frame.V2Frame).IsSigned(recv)" || c == "((recv.IncompatibilityFlag & 1) != 0)":
				keep = append(keep, "SIGNED")
			default:
				keep = append(keep, c)
			}
		}
		if len(keep) == 0 {
			out = append(out, parts[0])
		} else {
			out = append(out, parts[0]+" @"+strings.Join(keep, " && "))
		}
	}
	return out
}

func payloadParam(v ssa.Value) bool { return ex(v) == "arg1" }

func diffLayouts(got, want []string) string {
	g, w := map[string]bool{}, map[string]bool{}
	for _, x := range got {
		g[x] = true
	}
	for _, x := range want {
		w[x] = true
	}
	var miss, extra []string
	for _, x := range want {
		if !g[x] {
			miss = append(miss, x)
		}
	}
	for _, x := range got {
		if !w[x] {
			extra = append(extra, x)
		}
	}
	return fmt.Sprintf("spec entries not produced: %v; entries not in the spec: %v", miss, extra)
}

// runC01inner: the rules of C01 proper (what other properties borrow from), without C01's own borrowed rules.
func runC01inner(c *Ctx) { runC01with(c, false) }

func runC01(c *Ctx) { runC01with(c, true) }

func runC01with(c *Ctx, borrow bool) {
	r := c.R
	defer rulePeekLifetime(c, "R1.7", "C01: the frame read back must carry the id and payload that were written")
	defer func() {
		c.R.Rule("R1.10", "the bytes emitted are the frame given (= R8.1): frame.Writer.Write modifies or re-encodes a frame only when its message is not yet raw; a frame that already carries its encoded payload is marshalled as it is "+
			"(no re-truncation, no checksum rewrite)", 1)
		ruleRawPassthrough(c, "R1.10")
	}()
	if borrow {
		defer borrowRules(c, "C05", runC05, map[string]string{"R5.2": "R1.8"}, "the frame read back equals the frame written only when header and payload are read whole however the transport segments them")
		defer borrowRules(c, "C08", runC08, map[string]string{"R8.4": "R1.9"}, "the payload marshalled into a v1 / v2 frame must be the encoding of its message for that very version")
	}
	r.NotDecided = append(r.NotDecided,
		"field-for-field equality of Read(Write(f)) as an observed behaviour over all values (the layout agreement of writer and reader with the spec table is what is decided)",
		"payloads longer than 255 bytes (outside the statement)")
	ruleWriterLayout(c)
	ruleShiftTables(c, "R1.3")
	ruleReaderLayout(c, "R1.2")
	ruleVersionGate(c)
	ruleMarkerDispatch(c)
	ruleCapacity(c)
}

// R1.1
func ruleWriterLayout(c *Ctx) {
	r := c.R
	r.Rule("R1.1", "symbolic byte layout written by V1Frame.marshalTo / V2Frame.marshalTo (offsets affine in the payload length, sources resolved to frame fields, helpers analysed not assumed) "+
		"equals the MAVLink spec table; the returned length is the end of the last field; nothing else touches the buffer", 4)
	for _, v := range []struct {
		fn   string
		spec []string
		ret  []string
		gate string
	}{
		{"V1Frame.marshalTo", specV1Writer, []string{"8+L"}, "(MSG.ID <= 255)"},
		{"V2Frame.marshalTo", specV2Writer, []string{"12+L", "25+L"}, ""},
	} {
		fn := c.Fn("pkg/frame", v.fn)
		if fn == nil {
			continue
		}
		r.Functions[fnQual(fn)] = true
		bi := newBufInterp(c, fn, payloadParam, normMsg)
		bi.run()
		if len(bi.undec) > 0 {
			r.Broken("R1.1", v.fn, "marshal idiom not understood: "+strings.Join(bi.undec, "; "))
			continue
		}
		got := normLayoutConds(layoutOf(bi.cells[fn.Params[1]]), v.gate)
		same := len(got) == len(v.spec)
		if same {
			for i := range got {
				if got[i] != v.spec[i] {
					same = false
				}
			}
		}
		r.Check(same, "R1.1", v.fn+" layout", c.Pos(fn.Pos()), fmt.Sprintf("%d layout entries equal the spec table", len(got)),
			"wire layout differs from the MAVLink spec: "+diffLayouts(got, v.spec))
		// return value(s)
		okRet := true
		var rets []string
		for _, ret := range retInstrs(fn) {
			if len(ret.Results) != 2 || !isNilConst(ret.Results[1]) {
				continue
			}
			vals := []ssa.Value{ret.Results[0]}
			if p, ok := ret.Results[0].(*ssa.Phi); ok {
				vals = p.Edges
			}
			for _, rv := range vals {
				a, ok := bi.affine(rv)
				if !ok {
					okRet = false
					rets = append(rets, ex(rv))
					continue
				}
				rets = append(rets, a.String())
			}
		}
		for _, rv := range rets {
			found := false
			for _, w := range v.ret {
				if rv == w {
					found = true
				}
			}
			if !found {
				okRet = false
			}
		}
		if len(rets) != len(v.ret) {
			okRet = false
		}
		r.Check(okRet, "R1.1", v.fn+" returned length", c.Pos(fn.Pos()), "returns "+strings.Join(rets, " / "),
			fmt.Sprintf("marshalTo returns %v, the spec frame length is %v (a wrong length truncates the frame or emits stale scratch bytes)", rets, v.ret))
	}
}

// R1.3: the four uint24/48 helpers and tlog's big-endian stamp.
func ruleShiftTables(c *Ctx, rule string) {
	r := c.R
	r.Rule(rule, "byte/shift tables: uint24Encode/uint48Encode store byte i = value >> 8i for every i once; uint24Decode/uint48Decode OR together byte i << 8i for every i once, "+
		"each shift performed in the wide type (catches a dropped or duplicated byte and a shift done in 8-bit arithmetic)", 4)
	for _, h := range []struct {
		name string
		n    int
	}{{"uint24Encode", 3}, {"uint48Encode", 6}} {
		fn := c.FnOpt("pkg/frame", h.name)
		if fn == nil {
			// helper inlined / replaced: the positions are decided where the bytes are used (R1.1 writer layout)
			r.OK(rule, h.name, "-", "helper not present: byte positions decided in line by R1.1")
			continue
		}
		bi := newBufInterp(c, fn, nil, nil)
		bi.run()
		got := layoutOf(bi.cells[fn.Params[0]])
		ok := len(got) == h.n && len(bi.undec) == 0
		for i := 0; ok && i < h.n; i++ {
			if got[i] != fmt.Sprintf("%d:B(arg1,%d)", i, i) && !(i == 0 && got[i] == "0:V(arg1)") {
				ok = false
			}
		}
		r.Check(ok, rule, h.name, c.Pos(fn.Pos()), fmt.Sprintf("bytes 0..%d little-endian", h.n-1), fmt.Sprintf("little-endian encode table wrong: %v", got))
	}
	for _, h := range []struct {
		name string
		n    int
	}{{"uint24Decode", 3}, {"uint48Decode", 6}} {
		fn := c.FnOpt("pkg/frame", h.name)
		if fn == nil {
			// helper inlined / replaced: the positions are decided where the bytes are used (R1.2 reader layout)
			r.OK(rule, h.name, "-", "helper not present: byte positions decided in line by R1.2")
			continue
		}
		rets := retInstrs(fn)
		ok := len(rets) == 1 && len(rets[0].Results) == 1
		detail := ""
		if ok {
			tm, okT := orTerms(rets[0].Results[0], func(v ssa.Value) bool { return v == ssa.Value(fn.Params[0]) })
			if !okT {
				r.Broken(rule, h.name, "decode idiom not understood: "+ex(rets[0].Results[0]))
				continue
			}
			ok = len(tm) == h.n
			for i := 0; i < h.n; i++ {
				if s, has := tm[i]; !has || s != 8*i {
					ok = false
				}
			}
			detail = fmt.Sprint(tm)
		}
		r.Check(ok, rule, h.name, c.Pos(fn.Pos()), "byte i << 8i for i in 0.."+fmt.Sprint(h.n-1), "little-endian decode table wrong (index->shift, -1 = shift overflows the operand type): "+detail)
	}
}

// R1.2 reader layout: every frame field is filled from the spec position of the bytes consumed.
func ruleReaderLayout(c *Ctx, rule string) {
	r := c.R
	r.Rule(rule, "V1Frame.unmarshal / V2Frame.unmarshal: consumption sequence is header (5 / 9 bytes after the marker), payload of exactly header[0] bytes, 2 checksum bytes, "+
		"and 13 signature bytes iff the signed flag is set; each frame field is assigned from its spec position (id little-endian 8/24 bit, checksum little-endian 16, link id, timestamp LE48, 6 signature bytes)", 10)
	type spec struct {
		fn     string
		hdr    int
		fields map[string]string // field -> source
	}
	for _, sp := range []spec{
		{"V1Frame.unmarshal", 5, map[string]string{"SequenceNumber": "H[1]", "SystemID": "H[2]", "ComponentID": "H[3]", "ID": "uint32(H[4])", "Checksum": "LE16(C)", "LEN": "H[0]"}},
		{"V2Frame.unmarshal", 9, map[string]string{"IncompatibilityFlag": "H[1]", "CompatibilityFlag": "H[2]", "SequenceNumber": "H[3]", "SystemID": "H[4]", "ComponentID": "H[5]",
			"ID": "frame.uint24Decode(H[6:])", "Checksum": "LE16(C)", "LEN": "H[0]", "SignatureLinkID": "S[0]", "SignatureTimestamp": "frame.uint48Decode(S[1:])", "Signature": "copy S[7:]"}},
	} {
		fn := c.Fn("pkg/frame", sp.fn)
		if fn == nil {
			continue
		}
		r.Functions[fnQual(fn)] = true
		// consuming calls in order
		peeks := callsNamed(fn, "frame.peekAndDiscard", "(bufio.Reader).Peek")
		rf := callsNamed(fn, "io.ReadFull")
		sizes := []int64{}
		for _, p := range peeks {
			k, _ := constInt(p.Common().Args[1])
			sizes = append(sizes, k)
		}
		wantSizes := []int64{int64(sp.hdr), 2}
		if sp.hdr == 9 {
			wantSizes = append(wantSizes, 13)
		}
		okSizes := len(sizes) == len(wantSizes)
		for i := range wantSizes {
			if okSizes && sizes[i] != wantSizes[i] {
				okSizes = false
			}
		}
		if !okSizes || len(rf) != 1 {
			// a different consumption idiom: if the total is right we cannot decide; report as undecided unless sizes are plainly wrong
			if len(peeks) == len(wantSizes) && len(rf) == 1 {
				r.Fail(rule, sp.fn+" consumption sizes", c.Pos(fn.Pos()), fmt.Sprintf("header/checksum/signature blocks consumed as %v bytes, the spec says %v", sizes, wantSizes))
			} else {
				r.Broken(rule, sp.fn, fmt.Sprintf("consumption idiom not understood (peekAndDiscard sizes %v, %d io.ReadFull)", sizes, len(rf)))
			}
			continue
		}
		r.OK(rule, sp.fn+" consumption sizes", c.Pos(fn.Pos()), fmt.Sprintf("peek/discard %v + one ReadFull of the payload", sizes))
		names := map[ssa.Value]string{}
		letters := []string{"H", "C", "S"}
		for i, p := range peeks {
			for _, rfr := range *p.(*ssa.Call).Referrers() {
				if e, ok := rfr.(*ssa.Extract); ok && e.Index == 0 {
					names[e] = letters[i]
				}
			}
		}
		src := func(v ssa.Value) string {
			s := ex(v)
			for val, n := range names {
				s = strings.ReplaceAll(s, ex(val), n)
			}
			s = strings.ReplaceAll(s, "(binary.littleEndian).Uint16(binary.LittleEndian,C)", "LE16(C)")
			return s
		}
		order := ssaOrder(peeks, rf[0])
		r.Check(order, rule, sp.fn+" consumption order", c.Pos(fn.Pos()), "header → payload → checksum (→ signature)", "the header / payload / checksum / signature blocks are not consumed in wire order")
		// payload: ReadFull(arg0, make([]byte, H[0])) guarded by H[0] > 0; Payload field = that buffer
		rfc := rf[0].(*ssa.Call)
		bufArg := rfc.Call.Args[1]
		ms, isMS := bufArg.(*ssa.MakeSlice)
		okLen := isMS && src(ms.Len) == sp.fields["LEN"] && ex(rfc.Call.Args[0]) == "arg0"
		if isMS {
			if cv, isConv := ms.Len.(*ssa.Convert); isConv {
				if b, isB := cv.X.(*ssa.BinOp); isB {
					_ = b
					okLen = false
				}
			}
		}
		r.Check(okLen, rule, sp.fn+" payload length", c.Pos(rfc.Pos()), "payload buffer has exactly header[0] bytes and is filled by io.ReadFull from the same reader",
			"the payload read is not `io.ReadFull(br, make([]byte, header[0]))`: got length "+func() string {
				if isMS {
					return src(ms.Len)
				}
				return ex(bufArg)
			}())
		// stores to recv fields and to the MessageRaw literal
		got := map[string]string{}
		gotVal := map[string]ssa.Value{}
		for _, in := range allInstrs(fn) {
			st, ok := in.(*ssa.Store)
			if !ok {
				continue
			}
			f, base := fieldOfAddr(st.Addr)
			if f == nil {
				continue
			}
			b := ex(base)
			if b == "recv" || strings.HasPrefix(b, "&lit:message.MessageRaw") {
				got[f.Name()] = src(st.Val)
				gotVal[f.Name()] = st.Val
			}
		}
		// spec positions as byte→shift tables over the peeked blocks, for sources written in any other way (decode helper
		// inlined, encoding/binary, manual shifts)
		specTerms := map[string]struct {
			blk string
			tm  map[int]int
		}{"Checksum": {"C", map[int]int{0: 0, 1: 8}}}
		if sp.hdr == 9 {
			specTerms["ID"] = struct {
				blk string
				tm  map[int]int
			}{"H", map[int]int{6: 0, 7: 8, 8: 16}}
			specTerms["SignatureTimestamp"] = struct {
				blk string
				tm  map[int]int
			}{"S", map[int]int{1: 0, 2: 8, 3: 16, 4: 24, 5: 32, 6: 40}}
		} else {
			specTerms["ID"] = struct {
				blk string
				tm  map[int]int
			}{"H", map[int]int{4: 0}}
		}
		termsMatch := func(f string) (bool, string) {
			stv, has := specTerms[f]
			v := gotVal[f]
			if !has || v == nil {
				return false, ""
			}
			if p, isPhi := v.(*ssa.Phi); isPhi {
				if tv := threadedValue(p); tv != nil {
					v = tv
				}
			}
			var blk ssa.Value
			for val, n := range names {
				if n == stv.blk {
					blk = val
				}
			}
			tm, ok := orTerms(v, func(x ssa.Value) bool { return x == blk })
			if !ok {
				return false, ""
			}
			same := len(tm) == len(stv.tm)
			for i, sh := range stv.tm {
				if tm[i] != sh {
					same = false
				}
				if _, has := tm[i]; !has {
					same = false
				}
			}
			return same, fmt.Sprintf("%s bytes→shifts %v", stv.blk, tm)
		}
		for _, call := range callsNamed(fn, "copy") {
			a := call.Common().Args
			if strings.HasPrefix(ex(a[0]), "recv.Signature[") {
				got["Signature"] = "copy " + src(a[1])
				// allocation of the signature must precede
			}
		}
		var fnames []string
		for k := range sp.fields {
			if k != "LEN" {
				fnames = append(fnames, k)
			}
		}
		sortStrings(fnames)
		for _, f := range fnames {
			want := sp.fields[f]
			g, has := got[f]
			if f == "Signature" && has && strings.HasPrefix(g, "new") {
				has = false
			}
			switch {
			case !has:
				r.Fail(rule, sp.fn+" "+f, c.Pos(fn.Pos()), "frame field "+f+" is never filled from the wire (spec source "+want+")")
			case g == want, f == "Signature" && g == "copy S[7:13]":
				r.OK(rule, sp.fn+" "+f, c.Pos(fn.Pos()), f+" ← "+g)
			case func() bool { ok, _ := termsMatch(f); return ok }():
				_, d := termsMatch(f)
				r.OK(rule, sp.fn+" "+f, c.Pos(fn.Pos()), f+" ← "+d+" (spec position, little-endian)")
			case looksLikeWireSource(g):
				r.Fail(rule, sp.fn+" "+f, c.Pos(fn.Pos()), "frame field "+f+" is read from "+g+", the spec position is "+want)
			default:
				r.Broken(rule, sp.fn+" "+f, "source expression not understood: "+g+" (spec "+want+")")
			}
		}
		// payload field is the buffer that was read (or nil for an empty payload)
		if p, ok := got["Payload"]; ok {
			okP := strings.Contains(p, "make([]byte,"+sp.fields["LEN"]) || strings.Contains(p, "make([]byte,H[0]")
			r.Check(okP, rule, sp.fn+" Payload", c.Pos(fn.Pos()), "Payload ← the bytes read (nil when empty)", "MessageRaw.Payload is not the buffer the payload was read into: "+p)
		} else {
			r.Fail(rule, sp.fn+" Payload", c.Pos(fn.Pos()), "MessageRaw.Payload never assigned")
		}
		// v2: signature block iff IsSigned
		if sp.hdr == 9 {
			sigPeek := peeks[2]
			gate := false
			for _, iff := range ifsIn(fn) {
				cs := ex(iff.Cond)
				if cs == "(frame.V2Frame).IsSigned(*recv)" || cs == "((recv.IncompatibilityFlag & 1) != 0)" {
					if edgeMustPass(fn, edge{iff.Block(), iff.Block().Succs[0]}, sigPeek.Block()) {
						gate = true
					}
				}
			}
			r.Check(gate, rule, sp.fn+" signature gate", c.Pos(sigPeek.Pos()), "13-byte signature block consumed exactly when the signed flag is set", "the signature block is not read exactly under IsSigned()")
		}
	}
	// IsSigned tests bit V2FlagSigned == 1
	if fn := c.Fn("pkg/frame", "V2Frame.IsSigned"); fn != nil {
		rets := retInstrs(fn)
		ok := len(rets) == 1 && ex(rets[0].Results[0]) == "((recv.IncompatibilityFlag & 1) != 0)"
		r.Check(ok, rule, "V2Frame.IsSigned", c.Pos(fn.Pos()), "(IncompatibilityFlag & 0x01) != 0", "IsSigned must test bit 0x01 of the incompatibility flags; got "+func() string {
			if len(rets) == 1 {
				return ex(rets[0].Results[0])
			}
			return "?"
		}())
	}
}

func looksLikeWireSource(s string) bool {
	return strings.HasPrefix(s, "H[") || strings.HasPrefix(s, "C[") || strings.HasPrefix(s, "S[") || strings.Contains(s, "(H[") || strings.Contains(s, "(S[") ||
		strings.Contains(s, "(C") || strings.HasPrefix(s, "copy S") || strings.HasPrefix(s, "copy H") || strings.HasPrefix(s, "uint32(") || strings.HasPrefix(s, "LE16(")
}

func sortStrings(s []string) {
	for i := 1; i < len(s); i++ {
		for j := i; j > 0 && s[j] < s[j-1]; j-- {
			s[j], s[j-1] = s[j-1], s[j]
		}
	}
}

// ssaOrder: peeks[0] → readfull → peeks[1] (→ peeks[2]) each ordered before the next.
func ssaOrder(peeks []ssa.CallInstruction, rf ssa.CallInstruction) bool {
	seq := []ssa.Instruction{peeks[0], rf, peeks[1]}
	if len(peeks) > 2 {
		seq = append(seq, peeks[2])
	}
	for i := 0; i+1 < len(seq); i++ {
		if !orderedBefore(seq[i], seq[i+1]) {
			return false
		}
	}
	return instrDominates(peeks[0], rf) && instrDominates(peeks[0], peeks[1])
}

// R1.4 version gate
func ruleVersionGate(c *Ctx) {
	r := c.R
	r.Rule("R1.4", "V1Frame.marshalTo: a test `message id > 255` whose true edge returns an error is passed (false edge) before any byte is stored into the buffer; "+
		"the 8-bit truncation of the id happens only under it", 1)
	fn := c.Fn("pkg/frame", "V1Frame.marshalTo")
	if fn == nil {
		return
	}
	var gate *ssa.If
	for _, iff := range ifsIn(fn) {
		b, ok := iff.Cond.(*ssa.BinOp)
		if !ok {
			continue
		}
		k, isC := constInt(b.Y)
		if normMsg(ex(b.X)) == "MSG.ID" && isC && ((b.Op == token.GTR && k == 255) || (b.Op == token.GEQ && k == 256)) {
			// true edge returns a non-nil error
			tb := iff.Block().Succs[0]
			if ret, ok := tb.Instrs[len(tb.Instrs)-1].(*ssa.Return); ok && len(ret.Results) == 2 && !isNilConst(ret.Results[1]) {
				gate = iff
			}
		}
	}
	if gate == nil {
		r.Fail("R1.4", "V1Frame.marshalTo id gate", c.Pos(fn.Pos()), "no `id > 255 → return error` test in the v1 writer: ids above 255 would be emitted truncated to 8 bits")
		return
	}
	bad := ""
	for _, in := range allInstrs(fn) {
		touches := false
		switch x := in.(type) {
		case *ssa.Store:
			if ia, ok := x.Addr.(*ssa.IndexAddr); ok && strings.HasPrefix(ex(ia.X), "arg0") {
				touches = true
			}
		case *ssa.Call:
			for _, a := range x.Call.Args {
				if strings.HasPrefix(ex(a), "arg0") && calleeName(&x.Call) != "len" {
					touches = true
				}
			}
		}
		if touches && !edgeMustPass(fn, edge{gate.Block(), gate.Block().Succs[1]}, in.Block()) {
			bad = c.Pos(in.Pos())
		}
	}
	r.Check(bad == "", "R1.4", "V1Frame.marshalTo id gate", c.Pos(gate.Pos()), "every write into the buffer is behind the id ≤ 255 edge", "the buffer is written at "+bad+" without having passed the id ≤ 255 test")
}

// R1.5 marker dispatch
func ruleMarkerDispatch(c *Ctx) {
	r := c.R
	r.Rule("R1.5", "Reader.Read maps marker 0xFE to a *V1Frame and 0xFD to a *V2Frame (the same constants the writers store at offset 0) and returns a ReadError for any other byte", 3)
	for _, k := range []struct {
		name string
		val  string
	}{{"V1MagicByte", "254"}, {"V2MagicByte", "253"}, {"V2FlagSigned", "1"}} {
		if o := c.Obj("pkg/frame", k.name); o != nil {
			if cst, ok := o.(*types.Const); ok {
				r.Check(cst.Val().ExactString() == k.val, "R1.5", k.name, c.Pos(o.Pos()), "== "+k.val, k.name+" evaluates to "+cst.Val().ExactString()+", the spec value is "+k.val)
			}
		}
	}
	fn := c.Fn("pkg/frame", "Reader.Read")
	if fn == nil {
		return
	}
	rb := callsNamed(fn, "(bufio.Reader).ReadByte")
	if len(rb) != 1 {
		r.Fail("R1.5", "Reader.Read marker", c.Pos(fn.Pos()), "expected one ReadByte for the marker")
		return
	}
	var marker ssa.Value
	for _, rf := range *rb[0].(*ssa.Call).Referrers() {
		if e, ok := rf.(*ssa.Extract); ok && e.Index == 0 {
			marker = e
		}
	}
	um := callsIn(fn, func(n string, cc *ssa.CallCommon) bool { return cc.IsInvoke() && cc.Method.Name() == "unmarshal" })
	if len(um) != 1 || marker == nil {
		r.Broken("R1.5", "Reader.Read dispatch", "unmarshal call / marker value not found")
		return
	}
	frameV := um[0].Common().Value
	phi, ok := frameV.(*ssa.Phi)
	if !ok {
		r.Broken("R1.5", "Reader.Read dispatch", "frame value is not a phi of the two frame kinds: "+ex(frameV))
		return
	}
	want := map[string]int64{"frame.V1Frame": 254, "frame.V2Frame": 253}
	okAll := len(phi.Edges) == 2
	for i, e := range phi.Edges {
		a := underlyingAlloc(e)
		if a == nil {
			okAll = false
			continue
		}
		t := typeStr(a.Type().(*types.Pointer).Elem())
		k, known := want[t]
		pred := phi.Block().Preds[i]
		// on every feasible path to pred the marker comparisons imply marker == k
		if got, det := constOnAllPaths(fn, marker, pred); !known || !det || got != k {
			okAll = false
		}
	}
	r.Check(okAll, "R1.5", "Reader.Read dispatch", c.Pos(um[0].Pos()), "0xFE → *V1Frame, 0xFD → *V2Frame", "the marker byte does not select the frame kind per spec (0xFE → V1, 0xFD → V2)")
}

// R1.6 capacity
func ruleCapacity(c *Ctx) {
	r := c.R
	r.Rule("R1.6", "the writer's scratch buffer is at least as long as the largest frame (1+9+255+2+13 = 280 bytes); writeFrameInner performs exactly one ByteWriter.Write, of bw[:n] with n the value "+
		"returned by marshalTo; the payload handed to marshalTo is the frame's own raw payload; every Peek size is ≤ 16 (bufio's minimum buffer), so Peek cannot fail with ErrBufferFull", 4)
	const maxFrame = 1 + 9 + 255 + 2 + 13
	if ini := c.Fn("pkg/frame", "Writer.Initialize"); ini != nil {
		f := c.Field("pkg/frame", "Writer", "bw")
		ok := false
		detail := "no allocation of Writer.bw found"
		for _, fs := range c.fieldStoresAll(f) {
			if k, isC := staticLen(fs.Store.Val); isC {
				ok = k >= maxFrame
				detail = fmt.Sprintf("scratch buffer length %d", k)
			} else {
				detail = "scratch buffer length is not a constant: " + ex(fs.Store.Val)
			}
		}
		r.Check(ok, "R1.6", "Writer.bw length", c.Pos(ini.Pos()), detail+" ≥ 280", detail+" is smaller than the largest frame (280 bytes: signed v2 frame with a 255-byte payload would be truncated or panic)")
	}
	// emit sites: the methods of frame.Writer that hand bytes to the transport (writeFrameInner on the reference
	// tree; its callers if it has been inlined). Each must marshal once and write once.
	var sites []*ssa.Function
	for _, fn := range c.AllFns {
		if fn.Pkg == nil || !strings.HasSuffix(fn.Pkg.Pkg.Path(), "pkg/frame") || !strings.HasPrefix(fnLocalName(fn), "Writer.") {
			continue
		}
		if len(callsIn(fn, func(n string, cc *ssa.CallCommon) bool {
			return cc.IsInvoke() && cc.Method.Name() == "Write" && ex(cc.Value) == "recv.ByteWriter"
		})) > 0 {
			sites = append(sites, fn)
		}
	}
	if len(sites) == 0 {
		r.Fail("R1.6", "Writer emit sites", "-", "no method of frame.Writer writes to its ByteWriter")
	}
	for _, w := range sites {
		r.Functions[fnQual(w)] = true
		writes := callsIn(w, func(n string, cc *ssa.CallCommon) bool { return cc.IsInvoke() && cc.Method.Name() == "Write" })
		ms := callsIn(w, func(n string, cc *ssa.CallCommon) bool { return cc.IsInvoke() && cc.Method.Name() == "marshalTo" })
		ok := len(writes) == 1 && len(ms) == 1
		why := fmt.Sprintf("%d transport writes, %d marshalTo calls", len(writes), len(ms))
		if ok {
			m := ms[0].(*ssa.Call)
			arg := writes[0].Common().Args[0]
			sl, isSl := arg.(*ssa.Slice)
			if !isSl || ex(sl.X) != "recv.bw" || sl.Low != nil || sl.High == nil {
				ok = false
				why = "the transport write is not of recv.bw[:n]: " + ex(arg)
			} else if e, isE := sl.High.(*ssa.Extract); !isE || e.Tuple != ssa.Value(m) || e.Index != 0 {
				ok = false
				why = "the length written is not the value returned by marshalTo: " + ex(sl.High)
			}
			if ex(m.Call.Args[0]) != "recv.bw" {
				ok = false
				why = "marshalTo does not fill recv.bw"
			}
			if ex(m.Call.Value) != "arg0" {
				ok = false
				why = "the frame marshalled is not the frame handed in: " + ex(m.Call.Value)
			}
			if p := ex(m.Call.Args[1]); p != "(frame.Frame).GetMessage(arg0).(*message.MessageRaw).Payload" {
				ok = false
				why = "payload handed to marshalTo is " + p
			}
			if ex(writes[0].Common().Value) != "recv.ByteWriter" {
				ok = false
				why = "write goes to " + ex(writes[0].Common().Value)
			}
			if inLoop(writes[0].Block()) {
				ok = false
				why = "transport write inside a loop"
			}
			if !instrDominates(m, writes[0]) {
				ok = false
				why = "the transport write is not preceded by marshalTo on every path"
			}
		}
		key := "Writer.writeFrameInner single write"
		if fnLocalName(w) != "Writer.writeFrameInner" {
			key = fnLocalName(w) + " single write (in line)"
		}
		r.Check(ok, "R1.6", key, c.Pos(w.Pos()), "one ByteWriter.Write(bw[:n]) per frame", why)
	}
	maxPeek := int64(0)
	nPeek := 0
	for _, fn := range c.AllFns {
		if fn.Pkg == nil || !strings.HasSuffix(fn.Pkg.Pkg.Path(), "pkg/frame") {
			continue
		}
		for _, call := range callsNamed(fn, "(bufio.Reader).Peek") {
			nPeek++
			a := call.Common().Args[1]
			if k, ok := constInt(a); ok {
				if k > maxPeek {
					maxPeek = k
				}
			} else if p, isP := a.(*ssa.Parameter); isP {
				// parameter: take the max over call sites
				for _, cs := range c.callersOf(p.Parent()) {
					if k, ok := constInt(cs.Call.Common().Args[1]); ok {
						if k > maxPeek {
							maxPeek = k
						}
					} else {
						maxPeek = 1 << 30
					}
				}
			} else {
				maxPeek = 1 << 30
			}
		}
	}
	r.Check(nPeek > 0 && maxPeek <= 16, "R1.6", "Peek sizes", "-", fmt.Sprintf("largest Peek is %d bytes ≤ 16", maxPeek), fmt.Sprintf("a Peek of %d bytes can exceed the minimum bufio buffer (16): Peek returns ErrBufferFull for user-supplied small readers and the frame is lost", maxPeek))
	if o := c.Obj("pkg/frame", "bufferSize"); o != nil {
		if cst, ok := o.(*types.Const); ok {
			v := cst.Val().ExactString()
			var k int
			fmt.Sscan(v, &k)
			r.Check(k >= maxFrame, "R1.6", "bufferSize", c.Pos(o.Pos()), v+" ≥ 280", "bufferSize "+v+" < 280")
		}
	}
}
