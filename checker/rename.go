package main

// Rename normalisation (robustness against "rename a private function / method / field / package variable").
//
// The rules name the constructs they are anchored at (Writer.writeFrameInner, Node.terminate, X25.crc …). A
// rename leaves behaviour untouched but makes those anchors dangle. Before anything is analysed, the
// identifiers declared by each package are compared with the reference snapshot (known_funcs.go: name →
// signature / type): when a reference identifier is MISSING from the package and exactly one identifier that is
// NEW to the package has the same kind, the same owner (receiver type / struct type / package) and the same
// signature or type, the new identifier is taken to be the old one under another name, and every occurrence
// is renamed back — on the syntax tree, resolved through go/types objects, never textually — before
// type-checking and SSA construction are redone. Several missing identifiers that compete for the same
// candidates are paired by declaration order when their numbers agree, otherwise left alone (the anchors then
// fail as CHECK-BROKEN, never as a violation).
//
// Nothing is executed; the analysed program is alpha-equivalent to the source. The mapping applied is printed
// in the evidence notes.

import (
	"go/ast"
	"go/types"
	"sort"
	"strings"
)

type declItem struct {
	key   string // snapshot key
	owner string // "pkg:" / "pkg:Type." / "pkg:field:Type." / "pkg:var:"
	name  string
	typ   string
	obj   types.Object
	pos   int
}

func splitOwner(key string) (owner, name string) {
	i := strings.LastIndexAny(key, ".:")
	return key[:i+1], key[i+1:]
}

// renameBack renames identifiers back to their reference names. Returns the packages whose syntax changed.
func renameBack(c *Ctx) (map[string]bool, []string) {
	// phase 1: named types (their names occur in every signature, so they go first and everything is re-checked)
	changed, notes := renamePhase(c, true)
	if len(changed) > 0 {
		if err := rebuildAll(c, false); err != nil {
			return changed, append(notes, "re-typecheck after type rename failed: "+err.Error())
		}
	}
	// phase 2: functions, methods, fields, package variables
	ch2, n2 := renamePhase(c, false)
	for k := range ch2 {
		changed[k] = true
	}
	notes = append(notes, n2...)
	// phase 3: private methods that were turned into plain functions (remethod.go)
	if len(ch2) > 0 {
		if err := rebuildAll(c, false); err != nil {
			return changed, append(notes, "re-typecheck after rename failed: "+err.Error())
		}
	}
	ch3, n3 := remethodise(c)
	for k := range ch3 {
		changed[k] = true
	}
	notes = append(notes, n3...)
	ch4, n4 := lockSectionsToClosures(c)
	for k := range ch4 {
		changed[k] = true
	}
	notes = append(notes, n4...)
	ch5, n5 := reextractEnqueue(c)
	for k := range ch5 {
		changed[k] = true
	}
	notes = append(notes, n5...)
	ch6, n6 := flagLoopsToBreaks(c)
	for k := range ch6 {
		changed[k] = true
	}
	return changed, append(notes, n6...)
}

func renamePhase(c *Ctx, typesOnly bool) (map[string]bool, []string) {
	changed := map[string]bool{}
	var notes []string
	var keys []string
	for k := range c.Pkgs {
		keys = append(keys, k)
	}
	sort.Strings(keys)
	for _, pk := range keys {
		if strings.HasPrefix(pk, "pkg/dialects") || strings.HasPrefix(pk, "examples") || strings.HasPrefix(pk, "cmd") {
			continue
		}
		p := c.Pkgs[pk]
		funcs, members := declaredMembers(pk, p.Types)
		curBodies := bodyFingerprints(pk, p.Syntax)
		objOf := func(key string) types.Object {
			rest := strings.TrimPrefix(key, pk+":")
			sc := p.Types.Scope()
			switch {
			case strings.HasPrefix(rest, "type:"):
				return sc.Lookup(strings.TrimPrefix(rest, "type:"))
			case strings.HasPrefix(rest, "var:"):
				return sc.Lookup(strings.TrimPrefix(rest, "var:"))
			case strings.HasPrefix(rest, "field:"):
				tn, fn, _ := strings.Cut(strings.TrimPrefix(rest, "field:"), ".")
				if o, ok := sc.Lookup(tn).(*types.TypeName); ok {
					if st, ok := o.Type().Underlying().(*types.Struct); ok {
						for i := 0; i < st.NumFields(); i++ {
							if st.Field(i).Name() == fn {
								return st.Field(i)
							}
						}
					}
				}
			default:
				if tn, mn, isM := strings.Cut(rest, "."); isM {
					if o, ok := sc.Lookup(tn).(*types.TypeName); ok {
						if named, ok := o.Type().(*types.Named); ok {
							for i := 0; i < named.NumMethods(); i++ {
								if named.Method(i).Name() == mn {
									return named.Method(i)
								}
							}
							if it, ok := named.Underlying().(*types.Interface); ok {
								for i := 0; i < it.NumExplicitMethods(); i++ {
									if it.ExplicitMethod(i).Name() == mn {
										return it.ExplicitMethod(i)
									}
								}
							}
						}
					}
					return nil
				}
				return sc.Lookup(rest)
			}
			return nil
		}
		pairUp := func(cur, ref map[string]string) {
			// group missing and new identifiers by (owner, type)
			type grp struct{ missing, fresh []declItem }
			groups := map[string]*grp{}
			get := func(owner, typ string) *grp {
				k := owner + "\x00" + typ
				if groups[k] == nil {
					groups[k] = &grp{}
				}
				return groups[k]
			}
			for k, t := range ref {
				if !strings.HasPrefix(k, pk+":") {
					continue
				}
				if _, ok := cur[k]; !ok {
					o, n := splitOwner(k)
					g := get(o, t)
					g.missing = append(g.missing, declItem{key: k, owner: o, name: n, typ: t})
				}
			}
			for k, t := range cur {
				if _, ok := ref[k]; !ok {
					o, n := splitOwner(k)
					if obj := objOf(k); obj != nil {
						g := get(o, t)
						g.fresh = append(g.fresh, declItem{key: k, owner: o, name: n, typ: t, obj: obj, pos: int(obj.Pos())})
					}
				}
			}
			var gks []string
			for k := range groups {
				gks = append(gks, k)
			}
			sort.Strings(gks)
			for _, gk := range gks {
				g := groups[gk]
				if len(g.missing) == 0 || len(g.missing) != len(g.fresh) {
					continue
				}
				if len(g.missing) > 1 {
					// pair by declaration order: the reference order is the snapshot's source order, which the
					// snapshot does not record; use name similarity instead (longest common subsequence)
					sort.Slice(g.fresh, func(i, j int) bool { return g.fresh[i].pos < g.fresh[j].pos })
					used := map[int]bool{}
					ok := true
					var pairs [][2]int
					for mi, m := range g.missing {
						best, bestScore, tie := -1, -1, false
						for fi, f := range g.fresh {
							if used[fi] {
								continue
							}
							sc := lcs(strings.ToLower(m.name), strings.ToLower(f.name))
							// functions: what the body selects and calls says more than the name
							if rb, has := knownBodies[m.key]; has {
								if cb, has2 := curBodies[f.key]; has2 {
									sc = 1000*jaccardPermille(rb, cb)/1000 + sc
								}
							}
							if sc > bestScore {
								best, bestScore, tie = fi, sc, false
							} else if sc == bestScore {
								tie = true
							}
						}
						if best < 0 || tie {
							ok = false
							break
						}
						used[best] = true
						pairs = append(pairs, [2]int{mi, best})
					}
					if !ok {
						continue
					}
					for _, pr := range pairs {
						applyRename(c, g.fresh[pr[1]].obj, g.missing[pr[0]].name)
						notes = append(notes, "renamed back "+g.fresh[pr[1]].key+" → "+g.missing[pr[0]].key)
						changed[pk] = true
					}
					continue
				}
				applyRename(c, g.fresh[0].obj, g.missing[0].name)
				notes = append(notes, "renamed back "+g.fresh[0].key+" → "+g.missing[0].key)
				changed[pk] = true
			}
		}
		if typesOnly {
			pairUp(declaredTypes(pk, p.Types), knownTypes)
		} else {
			pairUp(funcs, knownSigs)
			pairUp(members, knownMembers)
		}
	}
	return changed, notes
}

func lcs(a, b string) int {
	prev := make([]int, len(b)+1)
	for i := 1; i <= len(a); i++ {
		cur := make([]int, len(b)+1)
		for j := 1; j <= len(b); j++ {
			if a[i-1] == b[j-1] {
				cur[j] = prev[j-1] + 1
			} else if prev[j] > cur[j-1] {
				cur[j] = prev[j]
			} else {
				cur[j] = cur[j-1]
			}
		}
		prev = cur
	}
	return prev[len(b)]
}

// applyRename sets the name of every identifier that defines or uses obj, in every loaded repo package.
func applyRename(c *Ctx, obj types.Object, name string) {
	if c.Renamed == nil {
		c.Renamed = map[string]string{}
	}
	if v, ok := obj.(*types.Var); ok && v.IsField() {
		c.Renamed[name] = obj.Name() // reference field name → the name used by the tree (and by its templates)
	}
	for _, p := range c.Pkgs {
		if p.TypesInfo == nil {
			continue
		}
		for _, f := range p.Syntax {
			ast.Inspect(f, func(n ast.Node) bool {
				if id, ok := n.(*ast.Ident); ok {
					if p.TypesInfo.Defs[id] == obj || p.TypesInfo.Uses[id] == obj {
						id.Name = name
					}
				}
				return true
			})
		}
	}
}

// jaccardPermille: similarity of two space-separated name sets, 0..1000.
func jaccardPermille(a, b string) int {
	sa, sb := map[string]bool{}, map[string]bool{}
	for _, x := range strings.Fields(a) {
		sa[x] = true
	}
	for _, x := range strings.Fields(b) {
		sb[x] = true
	}
	inter, union := 0, len(sb)
	for x := range sa {
		if sb[x] {
			inter++
		} else {
			union++
		}
	}
	if union == 0 {
		return 1000
	}
	return inter * 1000 / union
}
