package main

import (
	"fmt"
	"go/token"
	"sort"
	"strings"

	"golang.org/x/tools/go/ssa"
)

func init() { register("C08", framePkgs, runC08) }

// reEncodeEvents: instructions of fn after which the frame's payload may differ from the one its Checksum
// was computed for: a store of a freshly encoded raw message into frame.Message, a store into an existing
// MessageRaw.Payload, or a call to a function that is stale on return.
func reEncodeEvents(c *Ctx, fn *ssa.Function, stale map[*ssa.Function]bool) []ssa.Instruction {
	var out []ssa.Instruction
	for _, in := range allInstrs(fn) {
		switch x := in.(type) {
		case *ssa.Store:
			f, _ := fieldOfAddr(x.Addr)
			if f == nil {
				continue
			}
			o := fieldStructName(x.Addr)
			if (o == "frame.V1Frame" || o == "frame.V2Frame") && f.Name() == "Message" {
				if strings.Contains(ex(x.Val), "(message.ReadWriter).Write(") {
					out = append(out, in)
				}
			}
			if o == "message.MessageRaw" && f.Name() == "Payload" {
				// a store into a literal under construction is not a modification
				if fa, ok := x.Addr.(*ssa.FieldAddr); ok {
					if _, isAlloc := fa.X.(*ssa.Alloc); isAlloc {
						continue
					}
				}
				out = append(out, in)
			}
		case *ssa.Call:
			if f := x.Call.StaticCallee(); f != nil && stale[f] {
				out = append(out, in)
			}
		}
	}
	return out
}

// isSuccessReturn: a return that does not report an error (last result nil or no error result).
func isSuccessReturn(in ssa.Instruction) bool {
	ret, ok := in.(*ssa.Return)
	if !ok {
		return false
	}
	if len(ret.Results) == 0 {
		return true
	}
	last := ret.Results[len(ret.Results)-1]
	if last.Type().String() != "error" {
		return true
	}
	if isNilConst(last) {
		return true
	}
	if call, isCall := last.(*ssa.Call); isCall {
		if n := calleeName(&call.Call); n == "fmt.Errorf" || n == "errors.New" {
			return false
		}
	}
	// `if v != nil { return v }` is an error return
	fn := ret.Parent()
	for _, iff := range ifsIn(fn) {
		if b, ok := iff.Cond.(*ssa.BinOp); ok && b.Op == token.NEQ && b.X == last && isNilConst(b.Y) {
			if edgeMustPass(fn, edge{iff.Block(), iff.Block().Succs[0]}, ret.Block()) {
				return false
			}
		}
	}
	// returning the (unchecked) result of a call / a phi is a success-capable return
	return true
}

func isChecksumRefresh(in ssa.Instruction) bool {
	st, ok := in.(*ssa.Store)
	if !ok {
		return false
	}
	f, _ := fieldOfAddr(st.Addr)
	if f == nil || f.Name() != "Checksum" {
		return false
	}
	o := fieldStructName(st.Addr)
	if o != "frame.V1Frame" && o != "frame.V2Frame" {
		return false
	}
	call, ok := st.Val.(*ssa.Call)
	return ok && strings.HasSuffix(calleeName(&call.Call), ".GenerateChecksum")
}

// stalePathTo: is there a feasible path from event e to an instruction satisfying sink that does not
// refresh the checksum of the frame kind that was re-encoded?
func stalePathTo(fn *ssa.Function, e ssa.Instruction, sink func(ssa.Instruction) bool) (ssa.Instruction, bool) {
	hit, ok := pathExistsAvoiding(e, sink, isChecksumRefresh)
	if !ok {
		return nil, false
	}
	// confirm on feasible paths only (type-switch correlation)
	var found ssa.Instruction
	okEnum := enumPaths(fn.Blocks[0], nil, 30000, func(path []*ssa.BasicBlock) {
		if found != nil || !typeTestsConsistent(path) {
			return
		}
		seenE, refreshed := false, false
		for _, in := range pathInstrs(path) {
			if in == e {
				seenE, refreshed = true, false
				continue
			}
			if !seenE {
				continue
			}
			if isChecksumRefresh(in) {
				refreshed = true
			}
			if sink(in) && !refreshed {
				found = in
				return
			}
		}
	})
	if !okEnum {
		return hit, true
	}
	return found, found != nil
}

func runC08(c *Ctx) {
	r := c.R
	defer rulePeekLifetime(c, "R8.5", "C08: a frame held by the application or queued for forwarding keeps its own payload bytes")
	defer ruleV1Gate(c, "R8.6")
	defer ruleWriteAPIs(c, "R8.8")
	defer borrowRules(c, "C01", runC01inner, map[string]string{"R1.6": "R8.7"}, "a forwarded full-size signed frame must leave whole, and what is marshalled is the frame's own payload")
	r.NotDecided = append(r.NotDecided,
		"byte identity of forwarded frames as an observed fact (R8.1 is its code-shape part)",
		"decode equality at the next hop for all non-canonical encodings (value level; R8.2 is the necessary condition named by the statement's parenthesis)",
		"FixFrame with an OutKey on a frame whose signed flag is clear computes a Signature that marshalTo never emits (flag, link id and timestamp are left to the caller): a reading of the API contract, no rule is built on it")

	// R8.1
	r.Rule("R8.1", "no-dialect path is the identity: Reader.Read modifies the parsed frame only under `DialectRW != nil && mp != nil`; frame.Writer.Write mutates the frame only under the `message is not *MessageRaw` guard; "+
		"header fields (sequence, ids, flags, link id, timestamp) are stored only by unmarshal and by the originating writers, Signature additionally by FixFrame; writeFrameInner marshals the frame's own fields (R1.1)", 4)
	rf := collectReaderFacts(c)
	if rf != nil && rf.mpIf != nil {
		bad := ""
		for _, in := range allInstrs(rf.fn) {
			st, ok := in.(*ssa.Store)
			if !ok {
				continue
			}
			o := fieldStructName(st.Addr)
			if o != "frame.V1Frame" && o != "frame.V2Frame" && o != "message.MessageRaw" {
				continue
			}
			if !edgeMustPass(rf.fn, edge{rf.mpIf.Block(), rf.mpIf.Block().Succs[rf.mpIdx]}, st.Block()) {
				bad = c.Pos(st.Pos())
			}
		}
		r.Check(bad == "", "R8.1", "Reader.Read frame stores", c.Pos(rf.fn.Pos()), "the parsed frame is touched only when its id is in the dialect", "Reader.Read modifies the frame at "+bad+" outside the `dialect knows this id` region: frames forwarded without a dialect are no longer byte-identical")
	}
	ruleRawPassthrough(c, "R8.1")
	allowed := map[string]map[string]bool{}
	hdr := []string{"SequenceNumber", "SystemID", "ComponentID", "IncompatibilityFlag", "CompatibilityFlag", "SignatureLinkID", "SignatureTimestamp"}
	base := map[string]bool{"V1Frame.unmarshal": true, "V2Frame.unmarshal": true, "Writer.writeFrameAndFill": true, "Writer.writeInner": true}
	for _, h := range hdr {
		allowed[h] = base
	}
	allowed["Signature"] = map[string]bool{"V2Frame.unmarshal": true, "Writer.writeFrameAndFill": true, "Writer.writeInner": true, "Node.FixFrame": true}
	var viol []string
	nStores := 0
	for _, fn := range c.AllFns {
		for _, s := range frameStoresIn(fn) {
			if a, ok := allowed[s.field]; ok {
				nStores++
				if !a[fnLocalName(fn)] {
					viol = append(viol, fnLocalName(fn)+" stores "+s.owner+"."+s.field+" ("+c.Pos(s.st.Pos())+")")
				}
			}
		}
	}
	sort.Strings(viol)
	r.Check(len(viol) == 0 && nStores >= 20, "R8.1", "frame header writers", "-", fmt.Sprintf("%d header-field stores, all in unmarshal / originating writers / FixFrame", nStores),
		"a routed frame's header fields are rewritten outside the functions that parse or originate frames: "+strings.Join(viol, "; "))
	// the functions that marshal (writeFrameInner on the reference tree; its callers where it was inlined): apart from
	// Writer.Write (guarded above) and the originating writer, they do not modify the frame they marshal
	{
		n, bad := 0, ""
		for _, fn := range c.AllFns {
			if fn.Pkg == nil || !strings.HasSuffix(fn.Pkg.Pkg.Path(), "pkg/frame") {
				continue
			}
			if len(callsIn(fn, func(_ string, cc *ssa.CallCommon) bool { return cc.IsInvoke() && cc.Method.Name() == "marshalTo" })) == 0 {
				continue
			}
			n++
			if ln := fnLocalName(fn); ln == "Writer.Write" || ln == "Writer.writeFrameAndFill" {
				continue
			}
			if len(frameStoresIn(fn)) > 0 {
				bad = fnLocalName(fn) + " modifies the frame it marshals"
			}
		}
		r.Check(bad == "" && n > 0, "R8.1", "marshalling sites store nothing", "-", fmt.Sprintf("%d marshalling sites", n), orStr(bad, "no marshalling site found"))
	}

	// R8.2
	r.Rule("R8.2", "checksum/payload coherence (typestate): after a frame's message is re-encoded (Message ← mp.Write(...)) or its raw payload is modified, the frame's Checksum is recomputed with GenerateChecksum "+
		"before the frame is marshalled, handed to a channel writer or returned to the caller; decided interprocedurally over every function that re-encodes", 4)
	stale := map[*ssa.Function]bool{}
	// fixpoint: functions that can return with a stale frame
	for iter := 0; iter < 4; iter++ {
		changed := false
		for _, fn := range c.AllFns {
			if stale[fn] {
				continue
			}
			for _, e := range reEncodeEvents(c, fn, stale) {
				if _, ok := stalePathTo(fn, e, isSuccessReturn); ok {
					stale[fn] = true
					changed = true
					break
				}
			}
		}
		if !changed {
			break
		}
	}
	isHandover := func(in ssa.Instruction) bool {
		switch x := in.(type) {
		case *ssa.Call:
			n := calleeName(&x.Call)
			if n == "(frame.Writer).writeFrameInner" || n == "(frame.Writer).Write" || n == "(frame.Writer).WriteFrame" {
				return true
			}
			if x.Call.IsInvoke() && x.Call.Method.Name() == "Write" && strings.HasSuffix(ex(x.Call.Value), ".ByteWriter") {
				return true
			}
			if x.Call.IsInvoke() && x.Call.Method.Name() == "marshalTo" {
				return true
			}
		case *ssa.Select:
			for _, s := range x.States {
				if s.Send != nil {
					return true
				}
			}
		case *ssa.Send:
			return true
		}
		return false
	}
	nSites := 0
	for _, fn := range c.AllFns {
		evs := reEncodeEvents(c, fn, stale)
		if len(evs) == 0 {
			continue
		}
		r.Functions[fnQual(fn)] = true
		key := fnLocalName(fn) + " re-encode"
		exported := fn.Object() != nil && fn.Object().Exported() && fn.Parent() == nil
		var why string
		for _, e := range evs {
			if hit, ok := stalePathTo(fn, e, isHandover); ok {
				why = fmt.Sprintf("the message re-encoded at %s reaches the hand-over at %s with the checksum that was kept from the wire: whenever the received payload was not the canonical encoding "+
					"(bytes after a string terminator, unknown trailing extension bytes) the forwarded frame is rejected at the next hop", c.Pos(e.Pos()), c.Pos(hit.Pos()))
			} else if exported && stale[fn] {
				why = fmt.Sprintf("exported %s returns with a re-encoded message (%s) and a stale checksum", fnLocalName(fn), c.Pos(e.Pos()))
			}
		}
		nSites++
		if why != "" {
			r.Fail("R8.2", key, c.Pos(evs[0].Pos()), why)
		} else if stale[fn] {
			r.OK("R8.2", key, c.Pos(evs[0].Pos()), "internal helper: returns a re-encoded frame, every caller is checked for the refresh")
		} else {
			r.OK("R8.2", key, c.Pos(evs[0].Pos()), "checksum recomputed after re-encoding on every feasible path")
		}
	}
	if nSites < 4 {
		r.Broken("R8.2", "re-encode sites", fmt.Sprintf("only %d re-encoding functions found", nSites))
	}

	// R8.3 FixFrame ordering
	r.Rule("R8.3", "Node.FixFrame: encode → checksum (from the frame's own codec) → signature under the outgoing key, each before the next, nothing of the signed pre-image stored after signing", 2)
	if ff := c.Fn("root", "Node.FixFrame"); ff != nil {
		r.Functions[fnQual(ff)] = true
		enc := callsNamed(ff, "(gomavlib.Node).encodeFrame")
		if len(enc) == 0 {
			// encodeFrame written in line: the message codec applied directly
			enc = callsNamed(ff, "(message.ReadWriter).Write")
		}
		var probs []string
		if len(enc) != 1 {
			probs = append(probs, "FixFrame does not encode the (edited) message")
		}
		var sums []frameStore
		for _, s := range frameStoresIn(ff) {
			if s.field == "Checksum" && strings.Contains(s.val, "GenerateChecksum(") {
				sums = append(sums, s)
				if len(enc) == 1 && (reachInstr(s.st, enc[0]) || !reachInstr(enc[0], s.st)) {
					probs = append(probs, "checksum computed before encoding")
				}
				if !strings.Contains(s.val, "(message.ReadWriter).CRCExtra((dialect.ReadWriter).GetMessage(recv.dialectRW,(message.Message).GetID((frame.Frame).GetMessage(arg0))))") {
					probs = append(probs, "checksum not computed with the CRC_EXTRA of the frame's own message id")
				}
			}
		}
		if len(sums) != 2 {
			probs = append(probs, fmt.Sprintf("checksum recomputed for %d frame kinds, expected both", len(sums)))
		}
		sigs := callsNamed(ff, "(frame.V2Frame).GenerateSignature")
		if len(sigs) != 1 {
			probs = append(probs, "no signature recomputation")
		} else {
			for _, s := range sums {
				if s.owner == "frame.V2Frame" && !reachInstr(s.st, sigs[0]) {
					probs = append(probs, "signature computed before the v2 checksum")
				}
				if reachInstr(sigs[0], s.st) {
					probs = append(probs, "checksum stored after signing")
				}
			}
		}
		// encode error returned
		if len(enc) == 1 && returnsError(enc[0].(*ssa.Call)) && !errReturned(ff, enc[0].(*ssa.Call)) {
			probs = append(probs, "encode error is not returned")
		}
		r.Check(len(probs) == 0, "R8.3", "Node.FixFrame order", c.Pos(ff.Pos()), "encode → checksum → signature", strings.Join(probs, "; "))
		r.Check(len(sums) == 2, "R8.3", "Node.FixFrame checksum kinds", c.Pos(ff.Pos()), "both frame kinds", "FixFrame must recompute the checksum of v1 and of v2 frames")
	}

	// R8.4 isV2 provenance at re-encode sites
	r.Rule("R8.4", "the re-encoding used when forwarding is mp.Write(msg, isV2) with mp looked up by the frame's own message id and isV2 from the frame's own type", 3)
	n := 0
	for _, fn := range c.AllFns {
		for _, ci := range callsNamed(fn, "(message.ReadWriter).Write") {
			if fnLocalName(fn) == "Node.encodeMessage" {
				continue
			}
			n++
			a := ci.Common().Args
			frame := versionOfFrame(fn, ci, a[2])
			// the message of that very frame: through the interface getter or the typed frame's field
			msgArg := ex(a[1])
			ok := frame != "" && (msgArg == "(frame.Frame).GetMessage("+frame+")" || msgArg == frame+".(*frame.V1Frame)?#0.Message" || msgArg == frame+".(*frame.V2Frame)?#0.Message")
			mp := ex(a[0])
			// the codec looked up in the writer's / node's dialect by the id of this very frame's message
			okMp := mp == "arg1" || (strings.HasPrefix(mp, "(dialect.ReadWriter).GetMessage(recv.") &&
				strings.HasSuffix(mp, "ialectRW,(message.Message).GetID((frame.Frame).GetMessage("+frame+")))") && strings.Count(mp, "GetMessage(") == 2)
			if mp == "arg1" {
				// helper: check every caller passes the codec of that frame's id
				for _, cs := range c.callersOf(fn) {
					ca := cs.Call.Common().Args
					if !strings.Contains(ex(ca[1]), "(message.Message).GetID((frame.Frame).GetMessage("+ex(ca[0])+"))") {
						okMp = false
					}
				}
			}
			r.Check(ok && okMp, "R8.4", fnLocalName(fn)+" re-encode arguments", c.Pos(ci.Pos()), "own message, own codec, own version", "a frame is re-encoded with a message / codec / protocol version that is not its own: "+ex(ci.(*ssa.Call)))
		}
	}
	if n < 3 {
		r.Broken("R8.4", "re-encode sites", fmt.Sprintf("only %d found", n))
	}
}

// ruleV1Gate (R8.6, = R4.2's v1 clause): decode and re-encode agree about version 1. The encoder never emits extension
// fields in a v1 payload, so the decoder accepts a v1 payload only when it has exactly the base size: a payload
// decoded (e.g. with extensions) that the re-encoding used for forwarding cannot reproduce would decode differently
// at the next hop.
func ruleV1Gate(c *Ctx, rule string) {
	r := c.R
	r.Rule(rule, "v1 decode / encode symmetry: ReadWriter.Read refuses a v1 payload whose length differs from sizeNormal before any field is decoded (the v1 encoder emits exactly sizeNormal bytes, never extensions)", 1)
	rd := c.Fn("pkg/message", "ReadWriter.Read")
	if rd == nil {
		return
	}
	r.Functions[fnQual(rd)] = true
	v2True := map[edge]bool{}
	for _, iff := range ifsIn(rd) {
		if tb, _, hit := succWhen(iff, "arg1"); hit {
			v2True[edge{iff.Block(), tb}] = true
		}
	}
	var v1If *ssa.If
	var v1Pass, v1Fail *ssa.BasicBlock
	for _, iff := range ifsIn(rd) {
		if tb, fb, hit := succWhen(iff, "(len(arg0.Payload) != int(recv.sizeNormal))"); hit {
			v1If, v1Fail, v1Pass = iff, tb, fb
		}
	}
	ok := v1If != nil && len(v2True) > 0
	why := "no `len(payload) != sizeNormal` test on the v1 path of ReadWriter.Read: v1 payloads of another length (e.g. carrying extension fields) are decoded although the v1 encoder cannot reproduce them"
	if ok {
		ret, isRet := v1Fail.Instrs[len(v1Fail.Instrs)-1].(*ssa.Return)
		ok = isRet && len(ret.Results) == 2 && !isNilConst(ret.Results[1])
		why = "a v1 payload of the wrong length is not refused with an error"
		if ok {
			cut := map[edge]bool{{v1If.Block(), v1Pass}: true}
			for e := range v2True {
				cut[e] = true
			}
			reach := reachFrom(rd.Blocks[0], cut, nil)
			for _, ci := range callsNamed(rd, "message.readValue") {
				if reach[ci.Block()] {
					ok = false
					why = "the v1 exact-length gate does not precede decoding on the v1 path"
				}
			}
		}
	}
	r.Check(ok, rule, "ReadWriter.Read v1 exact length", c.Pos(rd.Pos()), "v1 payload must have exactly sizeNormal bytes", why)
}
