package main

import (
	"fmt"
	"go/token"
	"go/types"
	"strings"

	"golang.org/x/tools/go/ssa"
)

func init() { register("C20", []string{"./pkg/tlog", "./pkg/frame"}, runC20) }

// errReturned: the error produced by call (its error result) is returned on its non-nil edge or directly.
func errReturned(fn *ssa.Function, call *ssa.Call) bool {
	var ev ssa.Value = call
	if call.Type().String() != "error" {
		ev = nil
		if call.Referrers() != nil {
			for _, rf := range *call.Referrers() {
				if e, ok := rf.(*ssa.Extract); ok && e.Type().String() == "error" {
					ev = e
				}
			}
		}
	}
	if ev == nil {
		return false
	}
	for _, ret := range retInstrs(fn) {
		for _, res := range ret.Results {
			// direct return, return on the non-nil edge, or returned wrapped with context
			if typeStr(res.Type()) == "error" && errDerivedFrom(res, ev, 0) {
				return true
			}
		}
	}
	return false
}

func runC20(c *Ctx) {
	r := c.R
	defer borrowRules(c, "C01", runC01inner, map[string]string{"R1.6": "R20.5"}, "an entry is the stamp followed by one whole frame: a full-size signed frame must not be cut")
	defer borrowRules(c, "C05", runC05, map[string]string{"R5.3": "R20.6", "R5.7": "R20.7"}, "reading a log back consumes exactly the bytes of each entry's frame, for every payload length up to 255")
	r.NotDecided = append(r.NotDecided,
		"round-trip equality of entry sequences as an observed behaviour",
		"behaviour at every cut point (follows from R20.4 + C05 + io.ReadFull's contract, not observed)")
	w := c.Fn("pkg/tlog", "Writer.Write")
	wi := c.Fn("pkg/tlog", "Writer.Initialize")
	rd := c.Fn("pkg/tlog", "Reader.Read")
	if w == nil || wi == nil || rd == nil {
		return
	}
	r.Functions[fnQual(w)] = true
	r.Functions[fnQual(wi)] = true

	// R20.1 format
	r.Rule("R20.1", "format: the writer emits 8 bytes, byte i = UnixMicro(entry.Time) >> (56-8i) (big-endian microseconds), and the reader rebuilds the value as OR of byte i << (56-8i) and converts it with "+
		"time.Unix(us/1000000, (us%1000000)*1000); stamp bytes and frame bytes go to one sink, stamp first", 4)
	bi := newBufInterp(c, w, nil, nil)
	bi.run()
	var stampBuf ssa.Value
	for root, cs := range bi.cells {
		l := layoutOf(cs)
		if len(l) == 8 {
			ok := true
			cond0 := ""
			for i := 0; i < 8; i++ {
				// all eight bytes under one and the same path condition (input validation in front of the
				// whole entry is fine; a byte written under a condition of its own is not)
				val, cond, _ := strings.Cut(l[i], " @")
				if i == 0 {
					cond0 = cond
				}
				if val != fmt.Sprintf("%d:B((time.Time).UnixMicro(arg0.Time),%d)", i, 7-i) || cond != cond0 {
					ok = false
				}
			}
			if ok {
				stampBuf = root
			}
		}
	}
	r.Check(stampBuf != nil, "R20.1", "tlog.Writer.Write stamp layout", c.Pos(w.Pos()), "8 bytes big-endian of entry.Time.UnixMicro()",
		"no 8-byte buffer holding entry.Time.UnixMicro() big-endian found in tlog.Writer.Write (wrong unit, byte order or a dropped byte)")
	// reader decode
	okDec := false
	gotDec := ""
	for _, in := range allInstrs(rd) {
		call, ok := in.(*ssa.Call)
		if !ok || calleeName(&call.Call) != "time.Unix" {
			continue
		}
		a0, a1 := call.Call.Args[0], call.Call.Args[1]
		q, ok1 := a0.(*ssa.BinOp)
		m, ok2 := a1.(*ssa.BinOp)
		if !ok1 || !ok2 || q.Op != token.QUO || m.Op != token.MUL {
			gotDec = ex(call)
			continue
		}
		rem, ok3 := m.X.(*ssa.BinOp)
		kq, _ := constInt(q.Y)
		km, _ := constInt(m.Y)
		if !ok3 || rem.Op != token.REM || rem.X != q.X {
			gotDec = ex(call)
			continue
		}
		kr, _ := constInt(rem.Y)
		// the value divided must be signed (negative = before 1970): an unsigned division turns it into year 586524
		if b, isB := q.X.Type().Underlying().(*types.Basic); !isB || b.Info()&types.IsUnsigned != 0 {
			gotDec = "the microsecond count is split in unsigned arithmetic: timestamps before 1970 are corrupted"
			continue
		}
		tm, okT := orTerms(q.X, func(v ssa.Value) bool {
			if a, isA := v.(*ssa.Alloc); isA && isByteArrayPtr(a.Type()) {
				return true
			}
			if fa, isFA := v.(*ssa.FieldAddr); isFA && isByteArrayPtr(fa.Type()) {
				return true // scratch array kept in the reader
			}
			if _, ok := staticLen(v); ok {
				return true
			}
			_, isMS := v.(*ssa.MakeSlice)
			_, isSl := v.(*ssa.Slice)
			return isMS || isSl
		})
		if !okT {
			gotDec = "epoch expression not understood: " + ex(q.X)
			continue
		}
		okBE := len(tm) == 8
		for i := 0; i < 8; i++ {
			if tm[i] != 56-8*i {
				okBE = false
			}
		}
		gotDec = fmt.Sprintf("shifts %v, /%d, %%%d, *%d", tm, kq, kr, km)
		if okBE && kq == 1000000 && kr == 1000000 && km == 1000 {
			okDec = true
		}
	}
	r.Check(okDec, "R20.1", "tlog.Reader.Read stamp decode", c.Pos(rd.Pos()), gotDec, "the reader does not rebuild the big-endian microsecond stamp as time.Unix(us/1e6, (us%1e6)*1000): "+gotDec)

	// sinks
	var fwSink string
	for _, a := range litAllocs(wi, "frame.Writer") {
		lf := litFields(a)
		fwSink = exOrNil(lf["ByteWriter"])
		r.Check(exOrNil(lf["DialectRW"]) == "recv.DialectRW", "R20.1", "tlog.Writer.Initialize dialect plumbing", c.Pos(a.Pos()), "frame writer gets the log writer's dialect", "tlog.Writer does not forward its DialectRW to the frame writer")
	}
	fws := callsNamed(w, "(frame.Writer).Write")
	if len(fws) != 1 || fwSink == "" {
		r.Broken("R20.1", "tlog.Writer.Write frame write", fmt.Sprintf("%d frame writes / sink %q", len(fws), fwSink))
		return
	}
	fw := fws[0].(*ssa.Call)
	okFrame := ex(fw.Call.Args[0]) == "recv.frameWriter" && ex(fw.Call.Args[1]) == "arg0.Frame"
	r.Check(okFrame, "R20.1", "tlog.Writer.Write frame", c.Pos(fw.Pos()), "entry.Frame written through the log's frame writer", "the entry's frame is not written through w.frameWriter")
	// stamp write: a Write on the same sink as the frame writer, of the stamp buffer, before the frame write
	var stampWrite *ssa.Call
	userWrites := []*ssa.Call{}
	for _, in := range allInstrs(w) {
		call, ok := in.(*ssa.Call)
		if !ok {
			continue
		}
		n := calleeName(&call.Call)
		var sink string
		var data ssa.Value
		switch {
		case call.Call.IsInvoke() && call.Call.Method.Name() == "Write":
			sink, data = ex(call.Call.Value), call.Call.Args[0]
		case n == "(bytes.Buffer).Write":
			sink, data = ex(call.Call.Args[0]), call.Call.Args[1]
		default:
			continue
		}
		if sink == "recv.ByteWriter" {
			userWrites = append(userWrites, call)
		}
		if sink == fwSink && stampBuf != nil {
			if root, _, ok := bi.bufRef(data); ok && root == stampBuf {
				stampWrite = call
			}
		}
	}
	okOrder := stampWrite != nil && instrDominates(stampWrite, fw)
	r.Check(okOrder, "R20.1", "tlog.Writer.Write stamp before frame on one sink", c.Pos(w.Pos()), "stamp and frame reach "+fwSink+", stamp first",
		"the 8-byte stamp is not written to the sink the frame writer writes to ("+fwSink+") before the frame: entries would be interleaved or mis-ordered")

	// R20.2 no partial entry
	r.Rule("R20.2", "no partial entry: no byte reaches the user's ByteWriter before every step that can fail without I/O (frame writer: nil message, dialect missing, id not in dialect, v1 id > 255) has succeeded; "+
		"i.e. no frame-writer call is reachable after a write to the user's ByteWriter, and if the frame writer writes straight into the user's ByteWriter nothing may have been written before it", 1)
	var probs []string
	for _, uw := range userWrites {
		if reachInstr(uw, fw) {
			probs = append(probs, "bytes are written to the user's ByteWriter at "+c.Pos(uw.Pos())+" before the frame has been encoded: an entry whose frame cannot be encoded (e.g. v1 frame with id 300) leaves its 8-byte stamp in the log")
		}
	}
	if fwSink != "recv.ByteWriter" {
		// buffered form: one user write of the whole buffer on the success edge of the frame write; buffer reset before the stamp
		if len(userWrites) != 1 {
			probs = append(probs, fmt.Sprintf("%d writes to the user's ByteWriter, expected exactly one of the assembled entry", len(userWrites)))
		} else {
			uw := userWrites[0]
			onSuccess := false
			for _, iff := range ifsIn(w) {
				if b, ok := iff.Cond.(*ssa.BinOp); ok && b.Op == token.NEQ && b.X == ssa.Value(fw) && isNilConst(b.Y) && edgeMustPass(w, edge{iff.Block(), iff.Block().Succs[1]}, uw.Block()) {
					onSuccess = true
				}
			}
			if !onSuccess {
				probs = append(probs, "the assembled entry is written although the frame writer failed")
			}
			if !strings.Contains(ex(uw.Call.Args[0]), strings.TrimPrefix(fwSink, "&")) {
				probs = append(probs, "the user write does not carry the assembled buffer "+fwSink)
			}
			reset := false
			for _, ci := range callsNamed(w, "(bytes.Buffer).Reset") {
				if ex(ci.Common().Args[0]) == fwSink && stampWrite != nil && instrDominates(ci, stampWrite) {
					reset = true
				}
			}
			if !reset {
				probs = append(probs, "the assembly buffer is not reset before each entry: bytes of a failed entry leak into the next one")
			}
		}
	}
	r.Check(len(probs) == 0, "R20.2", "tlog.Writer.Write partial entry", c.Pos(w.Pos()), "nothing reaches the log before the frame is known to be encodable", strings.Join(probs, "; "))

	// R20.3 errors reported
	r.Rule("R20.3", "errors are reported: the error results of the user's ByteWriter.Write, of the frame writer, of io.ReadFull and of the frame reader are each returned to the caller; Initialize returns the frame writer/reader's error", 5)
	type site struct {
		fn   *ssa.Function
		name string
		pred func(n string, cc *ssa.CallCommon) bool
	}
	ri := c.Fn("pkg/tlog", "Reader.Initialize")
	sites := []site{
		{w, "user ByteWriter.Write", func(n string, cc *ssa.CallCommon) bool {
			return cc.IsInvoke() && cc.Method.Name() == "Write" && ex(cc.Value) == "recv.ByteWriter"
		}},
		{w, "frame writer Write", func(n string, cc *ssa.CallCommon) bool { return n == "(frame.Writer).Write" }},
		{rd, "io.ReadFull", func(n string, cc *ssa.CallCommon) bool { return n == "io.ReadFull" }},
		{rd, "frame reader Read", func(n string, cc *ssa.CallCommon) bool { return n == "(frame.Reader).Read" }},
		{wi, "frame.Writer.Initialize", func(n string, cc *ssa.CallCommon) bool { return n == "(frame.Writer).Initialize" }},
	}
	if ri != nil {
		sites = append(sites, site{ri, "frame.Reader.Initialize", func(n string, cc *ssa.CallCommon) bool { return n == "(frame.Reader).Initialize" }})
	}
	for _, s := range sites {
		cs := callsIn(s.fn, s.pred)
		if len(cs) == 0 {
			r.Fail("R20.3", fnLocalName(s.fn)+" "+s.name, c.Pos(s.fn.Pos()), "expected call not found")
			continue
		}
		for _, ci := range cs {
			call, ok := ci.(*ssa.Call)
			r.Check(ok && errReturned(s.fn, call), "R20.3", fnLocalName(s.fn)+" "+s.name, c.Pos(ci.Pos()), "error result returned to the caller", "the error of "+s.name+" is discarded: a failed write/read is reported as success")
		}
	}

	ruleTlogReader(c, "R20.4")
	// "an entry whose frame cannot be encoded leaves nothing in the log": the v1 id > 255 refusal the tlog writer relies
	// on lives in V1Frame.marshalTo, in front of every byte store (R1.4)
	ruleVersionGate(c)
}
