package main

import (
	"fmt"
	"go/token"
	"go/types"
	"sort"
	"strings"

	"golang.org/x/tools/go/ssa"
)

func init() {
	register("C10", []string{"."}, runC10)
	register("C11", []string{"."}, runC11)
	register("C13", []string{"."}, runC13)
}

// ---------------------------------------------------------------------------------------------
// shared: may-block summary
// ---------------------------------------------------------------------------------------------

var blockingLib = map[string]bool{
	"time.Sleep": true, "(sync.Mutex).Lock": true, "(sync.RWMutex).Lock": true, "(sync.RWMutex).RLock": true,
	"(sync.WaitGroup).Wait": true, "(sync.Cond).Wait": true, "io.ReadFull": true, "io.ReadAll": true, "io.Copy": true,
	"net.Dial": true, "net.DialTimeout": true, "(net.Dialer).DialContext": true, "(net.Dialer).Dial": true,
	"(bufio.Reader).ReadByte": true, "(bufio.Reader).Peek": true, "(bufio.Reader).Read": true,
}

var blockingIfaceMethods = map[string]bool{"Read": true, "Write": true, "Accept": true, "ReadFrom": true, "WriteTo": true, "Close": true}

// mayBlock: fn (transitively, through static callees and CHA-resolved interface invokes into repo code)
// contains a blocking channel operation, a blocking library call or an I/O interface call. go statements
// are not followed. Returns a witness.
func (c *Ctx) mayBlock(fn *ssa.Function, seen map[*ssa.Function]bool) (bool, string) {
	if fn == nil || fn.Blocks == nil {
		return false, ""
	}
	if seen[fn] {
		return false, ""
	}
	seen[fn] = true
	for _, op := range chanOpsIn(fn) {
		if op.Kind != "select" || op.Blocking {
			return true, fnQual(fn) + ": " + op.String()
		}
	}
	for _, in := range allInstrs(fn) {
		ci, ok := in.(ssa.CallInstruction)
		if !ok {
			continue
		}
		if _, isGo := in.(*ssa.Go); isGo {
			continue
		}
		cc := ci.Common()
		n := calleeName(cc)
		if blockingLib[n] {
			return true, fnQual(fn) + ": " + n
		}
		if cc.IsInvoke() {
			impls := c.implementations(cc)
			if len(impls) == 0 && blockingIfaceMethods[cc.Method.Name()] {
				return true, fnQual(fn) + ": " + n
			}
			for _, f := range impls {
				if b, w := c.mayBlock(f, seen); b {
					return true, w
				}
			}
			continue
		}
		if f := cc.StaticCallee(); f != nil {
			if b, w := c.mayBlock(f, seen); b {
				return true, w
			}
		} else if mc, ok := cc.Value.(*ssa.MakeClosure); ok {
			if b, w := c.mayBlock(mc.Fn.(*ssa.Function), seen); b {
				return true, w
			}
		}
	}
	return false, ""
}

// nodeLoopSelect returns the blocking select inside the loop of Node.run.
func nodeLoopSelect(c *Ctx) (*ssa.Function, *ssa.Select) {
	run := c.Fn("root", "Node.run")
	if run == nil {
		return nil, nil
	}
	if s := widestLoopSelect(run); s != nil {
		return run, s
	}
	c.R.Fail("anchor", "Node.run loop select", c.Pos(run.Pos()), "no blocking select inside the node loop")
	return run, nil
}

// caseRegion: blocks executed for select case idx before control returns to the select (or leaves the loop).
func caseRegion(sel *ssa.Select, idx int) map[*ssa.BasicBlock]bool {
	cb := selectCaseBlock(sel, idx)
	if cb == nil {
		return nil
	}
	return reachFrom(cb, nil, map[*ssa.BasicBlock]bool{sel.Block(): true})
}

// stateOfField: index of the select state operating on field f of the receiver.
func stateOfField(sel *ssa.Select, f *types.Var) int {
	for i, s := range sel.States {
		if loadedField(s.Chan) == f {
			return i
		}
	}
	return -1
}

// ---------------------------------------------------------------------------------------------
// C13
// ---------------------------------------------------------------------------------------------

func runC13(c *Ctx) {
	r := c.R
	defer ruleKeyPlumbing(c, "R13.6")
	r.NotDecided = append(r.NotDecided,
		"observed isolation between channels under real stalls (timing)",
		"that the transport error which made a write fail is also seen by the reader (environment)")
	m := buildTermModel(c)
	// a channel whose transport has stalled or failed is still torn down (= R12.4): the teardown typestate of Channel.run
	defer ruleChannelTeardown(c, m, "R13.5")

	ruleLoopNonBlocking(c, "R13.1")

	// R13.2
	r.Rule("R13.2", "a worker started by Channel.run that can end on its own must be awaited by Channel.run's select (so the channel is torn down and a close event is emitted); "+
		"equivalently accepted: the worker has no self-initiated return (after a failed write it goes back to serving the queue). "+
		"The reader may return on its own and is awaited; the writer must satisfy one of the two forms", 2)
	chRun := c.Fn("root", "Channel.run")
	rw := c.Fn("root", "Channel.runWriter")
	rd := c.Fn("root", "Channel.runReader")
	if chRun != nil && rw != nil && rd != nil {
		chSel := awaitSelect(chRun)
		workerChan := func(name string) *ssa.Alloc {
			for _, g := range goStmts(chRun) {
				tf, _ := goTarget(g)
				if tf == nil {
					continue
				}
				for _, in := range allInstrs(tf) {
					if s, ok := in.(*ssa.Send); ok {
						if call, ok := s.X.(*ssa.Call); ok && calleeName(&call.Call) == name {
							return rootAlloc(s.Chan)
						}
					}
				}
			}
			return nil
		}
		awaited := func(a *ssa.Alloc) bool {
			if chSel == nil || a == nil {
				return false
			}
			for _, s := range chSel.States {
				if s.Dir == types.RecvOnly && rootAlloc(s.Chan) == a {
					return true
				}
			}
			return false
		}
		for _, w := range []struct {
			fn   *ssa.Function
			name string
		}{{rw, "(gomavlib.Channel).runWriter"}, {rd, "(gomavlib.Channel).runReader"}} {
			r.Functions[fnQual(w.fn)] = true
			self := selfInitiatedReturns(m, w.fn)
			a := workerChan(w.name)
			key := fnLocalName(w.fn) + " self-initiated return"
			switch {
			case len(self) == 0:
				r.OK("R13.2", key, c.Pos(w.fn.Pos()), "worker returns only when told to terminate; failed items do not end it")
			case awaited(a) && w.fn == rw && noopCloserExists(c) != "":
				// the writer ended on its own and Channel.run reacts by closing the transport and joining the reader: that
				// only ends the channel if Close unblocks the reader's Read, which a no-op Close wrapper does not
				r.Fail("R13.2", key, c.Pos(self[0].Pos()),
					"the writer returns on its own (failed write) and Channel.run awaits it, but closing the channel then depends on the reader ending, and "+noopCloserExists(c)+
						" wraps transports (custom, UDP broadcast endpoints) with a Close that does nothing: on those endpoints the reader never ends, no close event is pushed and the channel stays open with no writer, discarding all further output")
			case awaited(a):
				r.OK("R13.2", key, c.Pos(self[0].Pos()), "worker can end on its own and Channel.run's select awaits its result (channel is closed and reported)")
			default:
				r.Fail("R13.2", key, c.Pos(self[0].Pos()),
					"the worker returns on its own (e.g. on the first failed write: transport error, id not in dialect, v1 id > 255) but Channel.run's select does not await its result: "+
						"the channel stays open, its queue fills and every later write is silently dropped, no close event")
			}
		}
	}

	// R13.3 queue
	ruleQueue(c, "R13.3", 1)

	// R13.4 a failed write leaves no state behind in the per-channel writers
	r.Rule("R13.4", "the per-channel writer objects (frame.Writer, streamwriter.Writer) carry no state from one write to the next except the sequence counter: outside Initialize / constructors the only receiver field they store and read back is nextSeqNumber (write-only statistics are not state), "+
		"and their write functions do not return early on a remembered condition — so a failed write (R13.2: the writer goroutine keeps serving) cannot silence later valid writes", 2)
	for _, w := range []struct{ pkg, typ string }{{"pkg/frame", "Writer"}, {"pkg/streamwriter", "Writer"}} {
		o := c.Obj(w.pkg, w.typ)
		if o == nil {
			continue
		}
		st, ok := o.Type().Underlying().(*types.Struct)
		if !ok {
			continue
		}
		var bad []string
		n := 0
		for i := 0; i < st.NumFields(); i++ {
			f := st.Field(i)
			for _, fs := range c.fieldStoresAll(f) {
				n++
				fn := fnLocalName(fs.Fn)
				if strings.HasSuffix(fn, ".Initialize") || strings.HasPrefix(fn, "New") || strings.HasSuffix(fn, ".initialize") {
					continue
				}
				if f.Name() == "nextSeqNumber" {
					continue
				}
				// write-only bookkeeping (a statistics counter read by nobody but itself / a getter) is not state
				infl := c.fieldInfluence(f)
				if len(infl) == 0 {
					continue
				}
				bad = append(bad, fmt.Sprintf("%s stores %s.%s (%s), which %s", fn, w.typ, f.Name(), c.Pos(fs.Store.Pos()), infl[0]))
			}
		}
		r.Check(len(bad) == 0 && n > 0, "R13.4", w.pkg+"."+w.typ+" state", c.Pos(o.Pos()), fmt.Sprintf("%d field stores, all at initialisation or the sequence counter", n),
			"the writer remembers something across writes: "+strings.Join(bad, "; ")+" — after one failed write every later write on the channel can be refused while the channel stays open")
	}
}

// selfInitiatedReturns: Return instructions of a worker loop that are reachable without passing the
// block of a terminate case of one of its selects.
func selfInitiatedReturns(m *termModel, fn *ssa.Function) []*ssa.Return {
	blocked := map[*ssa.BasicBlock]bool{}
	for _, in := range allInstrs(fn) {
		if s, ok := in.(*ssa.Select); ok {
			for i, st := range s.States {
				if st.Dir != types.RecvOnly {
					continue
				}
				k, _ := m.classify(st.Chan)
				if k == "term" || k == "ctx" || k == "termparam" {
					if cb := selectCaseBlock(s, i); cb != nil {
						blocked[cb] = true
					}
				}
			}
		}
	}
	reach := reachFrom(fn.Blocks[0], nil, blocked)
	var out []*ssa.Return
	for _, ret := range retInstrs(fn) {
		if reach[ret.Block()] && ret.Block() != fn.Recover {
			out = append(out, ret)
		}
	}
	return out
}

// ruleLoopNonBlocking (R13.1 / R11.5 / R12.7): the node loop never blocks outside its own select.
func ruleLoopNonBlocking(c *Ctx, rule string) {
	r := c.R
	r.Rule(rule, "enqueueing never blocks: Channel.write is a select with a default case whose only send is on the channel's own queue; "+
		"every function called from the body of the node loop has a non-blocking summary (no blocking channel operation, lock, wait or I/O, transitively), "+
		"so a stalled transport cannot delay other channels' writes, channel open/close handling or the handling of terminate (the node loop is the goroutine that cancels every channel context)", 7)
	if w := c.Fn("root", "Channel.write"); w != nil {
		r.Functions[fnQual(w)] = true
		ops := chanOpsIn(w)
		ok := len(ops) == 1 && ops[0].Kind == "select" && !ops[0].Blocking
		detail := ""
		if ok {
			nSend := 0
			for _, cs := range ops[0].Cases {
				if cs.Dir == "send" {
					nSend++
					if cs.Chan != "recv.chWrite" || cs.Val != "arg0" {
						ok = false
						detail = "send case is " + cs.Chan + " <- " + cs.Val
					}
				}
			}
			if nSend != 1 {
				ok = false
			}
			// the enqueue is attempted for every item: no return is reachable without going through the select (a
			// remembered condition — "congested", "failed before" — that makes write give up early silences the channel
			// for as long as the condition sticks)
			selIn := ops[0].Instr
			if _, early := pathFromEntryAvoiding(w, func(in ssa.Instruction) bool { _, isRet := in.(*ssa.Return); return isRet }, func(in ssa.Instruction) bool { return in == selIn }); early {
				ok = false
				detail = "— it can return without attempting the enqueue (an item is discarded on a condition other than `queue full` / `channel closed`)"
			}
		}
		r.Check(ok, rule, "Channel.write select", c.Pos(w.Pos()), "non-blocking select{chWrite<-what; <-ctx.Done(); default}",
			"Channel.write must be a single non-blocking select (default case) sending the item unchanged on the channel's queue; a blocking enqueue lets one stalled channel stall the node loop "+detail)
	}
	run, sel := nodeLoopSelect(c)
	if sel != nil {
		r.Functions[fnQual(run)] = true
		for i := range sel.States {
			region := caseRegion(sel, i)
			if region == nil {
				r.Broken(rule, "Node.run case "+fmt.Sprint(i), "cannot locate case body")
				continue
			}
			// only blocks inside the loop (that can reach the select again)
			var calls []ssa.CallInstruction
			for b := range region {
				if !reachFrom(b, nil, nil)[sel.Block()] {
					continue
				}
				for _, in := range b.Instrs {
					if ci, ok := in.(ssa.CallInstruction); ok {
						if _, isGo := in.(*ssa.Go); !isGo {
							calls = append(calls, ci)
						}
					}
				}
			}
			key := "Node.run case " + strings.TrimPrefix(ex(sel.States[i].Chan), "recv.")
			bad := ""
			for _, ci := range calls {
				cc := ci.Common()
				n := calleeName(cc)
				if blockingLib[n] {
					bad = n
				}
				if f := cc.StaticCallee(); f != nil && f.Blocks != nil {
					if b, w := c.mayBlock(f, map[*ssa.Function]bool{}); b {
						bad = w
					}
				}
				if cc.IsInvoke() {
					for _, f := range c.implementations(cc) {
						if b, w := c.mayBlock(f, map[*ssa.Function]bool{}); b {
							bad = w
						}
					}
				}
			}
			// bare channel ops inside the case body
			for b := range region {
				if !reachFrom(b, nil, nil)[sel.Block()] || b == sel.Block() {
					continue
				}
				for _, in := range b.Instrs {
					switch x := in.(type) {
					case *ssa.Send:
						bad = "bare send in loop body"
					case *ssa.UnOp:
						if x.Op == token.ARROW {
							bad = "bare receive in loop body"
						}
					case *ssa.Select:
						if x.Blocking {
							bad = "nested blocking select in loop body"
						}
					}
				}
			}
			r.Check(bad == "", rule, key, c.Pos(sel.States[i].Pos), fmt.Sprintf("%d calls in the case body, all with a non-blocking summary", len(calls)),
				"the node loop can block while handling this case ("+bad+"): one stalled channel then delays every other channel and channel open/close handling")
		}
	}

}

// ruleQueue: one bounded FIFO per channel, one producer function, one consumer goroutine.
func ruleQueue(c *Ctx, rule string, minCap int64) {
	r := c.R
	r.Rule(rule, fmt.Sprintf("per channel there is one FIFO: the queue field is created at exactly one site by make(chan) with a constant capacity ≥ %d (bounded; the property promises no loss below 64 queued items where it names a number); ", minCap)+
		"Channel.write is its only sender and runWriter its only receiver; runWriter is launched once per Channel.run", 4)
	f := c.Field("root", "Channel", "chWrite")
	if f == nil {
		return
	}
	stores := c.fieldStoresAll(f)
	ok := len(stores) == 1
	detail := fmt.Sprintf("%d creation sites", len(stores))
	capK := int64(-1)
	if ok {
		mc, isMC := stores[0].Store.Val.(*ssa.MakeChan)
		if !isMC {
			ok = false
			detail = "queue is not created by make(chan)"
		} else if k, isC := constInt(mc.Size); !isC {
			if minCap > 1 {
				ok = false
				detail = "queue capacity is not a constant (" + ex(mc.Size) + "): that at least " + fmt.Sprint(minCap) + " items can be queued is not decided by the code"
			}
			// a buffered channel is bounded whatever its (run-time) capacity: enough where only boundedness is required
		} else {
			capK = k
		}
	}
	pos := "-"
	if len(stores) > 0 {
		pos = c.Pos(stores[0].Store.Pos())
	}
	r.Check(ok, rule, "Channel.chWrite creation", pos, "single creation site, constant capacity", "per-channel queue: "+detail)
	if capK >= 0 {
		r.Check(capK >= minCap && capK <= 1<<20, rule, "Channel.chWrite capacity", pos, fmt.Sprintf("capacity %d ≥ %d", capK, minCap),
			fmt.Sprintf("queue capacity is %d: the property needs a bounded queue of at least %d items (items are dropped although the backlog is below the promised bound, or the queue is unbuffered/unbounded)", capK, minCap))
	}
	var senders, receivers []string
	for _, fn := range rootFns(c) {
		for _, op := range chanOpsIn(fn) {
			switch op.Kind {
			case "send":
				if loadedField(op.Instr.(*ssa.Send).Chan) == f {
					senders = append(senders, fnLocalName(fn))
				}
			case "recv":
				if loadedField(op.Instr.(*ssa.UnOp).X) == f {
					receivers = append(receivers, fnLocalName(fn))
				}
			case "select":
				for _, s := range op.Instr.(*ssa.Select).States {
					if loadedField(s.Chan) == f {
						if s.Dir == types.SendOnly {
							senders = append(senders, fnLocalName(fn))
						} else {
							receivers = append(receivers, fnLocalName(fn))
						}
					}
				}
			}
		}
	}
	r.Check(len(senders) == 1 && senders[0] == "Channel.write", rule, "Channel.chWrite senders", "-", "only Channel.write enqueues", fmt.Sprintf("queue senders are %v, expected only Channel.write (a second producer breaks per-goroutine FIFO order / drop accounting)", senders))
	// the producer function itself is called by the node loop only: one goroutine enqueues, in the order it received the
	// requests (an item re-enqueued by the writer goroutine, e.g. to retry it, lands behind items submitted later)
	if wf := c.FnOpt("root", "Channel.write"); wf != nil {
		var who []string
		okWho := true
		for _, s := range c.callersOf(wf) {
			n := fnLocalName(s.Fn)
			who = append(who, n)
			if n != "Node.run" && !strings.HasPrefix(n, "Node.run$") {
				okWho = false
			}
		}
		r.Check(okWho && len(who) > 0, rule, "Channel.write callers", "-", fmt.Sprintf("called only from the node loop (%d sites)", len(who)),
			fmt.Sprintf("Channel.write is called from %v: only the node loop may enqueue (a second producer goroutine breaks the per-goroutine submission order)", who))
	}
	r.Check(len(receivers) == 1 && receivers[0] == "Channel.runWriter", rule, "Channel.chWrite receivers", "-", "only runWriter dequeues", fmt.Sprintf("queue receivers are %v, expected only Channel.runWriter (two consumers reorder frames / interleave bytes)", receivers))
	if rw := c.FnOpt("root", "Channel.runWriter"); rw != nil {
		sites := c.callersOf(rw)
		r.Check(len(sites) == 1, rule, "Channel.runWriter launch sites", "-", "launched at one site (one consumer per channel)", fmt.Sprintf("runWriter has %d call sites, expected exactly one", len(sites)))
	}
}

// ---------------------------------------------------------------------------------------------
// C11
// ---------------------------------------------------------------------------------------------

func runC11(c *Ctx) {
	r := c.R
	defer borrowRules(c, "C12", runC12, map[string]string{"R12.4": "R11.7"}, "a channel's writer must have ended before the transport is handed to a successor channel, or two writers interleave partial frames on it")
	defer ruleKeyPlumbing(c, "R11.9")
	defer ruleCodecNoSharedWrites(c, "R11.8", "C11: concurrent Write* calls encode in the callers' goroutines through the one shared codec; each item on the wire is what one caller submitted")
	r.NotDecided = append(r.NotDecided,
		"exactly-once / FIFO as properties of executions under all interleavings",
		"loss-freedom below 64 queued items under real scheduling (R11.3 + C13 are its code-shape part)")
	r.Rule("R11.1", "each of the six Write* methods encodes first (error returned before anything is sent), then hands over on the matching node channel, "+
		"with the matching request (To: {target channel argument, encoded item}; All: encoded item; Except: {excluded channel argument, encoded item}), in a select that also has the terminate case", 6)
	type api struct {
		name, chanField, enc, reqType string
		chanArgField                  string
	}
	apis := []api{
		{"Node.WriteMessageTo", "chWriteTo", "msg", "gomavlib.writeToReq", "ch"},
		{"Node.WriteMessageAll", "chWriteAll", "msg", "", ""},
		{"Node.WriteMessageExcept", "chWriteExcept", "msg", "gomavlib.writeExceptReq", "except"},
		{"Node.WriteFrameTo", "chWriteTo", "frame", "gomavlib.writeToReq", "ch"},
		{"Node.WriteFrameAll", "chWriteAll", "frame", "", ""},
		{"Node.WriteFrameExcept", "chWriteExcept", "frame", "gomavlib.writeExceptReq", "except"},
	}
	m := buildTermModel(c)
	for _, a := range apis {
		fn := c.Fn("root", a.name)
		if fn == nil {
			continue
		}
		r.Functions[fnQual(fn)] = true
		itemArg := "arg0"
		if a.reqType != "" {
			itemArg = "arg1"
		}
		var wantItem string
		var encCall ssa.CallInstruction
		if a.enc == "msg" {
			cs := callsNamed(fn, "(gomavlib.Node).encodeMessage")
			if len(cs) == 1 && ex(cs[0].Common().Args[1]) == itemArg {
				encCall = cs[0]
			}
			wantItem = "(gomavlib.Node).encodeMessage(recv," + itemArg + ")#0"
		} else {
			cs := callsNamed(fn, "(gomavlib.Node).encodeFrame")
			if len(cs) == 1 && ex(cs[0].Common().Args[1]) == itemArg {
				encCall = cs[0]
			}
			wantItem = itemArg
		}
		var sel *ssa.Select
		for _, in := range allInstrs(fn) {
			if s, ok := in.(*ssa.Select); ok {
				sel = s
			}
		}
		problems := []string{}
		if encCall == nil {
			problems = append(problems, "the item is not passed through the node's encode function exactly once")
		}
		if sel == nil || !sel.Blocking {
			problems = append(problems, "no blocking select hand-over")
		} else {
			if ok, _ := m.selectHasTerm(sel); !ok {
				problems = append(problems, "hand-over select lacks the terminate case (Write* blocks forever after Close)")
			}
			nSend := 0
			for _, s := range sel.States {
				if s.Dir != types.SendOnly {
					continue
				}
				nSend++
				if ex(s.Chan) != "recv."+a.chanField {
					problems = append(problems, "sends on "+ex(s.Chan)+" instead of recv."+a.chanField)
				}
				if a.reqType == "" {
					if ex(s.Send) != wantItem {
						problems = append(problems, "sends "+ex(s.Send)+" instead of the encoded item "+wantItem)
					}
				} else {
					la := rootAlloc(s.Send)
					if la == nil || typeStr(la.Type().(*types.Pointer).Elem()) != a.reqType {
						problems = append(problems, "request is not a "+a.reqType+" literal")
					} else {
						lf := litFields(la)
						if v := lf[a.chanArgField]; v == nil || ex(v) != "arg0" {
							problems = append(problems, "request field "+a.chanArgField+" is not the channel argument")
						}
						if v := lf["what"]; v == nil || ex(v) != wantItem {
							got := "<unset>"
							if v != nil {
								got = ex(v)
							}
							problems = append(problems, "request field what is "+got+" instead of the encoded item "+wantItem)
						}
					}
				}
			}
			if nSend != 1 {
				problems = append(problems, fmt.Sprintf("%d send cases", nSend))
			}
			if encCall != nil {
				// encode dominates select and its error edge returns before the select
				if !instrDominates(encCall, sel) {
					problems = append(problems, "encoding does not dominate the hand-over")
				}
				var errV ssa.Value
				if a.enc == "msg" {
					for _, rf := range *encCall.(*ssa.Call).Referrers() {
						if e, ok := rf.(*ssa.Extract); ok && e.Index == 1 {
							errV = e
						}
					}
				} else {
					errV = encCall.(*ssa.Call)
				}
				guarded := false
				for _, i := range ifsIn(fn) {
					if b, ok := i.Cond.(*ssa.BinOp); ok && b.Op == token.NEQ && b.X == errV && isNilConst(b.Y) {
						if edgeMustPass(fn, edge{i.Block(), i.Block().Succs[1]}, sel.Block()) {
							guarded = true
						}
					}
				}
				if !guarded {
					problems = append(problems, "the encode error does not prevent the hand-over")
				}
			}
		}
		r.Check(len(problems) == 0, "R11.1", a.name, c.Pos(fn.Pos()), "encode → select{"+a.chanField+" <- request; <-terminate}", strings.Join(problems, "; "))
	}

	// R11.2 dispatch
	r.Rule("R11.2", "node loop dispatch: chWriteTo → exactly one write, to the requested channel, with the received item, only when that channel is in the set of open channels; "+
		"chWriteAll → one write per element of the open set; chWriteExcept → same but only on the true edge of `ch != excluded`; "+
		"chNewChannel inserts into the set and starts the channel; chCloseChannel deletes from the set", 5)
	run, sel := nodeLoopSelect(c)
	if sel != nil {
		_ = run
		node := func(n string) *types.Var { return c.Field("root", "Node", n) }
		writesIn := func(region map[*ssa.BasicBlock]bool) []*ssa.Call {
			var out []*ssa.Call
			for _, b := range run.Blocks {
				if !region[b] {
					continue
				}
				for _, in := range b.Instrs {
					if call, ok := in.(*ssa.Call); ok && calleeName(&call.Call) == "(gomavlib.Channel).write" {
						out = append(out, call)
					}
				}
			}
			return out
		}
		// To
		if i := stateOfField(sel, node("chWriteTo")); i >= 0 {
			reg := caseRegion(sel, i)
			ws := writesIn(reg)
			v := selectRecvValue(sel, i)
			ok := len(ws) == 1 && v != nil
			why := fmt.Sprintf("%d write calls in the case body", len(ws))
			if ok {
				base := ex(v)
				tgt, item := ex(ws[0].Call.Args[0]), ex(ws[0].Call.Args[1])
				if tgt != base+".ch" || item != base+".what" {
					ok = false
					why = "write(" + tgt + ", " + item + ") does not use the request's channel and item"
				}
				// membership guard
				guard := false
				for _, iff := range ifsIn(run) {
					if !reg[iff.Block()] {
						continue
					}
					if e, isE := iff.Cond.(*ssa.Extract); isE && e.Index == 1 {
						if lk, isL := e.Tuple.(*ssa.Lookup); isL && lk.CommaOk && ex(lk.X) == "recv.channels" && ex(lk.Index) == base+".ch" {
							if edgeMustPass(run, edge{iff.Block(), iff.Block().Succs[0]}, ws[0].Block()) {
								guard = true
							}
						}
					}
				}
				if ok && !guard {
					ok = false
					why = "the write is not guarded by membership of the target in the set of open channels (writes to closed/foreign channels must be ignored)"
				}
			}
			r.Check(ok, "R11.2", "Node.run chWriteTo", c.Pos(sel.States[i].Pos), "one write to the requested channel if it is open", why)
		} else {
			r.Fail("R11.2", "Node.run chWriteTo", c.Pos(sel.Pos()), "no case on chWriteTo in the node loop")
		}
		// All / Except
		for _, kind := range []string{"chWriteAll", "chWriteExcept"} {
			i := stateOfField(sel, node(kind))
			if i < 0 {
				r.Fail("R11.2", "Node.run "+kind, c.Pos(sel.Pos()), "no case on "+kind+" in the node loop")
				continue
			}
			reg := caseRegion(sel, i)
			ws := writesIn(reg)
			v := selectRecvValue(sel, i)
			ok := len(ws) == 1 && v != nil
			why := fmt.Sprintf("%d write calls in the case body", len(ws))
			if ok {
				base := ex(v)
				tgt, item := ex(ws[0].Call.Args[0]), ex(ws[0].Call.Args[1])
				wantItem := base
				if kind == "chWriteExcept" {
					wantItem = base + ".what"
				}
				if tgt != "next(range(recv.channels))#1" || item != wantItem {
					ok = false
					why = "write(" + tgt + ", " + item + ") is not applied to every open channel with the received item"
				}
				// guards on the path to the write inside the range body (each as the set of equivalent
				// renderings of the condition that holds on the edge leading to the write)
				var guards []map[string]bool
				var guardStr []string
				var guardOK = true
				for _, iff := range ifsIn(run) {
					if !reg[iff.Block()] {
						continue
					}
					if _, isNext := iff.Cond.(*ssa.Extract); isNext && strings.HasPrefix(ex(iff.Cond), "next(range(") {
						continue // range loop condition
					}
					t := edgeMustPass(run, edge{iff.Block(), iff.Block().Succs[0]}, ws[0].Block())
					f := edgeMustPass(run, edge{iff.Block(), iff.Block().Succs[1]}, ws[0].Block())
					if !t && !f {
						continue
					}
					idx := 0
					if f {
						idx = 1
					}
					set := map[string]bool{}
					for k, v := range condVariants(iff.Cond) {
						if v == idx {
							set[k] = true
						}
					}
					// `ch != nil` on a key of n.channels is vacuous: only channels handed over by a provider (non-nil
					// literals, R14.4) are ever inserted
					if set["(next(range(recv.channels))#1 != nil)"] {
						continue
					}
					guards = append(guards, set)
					guardStr = append(guardStr, fmt.Sprint(keysOf(set)))
				}
				if kind == "chWriteAll" && len(guards) != 0 {
					guardOK = false
					why = "write-to-all is filtered by " + strings.Join(guardStr, ",")
				}
				if kind == "chWriteExcept" {
					want := "(next(range(recv.channels))#1 != " + base + ".except)"
					if len(guards) != 1 || !guards[0][want] {
						guardOK = false
						why = "write-except must be guarded exactly by `ch != excluded`; guards found: " + strings.Join(guardStr, ",")
					}
				}
				ok = ok && guardOK
			}
			r.Check(ok, "R11.2", "Node.run "+kind, c.Pos(sel.States[i].Pos), "one write per open channel"+map[string]string{"chWriteAll": "", "chWriteExcept": " except the excluded one"}[kind], why)
		}
		// new / close channel
		if i := stateOfField(sel, node("chNewChannel")); i >= 0 {
			reg := caseRegion(sel, i)
			v := selectRecvValue(sel, i)
			ins, st := false, false
			for b := range reg {
				for _, in := range b.Instrs {
					if mu, ok := in.(*ssa.MapUpdate); ok && ex(mu.Map) == "recv.channels" && v != nil && ex(mu.Key) == ex(v) {
						ins = true
					}
					if call, ok := in.(*ssa.Call); ok && calleeName(&call.Call) == "(gomavlib.Channel).start" && v != nil && ex(call.Call.Args[0]) == ex(v) {
						st = true
					}
					// Channel.start in line: go ch.run()
					if g, ok := in.(*ssa.Go); ok && calleeName(&g.Call) == "(gomavlib.Channel).run" && v != nil && len(g.Call.Args) > 0 && ex(g.Call.Args[0]) == ex(v) {
						st = true
					}
				}
			}
			r.Check(ins && st, "R11.2", "Node.run chNewChannel", c.Pos(sel.States[i].Pos), "inserted into the open set and started", "a new channel must be inserted into n.channels and started in the chNewChannel case")
		} else {
			r.Fail("R11.2", "Node.run chNewChannel", c.Pos(sel.Pos()), "no case on chNewChannel in the node loop")
		}
		if i := stateOfField(sel, node("chCloseChannel")); i >= 0 {
			reg := caseRegion(sel, i)
			v := selectRecvValue(sel, i)
			del := false
			for b := range reg {
				for _, in := range b.Instrs {
					if call, ok := in.(*ssa.Call); ok && calleeName(&call.Call) == "delete" && ex(call.Call.Args[0]) == "recv.channels" && v != nil && ex(call.Call.Args[1]) == ex(v) {
						del = true
					}
				}
			}
			r.Check(del, "R11.2", "Node.run chCloseChannel", c.Pos(sel.States[i].Pos), "removed from the open set", "a closed channel must be deleted from n.channels (else writes keep targeting it)")
		} else {
			r.Fail("R11.2", "Node.run chCloseChannel", c.Pos(sel.Pos()), "no case on chCloseChannel in the node loop")
		}
		// who may write n.channels: only Node.run and Node.Initialize (creation)
		var others []string
		for _, fn := range rootFns(c) {
			for _, in := range allInstrs(fn) {
				touch := false
				switch x := in.(type) {
				case *ssa.MapUpdate:
					touch = strings.HasSuffix(ex(x.Map), ".channels")
				case *ssa.Call:
					touch = calleeName(&x.Call) == "delete" && strings.HasSuffix(ex(x.Call.Args[0]), ".channels")
				}
				if touch && fnLocalName(fn) != "Node.run" {
					others = append(others, fnLocalName(fn))
				}
			}
		}
		r.Check(len(others) == 0, "R11.2", "Node.channels writers", "-", "the open set is modified only by the node loop", fmt.Sprintf("n.channels is modified outside the node loop: %v", others))
	}

	ruleQueue(c, "R11.3", 64)
	ruleLoopNonBlocking(c, "R11.5")

	r.Rule("R11.6", "the node's request channels (chWriteTo, chWriteAll, chWriteExcept, chNewChannel, chCloseChannel) are each created once and unbuffered: a Write* call returns only after the node loop "+
		"has taken the item, so items submitted by one goroutine are dispatched in submission order even across To/All/Except", 5)
	for _, fname := range []string{"chWriteTo", "chWriteAll", "chWriteExcept", "chNewChannel", "chCloseChannel"} {
		f := c.Field("root", "Node", fname)
		if f == nil {
			continue
		}
		st := c.fieldStoresAll(f)
		ok := len(st) == 1
		why := fmt.Sprintf("%d creation sites", len(st))
		pos := "-"
		if ok {
			pos = c.Pos(st[0].Store.Pos())
			mc, isMC := st[0].Store.Val.(*ssa.MakeChan)
			k, isC := int64(-1), false
			if isMC {
				k, isC = constInt(mc.Size)
			}
			if !isMC || !isC || k != 0 {
				ok = false
				why = "created as " + ex(st[0].Store.Val) + ": a buffered request channel lets a later To/Except write overtake an earlier All write of the same goroutine"
			}
		}
		r.Check(ok, "R11.6", "Node."+fname, pos, "unbuffered, single creation site", why)
	}

	// R11.4 writer dispatch
	r.Rule("R11.4", "runWriter: an item that is a message.Message goes to the link's stream writer (link's header fields), an item that is a frame.Frame goes to the frame writer "+
		"(frame's own header fields); both writers are the channel's own, constructed once in Channel.initialize and sharing one underlying frame.Writer", 3)
	if rw := c.Fn("root", "Channel.runWriter"); rw != nil {
		r.Functions[fnQual(rw)] = true
		var rsel *ssa.Select
		for _, in := range allInstrs(rw) {
			if s, ok := in.(*ssa.Select); ok {
				rsel = s
			}
		}
		okM, okF := false, false
		if rsel != nil {
			f := c.Field("root", "Channel", "chWrite")
			i := stateOfField(rsel, f)
			if i >= 0 {
				item := ex(selectRecvValue(rsel, i))
				for _, call := range callsNamed(rw, "(streamwriter.Writer).Write") {
					a := call.Common().Args
					if ex(a[0]) == "recv.streamWriter" && ex(a[1]) == item+".(message.Message)?#0" {
						okM = true
					}
				}
				for _, call := range callsNamed(rw, "(frame.Writer).Write") {
					a := call.Common().Args
					if ex(a[0]) == "recv.frameWriter.Writer" && ex(a[1]) == item+".(frame.Frame)?#0" {
						okF = true
					}
				}
			}
		}
		r.Check(okM, "R11.4", "runWriter message dispatch", c.Pos(rw.Pos()), "message.Message → ch.streamWriter.Write(item)", "a queued message.Message is not written through the channel's stream writer with the dequeued item")
		r.Check(okF, "R11.4", "runWriter frame dispatch", c.Pos(rw.Pos()), "frame.Frame → ch.frameWriter.Write(item)", "a queued frame.Frame is not written through the channel's frame writer with the dequeued item")
	}
	if ini := c.Fn("root", "Channel.initialize"); ini != nil {
		ok := false
		for _, a := range litAllocs(ini, "streamwriter.Writer") {
			if v := litFields(a)["FrameWriter"]; v != nil && ex(v) == "recv.frameWriter.Writer" {
				ok = true
			}
		}
		r.Check(ok, "R11.4", "Channel.initialize stream writer plumbing", c.Pos(ini.Pos()), "streamwriter.Writer{FrameWriter: ch.frameWriter.Writer}: one frame.Writer (one scratch buffer, one transport Write per frame) per channel",
			"the channel's stream writer is not built on the channel's own frame writer")
	}
}

// ---------------------------------------------------------------------------------------------
// C10
// ---------------------------------------------------------------------------------------------

func runC10(c *Ctx) {
	r := c.R
	defer rulePeekLifetime(c, "R10.8", "C10: the frame event of a valid frame carries that frame's id and payload however the transport segmented it")
	defer ruleCodecNoSharedWrites(c, "R10.9", "C10: a frame event on one channel never carries bytes that arrived on another")
	defer borrowRules(c, "C05", runC05, map[string]string{"R5.4": "R10.10"}, "a rejection that leaves the rest of the rejected frame in the stream lets its bytes start a bogus frame that swallows the next valid one")
	r.NotDecided = append(r.NotDecided,
		"the event order actually observed under real interleavings of k channels",
		"'nothing more arrives after close' when the node itself is closed first (exempted by the statement)",
		"that frames returned by the frame reader are exactly the valid ones (C02/C05/C06 decide the reader)")
	m := buildTermModel(c)
	chRun := c.Fn("root", "Channel.run")
	rd := c.Fn("root", "Channel.runReader")
	push := c.Fn("root", "Node.pushEvent")
	oef := c.Fn("root", "nodeStreamRequest.onEventFrame")
	if chRun == nil || rd == nil || push == nil || oef == nil {
		return
	}

	// R10.1 who emits what
	r.Rule("R10.1", "events are sent on the event channel only by Node.pushEvent; pushEvent is called only from Channel.run, Channel.runReader and onEventFrame (itself called only from runReader); "+
		"each event type is constructed only in its owner function and its Channel field is the emitting channel", 8)
	evF := c.Field("root", "Node", "chEvent")
	var senders []string
	for _, fn := range rootFns(c) {
		for _, op := range chanOpsIn(fn) {
			switch op.Kind {
			case "send":
				if loadedField(op.Instr.(*ssa.Send).Chan) == evF {
					senders = append(senders, fnLocalName(fn))
				}
			case "select":
				for _, s := range op.Instr.(*ssa.Select).States {
					if s.Dir == types.SendOnly && loadedField(s.Chan) == evF {
						senders = append(senders, fnLocalName(fn))
					}
				}
			}
		}
	}
	r.Check(len(senders) == 1 && senders[0] == "Node.pushEvent", "R10.1", "chEvent senders", "-", "only Node.pushEvent sends events", fmt.Sprintf("event channel senders: %v (expected only Node.pushEvent)", senders))
	var callers []string
	for _, cs := range c.callersOf(push) {
		callers = append(callers, fnLocalName(cs.Fn))
	}
	sort.Strings(callers)
	allowed := map[string]bool{"Channel.run": true, "Channel.runReader": true, "nodeStreamRequest.onEventFrame": true}
	okCallers := true
	for _, cl := range callers {
		if !allowed[cl] {
			okCallers = false
		}
	}
	r.Check(okCallers && len(callers) >= 4, "R10.1", "pushEvent callers", "-", fmt.Sprintf("callers: %v", callers), fmt.Sprintf("pushEvent is called from %v; only Channel.run, Channel.runReader and onEventFrame may emit", callers))
	var oefCallers []string
	for _, cs := range c.callersOf(oef) {
		oefCallers = append(oefCallers, fnLocalName(cs.Fn))
	}
	r.Check(len(oefCallers) == 1 && oefCallers[0] == "Channel.runReader", "R10.1", "onEventFrame callers", "-", "called only from runReader", fmt.Sprintf("onEventFrame callers: %v", oefCallers))
	owners := map[string]string{
		"gomavlib.EventChannelOpen": "Channel.runReader", "gomavlib.EventFrame": "Channel.runReader", "gomavlib.EventParseError": "Channel.runReader",
		"gomavlib.EventChannelClose": "Channel.run", "gomavlib.EventStreamRequested": "nodeStreamRequest.onEventFrame",
	}
	var tnames []string
	for t := range owners {
		tnames = append(tnames, t)
	}
	sort.Strings(tnames)
	for _, t := range tnames {
		var where []string
		chanOK := true
		for _, fn := range rootFns(c) {
			for _, a := range litAllocs(fn, t) {
				where = append(where, fnLocalName(fn))
				v := litFields(a)["Channel"]
				want := "recv"
				if fnLocalName(fn) == "nodeStreamRequest.onEventFrame" {
					want = "arg0.Channel"
				}
				if v == nil || ex(v) != want {
					chanOK = false
				}
			}
		}
		ok := len(where) >= 1
		for _, w := range where {
			if w != owners[t] {
				ok = false
			}
		}
		r.Check(ok && chanOK, "R10.1", "constructors of "+t, "-", fmt.Sprintf("constructed only in %s, attributed to the emitting channel", owners[t]),
			fmt.Sprintf("%s constructed in %v (owner %s), Channel field attributed correctly: %v", t, where, owners[t], chanOK))
	}

	// R10.2 open first, once
	r.Rule("R10.2", "runReader pushes EventChannelOpen outside any loop, before the first read of the transport and before every other event it can emit; "+
		"runReader, Channel.run and Channel.start each have exactly one launch site (the last one in the node loop's new-channel case)", 4)
	r.Functions[fnQual(rd)] = true
	var openCall ssa.CallInstruction
	var pushes []ssa.CallInstruction
	for _, call := range callsNamed(rd, "(gomavlib.Node).pushEvent") {
		pushes = append(pushes, call)
		if a := underlyingAlloc(call.Common().Args[1]); a != nil && typeStr(a.Type().(*types.Pointer).Elem()) == "gomavlib.EventChannelOpen" {
			openCall = call
		}
	}
	if openCall == nil {
		r.Fail("R10.2", "runReader open event", c.Pos(rd.Pos()), "runReader does not push an EventChannelOpen")
	} else {
		ok := !inLoop(openCall.Block())
		why := "open event is pushed inside a loop (more than once)"
		for _, p := range pushes {
			if p != openCall && !instrDominates(openCall, p) {
				ok = false
				why = "another event can be pushed before the open event"
			}
		}
		for _, rc := range callsNamed(rd, "(frame.Reader).Read", "(gomavlib.nodeStreamRequest).onEventFrame") {
			if !instrDominates(openCall, rc) {
				ok = false
				why = "the transport is read / a stream request is made before the open event"
			}
		}
		r.Check(ok, "R10.2", "runReader open event", c.Pos(openCall.Pos()), "pushed once, first", why)
	}
	startInline := c.FnOpt("root", "Channel.start") == nil // Channel.start written in line in the node loop
	for _, ls := range []struct{ fn, where string }{{"Channel.runReader", "Channel.run$"}, {"Channel.run", "Channel.start"}, {"Channel.start", "Node.run"}} {
		if startInline && ls.fn == "Channel.start" {
			r.OK("R10.2", ls.fn+" launch sites", "-", "Channel.start is written in line: Channel.run is launched directly from the node loop's new-channel case")
			continue
		}
		f := c.Fn("root", ls.fn)
		if f == nil {
			continue
		}
		sites := c.callersOf(f)
		if startInline && ls.fn == "Channel.run" {
			ls.where = "Node.run"
		}
		ok := len(sites) == 1 && strings.HasPrefix(fnLocalName(sites[0].Fn), ls.where)
		var ws []string
		for _, s := range sites {
			ws = append(ws, fnLocalName(s.Fn))
		}
		why := fmt.Sprintf("%s is launched from %v, expected exactly one site in %s (a second launch duplicates open/close events)", ls.fn, ws, ls.where)
		if ok && ls.fn != "Channel.start" && !(startInline && ls.fn == "Channel.run") && inLoop(sites[0].Call.Block()) {
			// Channel.start's site is inside the node loop (one start per new channel); the other two run once per channel
			ok = false
			why = fmt.Sprintf("%s is called inside a loop in %s (%s): it runs more than once for the same channel, so its open / close events are emitted more than once", ls.fn, fnLocalName(sites[0].Fn), c.Pos(sites[0].Call.Pos()))
		}
		r.Check(ok, "R10.2", ls.fn+" launch sites", "-", "exactly one launch site, run once per channel: "+strings.Join(ws, ","), why)
	}

	// R10.3 close last, once
	r.Rule("R10.3", "Channel.run: on every exit path exactly one event is pushed, it is an EventChannelClose of this channel carrying the reader's error, it comes after both the reader and the writer result "+
		"have been received (nothing else can emit for this channel), and the channel is unregistered (closeChannel) after it", 2)
	r.Functions[fnQual(chRun)] = true
	checkCloseEvent(c, chRun)

	// R10.4 one event per read result
	r.Rule("R10.4", "runReader loop: every path from the read of the transport back to the loop head pushes exactly one event — an EventParseError carrying the read error on the frame.ReadError edge, "+
		"an EventFrame carrying the frame just read on the success edge (after the optional onEventFrame hook) — and the only other exit returns the read error unchanged", 3)
	checkReaderLoop(c, rd, "R10.4")

	// R10.5 lossless hand-over
	r.Rule("R10.5", "Node.pushEvent is a blocking select with exactly {send the event unchanged on the event channel, receive terminate}: no default, so no event is dropped while the application keeps receiving", 1)
	r.Functions[fnQual(push)] = true
	ops := chanOpsIn(push)
	okP := len(ops) == 1 && ops[0].Kind == "select" && ops[0].Blocking && len(ops[0].Cases) == 2
	if okP {
		nS := 0
		for _, cs := range ops[0].Cases {
			if cs.Dir == "send" {
				nS++
				okP = okP && cs.Chan == "recv.chEvent" && cs.Val == "arg0"
			}
		}
		t, _ := m.selectHasTerm(ops[0].Instr.(*ssa.Select))
		okP = okP && nS == 1 && t
	}
	r.Check(okP, "R10.5", "Node.pushEvent select", c.Pos(push.Pos()), "select{chEvent <- evt; <-terminate}", "pushEvent must be a blocking select {chEvent<-evt; <-terminate} without default: a default case or a different value drops/duplicates events")

	// R10.6 authenticated only: the channel's reader is built with the node's incoming key
	r.Rule("R10.6", "the reader each channel reads from is constructed in Channel.initialize from the channel's own transport with the node's dialect and incoming key; runReader reads frames only from it, and no other Channel method consumes the incoming bytes", 3)
	if ini := c.Fn("root", "Channel.initialize"); ini != nil {
		ok := false
		got := ""
		for _, a := range litAllocs(ini, "frame.ReadWriter") {
			lf := litFields(a)
			got = fmt.Sprintf("ByteReadWriter=%s DialectRW=%s InKey=%s", exOrNil(lf["ByteReadWriter"]), exOrNil(lf["DialectRW"]), exOrNil(lf["InKey"]))
			if exOrNil(lf["ByteReadWriter"]) == "recv.rwc" && exOrNil(lf["DialectRW"]) == "recv.node.dialectRW" && exOrNil(lf["InKey"]) == "recv.node.InKey" {
				ok = true
			}
		}
		r.Check(ok, "R10.6", "Channel.initialize reader plumbing", c.Pos(ini.Pos()), got, "frame.ReadWriter literal in Channel.initialize must be {ByteReadWriter: ch.rwc, DialectRW: node.dialectRW, InKey: node.InKey}; got "+got)
	}
	ruleKeyPlumbing(c, "R10.7")
	reads := callsNamed(rd, "(frame.Reader).Read")
	r.Check(len(reads) == 1 && ex(reads[0].Common().Args[0]) == "recv.frameWriter.Reader", "R10.6", "runReader read source", c.Pos(rd.Pos()), "reads only from ch.frameWriter", "runReader must read frames from exactly one source, the channel's own frame reader")
	// nothing else in Channel's methods consumes the incoming byte stream behind the frame reader's back (a resync or
	// skip helper that discards buffered bytes can swallow valid frames, which then never become frame events)
	side := ""
	for _, fn := range rootFns(c) {
		if !strings.HasPrefix(fnLocalName(fn), "Channel.") {
			continue
		}
		for _, ci := range callsIn(fn, func(n string, cc *ssa.CallCommon) bool {
			if n == "(bufio.Reader).Discard" || n == "(bufio.Reader).Read" || n == "(bufio.Reader).ReadByte" || n == "io.ReadFull" || n == "io.ReadAll" || n == "io.Copy" || n == "io.CopyN" {
				return true
			}
			return cc.IsInvoke() && cc.Method.Name() == "Read" && strings.HasSuffix(ex(cc.Value), ".rwc")
		}) {
			side = fnLocalName(fn) + " consumes incoming bytes itself at " + c.Pos(ci.Pos()) + " (" + calleeName(ci.Common()) + ")"
		}
	}
	r.Check(side == "", "R10.6", "Channel incoming bytes", "-", "only frame.Reader.Read consumes the channel's incoming bytes", side+": bytes of valid frames can be skipped without producing a frame event")
}

func exOrNil(v ssa.Value) string {
	if v == nil {
		return "<unset>"
	}
	return ex(v)
}

func checkCloseEvent(c *Ctx, chRun *ssa.Function) {
	r := c.R
	sel := awaitSelect(chRun)
	if sel == nil {
		r.Fail("R10.3", "Channel.run close event", c.Pos(chRun.Pos()), "no blocking select in Channel.run")
		return
	}
	var readerCh, writerCh *ssa.Alloc
	for _, g := range goStmts(chRun) {
		tf, _ := goTarget(g)
		if tf == nil {
			continue
		}
		for _, in := range allInstrs(tf) {
			if s, ok := in.(*ssa.Send); ok {
				if call, ok := s.X.(*ssa.Call); ok {
					switch calleeName(&call.Call) {
					case "(gomavlib.Channel).runReader":
						readerCh = rootAlloc(s.Chan)
					case "(gomavlib.Channel).runWriter":
						writerCh = rootAlloc(s.Chan)
					}
				}
			}
		}
	}
	bad := map[string]bool{}
	n := 0
	tm := buildTermModel(c)
	writerSelf, readerSelf := true, true
	if rw := c.FnOpt("root", "Channel.runWriter"); rw != nil {
		writerSelf = len(selfInitiatedReturns(tm, rw)) > 0
	}
	if rr := c.FnOpt("root", "Channel.runReader"); rr != nil {
		readerSelf = len(selfInitiatedReturns(tm, rr)) > 0
	}
	okEnum := enumPaths(chRun.Blocks[0], nil, 4000, func(path []*ssa.BasicBlock) {
		if isPanicBlock(path[len(path)-1]) {
			return
		}
		// a select case on the result of a worker that never ends on its own cannot fire first
		if t := selectTaken(sel, path); t >= 0 {
			if a := rootAlloc(sel.States[t].Chan); (a == writerCh && a != nil && !writerSelf) || (a == readerCh && a != nil && !readerSelf) {
				return
			}
		}
		n++
		gotR, gotW := false, false
		if t := selectTaken(sel, path); t >= 0 {
			switch rootAlloc(sel.States[t].Chan) {
			case readerCh:
				gotR = true
			case writerCh:
				gotW = true
			}
		}
		pushes, unreg := 0, 0
		for _, in := range pathInstrs(path) {
			switch x := in.(type) {
			case *ssa.UnOp:
				if x.Op == token.ARROW {
					switch rootAlloc(x.X) {
					case readerCh:
						gotR = true
					case writerCh:
						gotW = true
					}
				}
			case *ssa.Call:
				switch calleeName(&x.Call) {
				case "(gomavlib.Node).pushEvent":
					pushes++
					a := underlyingAlloc(x.Call.Args[1])
					if a == nil || typeStr(a.Type().(*types.Pointer).Elem()) != "gomavlib.EventChannelClose" {
						bad["an event other than EventChannelClose is pushed by Channel.run"] = true
					}
					if !gotR || !gotW {
						bad["the close event is pushed before both the reader and the writer have ended (they can still emit / a frame event can follow the close event)"] = true
					}
					if unreg > 0 {
						bad["the channel is unregistered before its close event"] = true
					}
				case "(gomavlib.Node).closeChannel":
					unreg++
				}
			case *ssa.Select:
				// closeChannel in line: the hand-over of this channel to the node loop
				for _, st := range x.States {
					if st.Dir == types.SendOnly && strings.HasSuffix(ex(st.Chan), ".chCloseChannel") && ex(st.Send) == "recv" {
						unreg++
					}
				}
			}
		}
		if pushes != 1 {
			bad[fmt.Sprintf("a path through Channel.run pushes %d events (exactly one close event required)", pushes)] = true
		}
		if unreg != 1 {
			bad[fmt.Sprintf("a path through Channel.run unregisters the channel %d times", unreg)] = true
		}
	})
	if !okEnum {
		r.Broken("R10.3", "Channel.run paths", "too many paths")
		return
	}
	if len(bad) == 0 {
		r.OK("R10.3", "Channel.run close event", c.Pos(sel.Pos()), fmt.Sprintf("%d paths: exactly one EventChannelClose after both workers ended, then closeChannel", n))
	} else {
		for _, k := range keysOf(bad) {
			r.Fail("R10.3", "Channel.run close event", c.Pos(sel.Pos()), k)
		}
	}
	// error plumbing: Error field = value received from readerDone (phi with nil on the ctx path)
	ok := false
	got := ""
	for _, a := range litAllocs(chRun, "gomavlib.EventChannelClose") {
		v := litFields(a)["Error"]
		got = exOrNil(v)
		if v == nil {
			continue
		}
		// every value the field can take is the reader's result or nil (the cause reported is the read side's, never
		// something remembered from the writer)
		var leaves []ssa.Value
		seenPhi := map[ssa.Value]bool{}
		var collect func(x ssa.Value)
		collect = func(x ssa.Value) {
			if p, isPhi := x.(*ssa.Phi); isPhi {
				if seenPhi[p] {
					return
				}
				seenPhi[p] = true
				for _, e := range p.Edges {
					collect(e)
				}
				return
			}
			leaves = append(leaves, x)
		}
		collect(v)
		fromReader, foreign := false, ""
		for _, e := range leaves {
			isReader := false
			if ext, isE := e.(*ssa.Extract); isE && ext.Tuple == ssa.Value(sel) {
				for i, st := range sel.States {
					if rootAlloc(st.Chan) == readerCh && selectRecvValue(sel, i) == ssa.Value(ext) {
						isReader = true
					}
				}
			}
			if u, isU := e.(*ssa.UnOp); isU && u.Op == token.ARROW && rootAlloc(u.X) == readerCh && readerCh != nil {
				isReader = true
			}
			switch {
			case isReader:
				fromReader = true
			case isNilConst(e):
			default:
				foreign = ex(e)
			}
		}
		ok = fromReader && foreign == ""
		if foreign != "" {
			got += " — can also be " + foreign
		}
	}
	r.Check(ok, "R10.3", "EventChannelClose.Error", c.Pos(chRun.Pos()), "carries the error received from the reader: "+got, "the close event's Error is not the value received from the reader goroutine ("+got+")")
}

func checkReaderLoop(c *Ctx, rd *ssa.Function, rule string) {
	r := c.R
	reads := callsNamed(rd, "(frame.Reader).Read")
	if len(reads) != 1 {
		r.Fail(rule, "runReader loop", c.Pos(rd.Pos()), fmt.Sprintf("expected exactly one Read call in runReader, found %d", len(reads)))
		return
	}
	read := reads[0].(*ssa.Call)
	head := read.Block()
	if !inLoop(head) {
		r.Fail(rule, "runReader loop", c.Pos(read.Pos()), "the read of the transport is not inside a loop")
		return
	}
	frameV, errV := "", ""
	for _, rf := range *read.Referrers() {
		if e, ok := rf.(*ssa.Extract); ok {
			if e.Index == 0 {
				frameV = ex(e)
			} else {
				errV = ex(e)
			}
		}
	}
	bad := map[string]bool{}
	nLoop, nExit := 0, 0
	okEnum := enumPaths(head, func(b *ssa.BasicBlock) bool { return b == head }, 500, func(path []*ssa.BasicBlock) {
		last := path[len(path)-1]
		if isPanicBlock(last) {
			return
		}
		body := path
		if last == head {
			body = path[:len(path)-1]
			nLoop++
		} else {
			nExit++
		}
		var evs []string
		hookBefore := true
		hook := 0
		for _, in := range pathInstrs(body) {
			call, ok := in.(*ssa.Call)
			if !ok {
				continue
			}
			switch calleeName(&call.Call) {
			case "(gomavlib.nodeStreamRequest).onEventFrame":
				hook++
				if len(evs) > 0 {
					hookBefore = false
				}
			case "(gomavlib.Node).pushEvent":
				a := underlyingAlloc(call.Call.Args[1])
				if a == nil {
					evs = append(evs, "?")
					continue
				}
				t := typeStr(a.Type().(*types.Pointer).Elem())
				lf := litFields(a)
				// the application keeps the event it receives: each one is a fresh object allocated in this iteration
				fresh := false
				for _, pb := range body {
					if pb == a.Block() {
						fresh = true
					}
				}
				if !fresh {
					bad["the event pushed for a read result is not allocated in the same loop iteration (one "+t+" object is reused: a consumer still holding the previous event sees it overwritten by the next frame)"] = true
				}
				switch t {
				case "gomavlib.EventFrame":
					if exOrNil(lf["Frame"]) != frameV {
						bad["EventFrame does not carry the frame just read ("+exOrNil(lf["Frame"])+")"] = true
					}
				case "gomavlib.EventParseError":
					if exOrNil(lf["Error"]) != errV {
						bad["EventParseError does not carry the read error"] = true
					}
				}
				evs = append(evs, t)
			}
		}
		// classify path by edges taken: err != nil ?
		errPath := false
		asPath := false
		for i := 0; i+1 < len(path); i++ {
			if iff := blockIf(path[i]); iff != nil {
				if tb, _, hit := succWhen(iff, "("+errV+" != nil)"); hit && path[i+1] == tb {
					errPath = true
				}
				if tb, _, _, hit := succWhenFunc(iff, func(c string) bool { return strings.HasPrefix(c, "errors.As("+errV+",") }); hit && path[i+1] == tb {
					asPath = true
				}
			}
		}
		if last == head {
			switch {
			case len(evs) != 1:
				bad[fmt.Sprintf("a loop iteration pushes %d events %v (exactly one per read result)", len(evs), evs)] = true
			case errPath && (!asPath || evs[0] != "gomavlib.EventParseError"):
				bad["a failed read continues the loop without being a frame.ReadError reported as exactly one EventParseError"] = true
			case !errPath && evs[0] != "gomavlib.EventFrame":
				bad["a successful read does not produce exactly one EventFrame"] = true
			case !hookBefore:
				bad["onEventFrame runs after the frame event was pushed"] = true
			case errPath && hook > 0:
				bad["onEventFrame is called for a failed read"] = true
			}
		} else {
			// exit: must be a return of the read error, on the err path, without events
			ret, isRet := last.Instrs[len(last.Instrs)-1].(*ssa.Return)
			if !isRet || len(ret.Results) != 1 || ex(ret.Results[0]) != errV || !errPath || asPath {
				bad["runReader leaves its loop other than by returning the transport's read error unchanged"] = true
			}
			if len(evs) != 0 {
				bad["an event is pushed on the path that ends the reader"] = true
			}
		}
	})
	if !okEnum {
		r.Broken(rule, "runReader loop", "too many paths")
		return
	}
	if len(bad) == 0 {
		r.OK(rule, "runReader loop", c.Pos(read.Pos()), fmt.Sprintf("%d loop paths and %d exit path(s) enumerated: one event per read result", nLoop, nExit))
	} else {
		for _, k := range keysOf(bad) {
			r.Fail(rule, "runReader loop", c.Pos(read.Pos()), k)
		}
	}
	r.Check(nLoop >= 3, rule, "runReader loop paths", c.Pos(read.Pos()), "parse-error, frame, frame+hook paths present", fmt.Sprintf("only %d loop paths found", nLoop))
	r.Check(nExit == 1, rule, "runReader exit paths", c.Pos(read.Pos()), "single exit: return of the transport error", fmt.Sprintf("%d exit paths", nExit))
}

// noopCloserExists: the name of an io.ReadWriteCloser wrapper type of package gomavlib whose Close method does not
// close anything (removeCloser on the reference tree), "" if there is none.
func noopCloserExists(c *Ctx) string {
	for _, fn := range rootFns(c) {
		if fn.Name() != "Close" || fn.Signature.Recv() == nil || fn.Parent() != nil {
			continue
		}
		closes := false
		for _, in := range allInstrs(fn) {
			if ci, ok := in.(ssa.CallInstruction); ok {
				cc := ci.Common()
				if (cc.IsInvoke() && cc.Method.Name() == "Close") || strings.HasSuffix(calleeName(cc), ".Close") || strings.HasSuffix(calleeName(cc), ".close") || calleeName(cc) == "close" {
					closes = true
				}
				if calleeName(cc) == "" && !cc.IsInvoke() {
					closes = true // calls a function value (e.g. a cancel func)
				}
			}
		}
		// only wrappers that are used as a channel transport: the type has Read and Write too
		ms := c.Prog.MethodSets.MethodSet(fn.Signature.Recv().Type())
		hasRW := ms.Lookup(nil, "Read") != nil && ms.Lookup(nil, "Write") != nil
		if !closes && hasRW && fn.Signature.Results().Len() == 1 {
			return fnLocalName(fn)
		}
	}
	return ""
}
