package main

import (
	"fmt"
	"go/ast"
	"go/constant"
	"go/token"
	"go/types"
	"regexp"
	"sort"
	"strings"

	"golang.org/x/tools/go/packages"
	"golang.org/x/tools/go/ssa"
)

func init() {
	register("C03", []string{"./pkg/message", "./pkg/conversion", "./pkg/dialects/..."}, runC03)
}

// evalMapLit evaluates a package-level `var name = map[K]V{...}` literal whose keys and values are constants.
// Keys/values are rendered: strings verbatim, other constants by ExactString.
func evalMapLit(p *packages.Package, name string) (map[string]string, bool) {
	for _, f := range p.Syntax {
		for _, d := range f.Decls {
			gd, ok := d.(*ast.GenDecl)
			if !ok {
				continue
			}
			for _, sp := range gd.Specs {
				vs, ok := sp.(*ast.ValueSpec)
				if !ok || len(vs.Names) != 1 || vs.Names[0].Name != name || len(vs.Values) != 1 {
					continue
				}
				cl, ok := vs.Values[0].(*ast.CompositeLit)
				if !ok {
					return nil, false
				}
				out := map[string]string{}
				for _, el := range cl.Elts {
					kv, ok := el.(*ast.KeyValueExpr)
					if !ok {
						return nil, false
					}
					k, v := p.TypesInfo.Types[kv.Key].Value, p.TypesInfo.Types[kv.Value].Value
					if k == nil || v == nil {
						return nil, false
					}
					out[constStr(k)] = constStr(v)
				}
				return out, true
			}
		}
	}
	return nil, false
}

func constStr(v constant.Value) string {
	if v.Kind() == constant.String {
		return constant.StringVal(v)
	}
	return v.ExactString()
}

func runC03(c *Ctx) {
	r := c.R
	r.Exhaustive = true
	r.NotDecided = append(r.NotDecided,
		"that Initialize executes to the spec layout for an arbitrary user struct: R3.1–R3.5 constrain each ingredient (tables, per-type width, comparator, CRC pre-image, size arithmetic), not their composition at run time",
		"field values on the wire (value level)")
	mp := c.Pkgs["pkg/message"]
	if mp == nil {
		r.Broken("anchor", "pkg/message", "package not loaded")
		return
	}
	ruleTypeTables(c, mp, "R3.1")
	ruleValueCodecs(c, "R3.2")
	ruleComparator(c, "R3.3")
	ruleCRCExtraPreimage(c, "R3.4")
	ruleSizeArithmetic(c, "R3.5")
	ruleDialectData(c, "R3.6", true)
	ruleStrings(c, "R3.7")
	r.Rule("R3.8", "cursor discipline (= R4.4): in ReadWriter.Read / Write the byte cursor advances only by the count returned by readValue / writeValue for that cursor, so every field byte goes through the per-type codec of R3.2 (no bulk copy or side path)", 2)
	ruleCursor(c, "R3.8")
	ruleTypeAdmission(c, "R3.9")
	ruleCodecCaches(c, "R3.10")
}

// R3.1
func ruleTypeTables(c *Ctx, mp *packages.Package, rule string) {
	r := c.R
	r.Rule(rule, "width / name tables: fieldTypeFromGo ∘ fieldTypeString and ∘ fieldTypeSizes equal the spec table (double 8 … char 1; C type names) for the 11 Go type names; "+
		"the generator's dialectTypeToGo composes with them to the identity on the 11 XML type names", 11)
	fromGo, ok1 := evalMapLit(mp, "fieldTypeFromGo")
	str, ok2 := evalMapLit(mp, "fieldTypeString")
	sizes, ok3 := evalMapLit(mp, "fieldTypeSizes")
	if !ok1 || !ok2 || !ok3 {
		r.Broken(rule, "message tables", "fieldTypeFromGo / fieldTypeString / fieldTypeSizes are not constant map literals")
		return
	}
	var toGo map[string]string
	if cp := c.Pkgs["pkg/conversion"]; cp != nil {
		toGo, _ = evalMapLit(cp, "dialectTypeToGo")
	}
	var names []string
	for n := range specTypes {
		names = append(names, n)
	}
	sort.Strings(names)
	for _, g := range names {
		sp := specTypes[g]
		ft, has := fromGo[g]
		var probs []string
		if !has {
			probs = append(probs, "Go type missing from fieldTypeFromGo")
		} else {
			if ft == "0" {
				probs = append(probs, "maps to the zero fieldType (treated as unsupported)")
			}
			if str[ft] != sp.ctype {
				probs = append(probs, fmt.Sprintf("C name %q, spec %q", str[ft], sp.ctype))
			}
			if sizes[ft] != fmt.Sprint(sp.size) {
				probs = append(probs, fmt.Sprintf("wire size %s, spec %d", sizes[ft], sp.size))
			}
			for g2, ft2 := range fromGo {
				if g2 != g && ft2 == ft {
					probs = append(probs, "shares its fieldType with "+g2)
				}
			}
		}
		if toGo != nil && toGo[sp.ctype] != g {
			probs = append(probs, fmt.Sprintf("generator maps XML type %s to Go %q", sp.ctype, toGo[sp.ctype]))
		}
		r.Check(len(probs) == 0, rule, "type "+g, c.Pos(mp.Types.Scope().Lookup("fieldTypeFromGo").Pos()), fmt.Sprintf("%s ↔ %s, %d bytes", g, sp.ctype, sp.size), strings.Join(probs, "; "))
	}
	if len(fromGo) != len(specTypes) {
		r.Fail(rule, "fieldTypeFromGo extra entries", "-", fmt.Sprintf("fieldTypeFromGo has %d entries, the spec has 11 primitive types", len(fromGo)))
	}
	if toGo != nil && len(toGo) != len(specTypes) {
		r.Fail(rule, "dialectTypeToGo extra entries", "-", fmt.Sprintf("dialectTypeToGo has %d entries, the spec has 11 primitive types", len(toGo)))
	}
}

// R3.2
func ruleValueCodecs(c *Ctx, rule string) {
	r := c.R
	r.Rule(rule, "per-type readers/writers: every case of readValue / writeValue returns the spec width of its type and uses the little-endian accessor of exactly that width (floats through math.FloatNNbits/frombits, i.e. bit-exact); "+
		"the enum cases are exactly the six wire types Initialize admits, the Go-type cases exactly the eleven primitive types; no case falls through to `return 0`", 34)
	mp := c.Pkgs["pkg/message"]
	ftConst := map[int64]string{} // fieldType constant value -> Go type name
	if fromGo, ok := evalMapLit(mp, "fieldTypeFromGo"); ok {
		for g, v := range fromGo {
			var k int64
			fmt.Sscan(v, &k)
			ftConst[k] = g
		}
	}
	for _, name := range []string{"readValue", "writeValue"} {
		fn := c.Fn("pkg/message", name)
		if fn == nil {
			continue
		}
		r.Functions[fnQual(fn)] = true
		enumSeen, goSeen := map[string]bool{}, map[string]bool{}
		for _, ret := range retInstrs(fn) {
			k, isK := constInt(ret.Results[0])
			b := ret.Block()
			// guard
			var kind, typ string
			var alsoTypes []string // further types sharing this case body (`case typeUint8, typeInt8:`)
			for _, iff := range ifsIn(fn) {
				if iff.Block().Succs[0] != b && !(len(b.Preds) == 1 && edgeMustPass(fn, edge{iff.Block(), iff.Block().Succs[0]}, b) && reachFrom(iff.Block().Succs[0], nil, nil)[b] && iff.Block().Succs[0].Dominates(b)) {
					continue
				}
				if bo, ok := iff.Cond.(*ssa.BinOp); ok && bo.Op == token.EQL && ex(bo.X) == "arg2.ftype" {
					if kk, ok := constInt(bo.Y); ok {
						if kind == "enum" && typ != "" && typ != ftConst[kk] {
							alsoTypes = append(alsoTypes, ftConst[kk])
						} else {
							kind, typ = "enum", ftConst[kk]
						}
					}
				}
				if e, ok := iff.Cond.(*ssa.Extract); ok && e.Index == 1 {
					if ta, ok := e.Tuple.(*ssa.TypeAssert); ok {
						if pt, ok := ta.AssertedType.(*types.Pointer); ok {
							kind, typ = "go", typeStr(pt.Elem())
							if typ == "byte" {
								typ = "uint8"
							}
						}
					}
				}
			}
			if kind == "" {
				if isK && k == 0 {
					continue // the fall-through `return 0`
				}
				if strings.Contains(ex(ret.Results[0]), "arrayLength") {
					goSeen["string"] = true
					r.OK(rule, name+" go string", c.Pos(ret.Pos()), "string: consumes arrayLength bytes (R4.5)")
					continue
				}
				r.Broken(rule, name+" case at "+c.Pos(ret.Pos()), "cannot attribute a return to a type case")
				continue
			}
			if typ == "string" {
				goSeen["string"] = true
				r.OK(rule, name+" go string", c.Pos(ret.Pos()), "string: consumes arrayLength bytes (R4.5)")
				continue
			}
			sp, known := specTypes[typ]
			key := name + " " + kind + " " + typ
			if !known {
				r.Fail(rule, key, c.Pos(ret.Pos()), "case for a type that is not a MAVLink primitive")
				continue
			}
			if kind == "enum" {
				enumSeen[typ] = true
			} else {
				goSeen[typ] = true
			}
			var probs []string
			for _, at := range alsoTypes {
				enumSeen[at] = true
				if asp, ok := specTypes[at]; !ok || asp.size != sp.size {
					probs = append(probs, fmt.Sprintf("the case body is shared with %s whose spec width differs", at))
				}
			}
			if !isK || int(k) != sp.size {
				probs = append(probs, fmt.Sprintf("advances by %s bytes, the spec width of %s is %d: every later field is shifted", ex(ret.Results[0]), sp.ctype, sp.size))
			}
			// accessor in the case region
			region := []*ssa.BasicBlock{b}
			okAcc := sp.size == 1
			floatOK := !strings.HasPrefix(typ, "float")
			for _, bb := range region {
				for _, in := range bb.Instrs {
					call, ok := in.(*ssa.Call)
					if !ok {
						continue
					}
					n := calleeName(&call.Call)
					if strings.HasPrefix(n, "(binary.littleEndian).Uint") || strings.HasPrefix(n, "(binary.littleEndian).PutUint") {
						w := map[string]int{"16": 2, "32": 4, "64": 8}[n[len(n)-2:]]
						if w == sp.size {
							okAcc = true
						} else {
							probs = append(probs, fmt.Sprintf("uses the %d-byte accessor %s for a %d-byte type", w, n, sp.size))
						}
					}
					if strings.HasPrefix(n, "(binary.bigEndian)") {
						probs = append(probs, "big-endian accessor")
					}
					if (typ == "float32" && (n == "math.Float32frombits" || n == "math.Float32bits")) || (typ == "float64" && (n == "math.Float64frombits" || n == "math.Float64bits")) {
						floatOK = true
					}
					// enum values are unsigned 64-bit in memory and reduced to their wire width: the decoded wire value is
					// zero-extended, never passed through a signed type (int8(0x85) → 0xFFFFFFFFFFFFFF85)
					if kind == "enum" && n == "(reflect.Value).SetUint" && len(call.Call.Args) == 2 {
						for v := call.Call.Args[1]; v != nil; {
							cv, isCv := v.(*ssa.Convert)
							if !isCv {
								break
							}
							if bt, isB := cv.Type().Underlying().(*types.Basic); isB && bt.Info()&types.IsInteger != 0 && bt.Info()&types.IsUnsigned == 0 {
								probs = append(probs, "the enum value read from the wire is sign-extended through "+typeStr(cv.Type())+": a wire value with the top bit set decodes to a 64-bit value that is not the wire value (enum values must equal their wire-width value)")
							}
							v = cv.X
						}
					}
				}
			}
			if !okAcc {
				probs = append(probs, "no little-endian accessor of the right width in this case")
			}
			if !floatOK {
				probs = append(probs, "float not transferred bit-exactly through math.FloatNNbits/frombits")
			}
			r.Check(len(probs) == 0, rule, key, c.Pos(ret.Pos()), fmt.Sprintf("%d bytes little-endian", sp.size), strings.Join(probs, "; "))
		}
		var missE, missG []string
		for t := range specEnumTypes {
			if !enumSeen[t] {
				missE = append(missE, t)
			}
		}
		for t := range specTypes {
			if !goSeen[t] {
				missG = append(missG, t)
			}
		}
		sort.Strings(missE)
		sort.Strings(missG)
		r.Check(len(missE) == 0 && len(enumSeen) == 6, rule, name+" enum exhaustiveness", c.Pos(fn.Pos()), "handlers for the six enum wire types",
			fmt.Sprintf("enum wire types without a handler: %v (handled: %d); a missing handler falls to `return 0` and silently shifts every later field", missE, len(enumSeen)))
		r.Check(len(missG) == 0, rule, name+" type exhaustiveness", c.Pos(fn.Pos()), "handlers for the eleven primitive types", fmt.Sprintf("primitive types without a handler: %v", missG))
	}
	// the enum set admitted by Initialize
	if ini := c.Fn("pkg/message", "ReadWriter.Initialize"); ini != nil {
		adm := map[string]bool{}
		for _, iff := range ifsIn(ini) {
			if bo, ok := iff.Cond.(*ssa.BinOp); ok && bo.Op == token.EQL && strings.HasPrefix(ex(bo.X), "message.fieldTypeFromGo[") {
				if kk, ok := constInt(bo.Y); ok && kk != 0 {
					adm[ftConst[kk]] = true
				}
			}
		}
		synt := adm
		adm = map[string]bool{}
		{
			// form-independent reading: the rejection of an enum wire type is the error return reached exactly when the
			// looked-up type differs from every admitted constant (switch default, or a chain of != tests)
			vals := map[ssa.Value]bool{}
			for _, iff := range ifsIn(ini) {
				cond, _ := stripNot(iff.Cond)
				if bo, ok := cond.(*ssa.BinOp); ok && (bo.Op == token.EQL || bo.Op == token.NEQ) {
					for _, side := range []ssa.Value{bo.X, bo.Y} {
						if strings.HasPrefix(ex(side), "message.fieldTypeFromGo[") {
							vals[side] = true
						}
					}
				}
			}
			for v := range vals {
				for _, ret := range retInstrs(ini) {
					if len(ret.Results) != 1 || isNilConst(ret.Results[0]) {
						continue
					}
					var sets []map[int64]bool
					pinned := false
					constFactsOnPaths(ini, v, ret.Block(), func(eq, ne map[int64]bool) {
						if len(eq) > 0 {
							pinned = true
						}
						cp := map[int64]bool{}
						for k := range ne {
							cp[k] = true
						}
						sets = append(sets, cp)
					})
					if pinned || len(sets) == 0 || len(sets[0]) < 2 {
						continue
					}
					same := true
					for _, st := range sets[1:] {
						if len(st) != len(sets[0]) {
							same = false
						}
						for k := range st {
							if !sets[0][k] {
								same = false
							}
						}
					}
					if same {
						for k := range sets[0] {
							if k != 0 {
								adm[ftConst[k]] = true
							}
						}
					}
				}
			}
		}
		if len(adm) == 0 {
			adm = synt // rejection not located on the paths: the `== constant` tests as written
		}
		ok := len(adm) == 6
		for t := range specEnumTypes {
			if !adm[t] {
				ok = false
			}
		}
		r.Check(ok, rule, "Initialize enum wire types", c.Pos(ini.Pos()), "admits exactly uint8,int8,uint16,uint32,int32,uint64", fmt.Sprintf("Initialize admits enum wire types %v, the codec handles uint8,int8,uint16,uint32,int32,uint64", keysOf(adm)))
	}
}

// R3.3
func ruleComparator(c *Ctx, rule string) {
	r := c.R
	r.Rule(rule, "ordering comparator passed to sort.Slice: the result depends only on {isExtension, fieldTypeSizes[ftype], index}; sizes are compared with `>` only when both fields are base fields and the sizes differ; "+
		"every other path ends in index_i < index_j (a total tie-break: sort.Slice is not stable, so the tie-break is necessary)", 1)
	ini := c.Fn("pkg/message", "ReadWriter.Initialize")
	if ini == nil {
		return
	}
	var less *ssa.Function
	for _, ci := range callsNamed(ini, "sort.Slice", "sort.SliceStable") {
		if mc, ok := ci.Common().Args[1].(*ssa.MakeClosure); ok {
			less = mc.Fn.(*ssa.Function)
		}
		if ex(peel(ci.Common().Args[0])) != "recv.fields" {
			r.Fail(rule, "Initialize sort target", c.Pos(ci.Pos()), "the slice being sorted is not rw.fields")
		}
	}
	if less == nil {
		r.Fail(rule, "Initialize comparator", c.Pos(ini.Pos()), "no sort.Slice call with a comparator closure in Initialize: fields are not reordered by size")
		return
	}
	var probs []string
	// loads: only allowed fields
	for _, in := range allInstrs(less) {
		if fa, ok := in.(*ssa.FieldAddr); ok {
			st := fa.X.Type().Underlying().(*types.Pointer).Elem().Underlying().(*types.Struct)
			n := st.Field(fa.Field).Name()
			if typeStr(fa.X.Type().Underlying().(*types.Pointer).Elem()) == "message.decEncoderField" && n != "isExtension" && n != "ftype" && n != "index" {
				probs = append(probs, "the order depends on field descriptor member "+n)
			}
		}
	}
	nIdx, nSize := 0, 0
	for _, ret := range retInstrs(less) {
		s := ex(ret.Results[0])
		switch s {
		case "(recv.fields[arg0].index < recv.fields[arg1].index)":
			nIdx++
		case "(message.fieldTypeSizes[recv.fields[arg0].ftype] > message.fieldTypeSizes[recv.fields[arg1].ftype])":
			nSize++
			// guarded by both non-extension and sizes differ
			need := []string{"!recv.fields[arg0].isExtension", "!recv.fields[arg1].isExtension", "(message.fieldTypeSizes[recv.fields[arg0].ftype] != message.fieldTypeSizes[recv.fields[arg1].ftype])"}
			bi := newBufInterp(c, less, nil, nil)
			cond := bi.condOf(ret.Block())
			for _, n := range need {
				if !strings.Contains(cond, n) {
					probs = append(probs, "the size comparison is not guarded by "+n)
				}
			}
		default:
			probs = append(probs, "comparator returns "+s)
		}
	}
	if nIdx < 1 || nSize != 1 {
		// (several returns of the index comparison — one per early exit — are the same tie-break)
		probs = append(probs, fmt.Sprintf("%d index tie-break returns, %d size returns (expected at least one / exactly one)", nIdx, nSize))
	}
	r.Check(len(probs) == 0, rule, "Initialize comparator", c.Pos(less.Pos()), "descending size among base fields, declaration order otherwise", strings.Join(probs, "; "))
}

// R3.4
func ruleCRCExtraPreimage(c *Ctx, rule string) {
	r := c.R
	r.Rule(rule, "CRC_EXTRA pre-image: message name + ' ', then for each field in wire order, extensions skipped before anything is hashed: C type name + ' ', field name + ' ', and the array length as ONE raw byte iff > 0; "+
		"result = (sum & 0xFF) ^ (sum >> 8) of a fresh X.25; message name = msgGoToDef(type name minus 'Message'), field name = mavname tag else fieldGoToDef(Go name)", 3)
	ini := c.Fn("pkg/message", "ReadWriter.Initialize")
	if ini == nil {
		return
	}
	// the closure whose result is stored into recv.crcExtra
	var crcFn *ssa.Function
	for _, in := range allInstrs(ini) {
		if st, ok := in.(*ssa.Store); ok && ex(st.Addr) == "&recv.crcExtra" {
			if call, ok := st.Val.(*ssa.Call); ok {
				if mc, ok := call.Call.Value.(*ssa.MakeClosure); ok {
					crcFn = mc.Fn.(*ssa.Function)
				}
			}
			if crcFn == nil {
				crcFn = ini
			}
		}
	}
	if crcFn == nil {
		r.Fail(rule, "Initialize crcExtra", c.Pos(ini.Pos()), "crcExtra is never computed")
		return
	}
	r.Functions[fnQual(crcFn)] = true
	norm := func(s string) string {
		// recv.fields[<loop index>] -> F
		for {
			i := strings.Index(s, "recv.fields[")
			if i < 0 {
				break
			}
			depth, j := 0, i+len("recv.fields")
			for ; j < len(s); j++ {
				if s[j] == '[' {
					depth++
				}
				if s[j] == ']' {
					depth--
					if depth == 0 {
						break
					}
				}
			}
			s = s[:i] + "F" + s[j+1:]
		}
		return s
	}
	bi := newBufInterp(c, crcFn, nil, norm)
	bi.run()
	// explicit rune/utf-8 hazards
	for _, in := range allInstrs(crcFn) {
		if call, ok := in.(*ssa.Call); ok {
			n := calleeName(&call.Call)
			if strings.HasSuffix(n, ").WriteRune") || n == "string" {
				r.Fail(rule, "Initialize crcExtra array length byte", c.Pos(call.Pos()), "a numeric value is appended as a rune (UTF-8): array lengths ≥ 128 are hashed as two bytes, CRC_EXTRA is wrong for those messages")
				return
			}
		}
		if cv, ok := in.(*ssa.Convert); ok && typeStr(cv.Type()) == "string" && intWidth(cv.X.Type()) > 0 {
			r.Fail(rule, "Initialize crcExtra array length byte", c.Pos(cv.Pos()), "an integer is converted to a string (UTF-8 encoding of a code point): array lengths ≥ 128 are hashed as two bytes")
			return
		}
	}
	if len(bi.emits) != 1 {
		r.Broken(rule, "Initialize crcExtra", fmt.Sprintf("hash-input idiom not understood (%d hash objects fed; %v)", len(bi.emits), bi.undec))
		return
	}
	var seq []cell
	var h ssa.Value
	for hh, cs := range bi.emits {
		h, seq = hh, cs
	}
	want := []struct{ val, cond string }{
		{"run([]byte((local:<name> + \" \")))", ""},
		{"run([]byte((message.fieldTypeString[F.ftype] + \" \")))", "!F.isExtension"},
		{"run([]byte((F.name + \" \")))", "!F.isExtension"},
		{"V(F.arrayLength)", "(F.arrayLength > 0)"},
	}
	var probs []string
	nameDirect, nameLocal := false, ""
	const msgNameExpr = "message.msgGoToDef((reflect.Type).Name(recv.elemType)[7:])"
	// the same conversion written in line (msgGoToDef inlined by hand)
	const msgNameInline = "strings.ToUpper((regexp.Regexp).ReplaceAllString(regexp.MustCompile(\"([A-Z])\"),(reflect.Type).Name(recv.elemType)[7:],\"_${1}\")[1:])"
	if len(seq) != len(want) {
		probs = append(probs, fmt.Sprintf("%d hash writes, expected %d (name; per field: type, name, array length)", len(seq), len(want)))
	} else {
		for i, w := range want {
			if i == 0 {
				// the message name: either the derivation itself or a local holding it (checked below)
				if m := reLocalName.FindStringSubmatch(seq[i].val); m != nil {
					nameLocal = m[1]
				} else if seq[i].val == "run([]byte(("+msgNameExpr+" + \" \")))" || seq[i].val == "run([]byte(("+msgNameInline+" + \" \")))" {
					nameDirect = true
				} else {
					probs = append(probs, fmt.Sprintf("write #%d hashes %s, expected the message name followed by a space", i+1, seq[i].val))
				}
				continue
			}
			if seq[i].val != w.val {
				probs = append(probs, fmt.Sprintf("write #%d hashes %s, expected %s", i+1, seq[i].val, w.val))
			}
			if w.cond != "" && !strings.Contains(seq[i].cond, w.cond) {
				probs = append(probs, fmt.Sprintf("write #%d (%s) is not under condition %s", i+1, seq[i].val, w.cond))
			}
			if i > 0 && !strings.Contains(seq[i].cond, "!F.isExtension") {
				probs = append(probs, fmt.Sprintf("write #%d happens for extension fields too", i+1))
			}
		}
	}
	if ex(h) != "x25.New()" {
		probs = append(probs, "hash object is "+ex(h))
	}
	fold := false
	const foldExpr = "byte((((x25.X25).Sum16(x25.New()) & 255) ^ ((x25.X25).Sum16(x25.New()) >> 8)))"
	for _, ret := range retInstrs(crcFn) {
		if len(ret.Results) == 1 && ex(ret.Results[0]) == foldExpr {
			fold = true
		}
	}
	if crcFn == ini {
		// computed in line: the folded value is what is stored into rw.crcExtra
		for _, in := range allInstrs(ini) {
			if st, ok := in.(*ssa.Store); ok && ex(st.Addr) == "&recv.crcExtra" {
				fold = ex(st.Val) == foldExpr
			}
		}
	}
	if !fold {
		probs = append(probs, "result is not byte((sum & 0xFF) ^ (sum >> 8))")
	}
	r.Check(len(probs) == 0, rule, "Initialize crcExtra pre-image", c.Pos(crcFn.Pos()), "name, then type/name/array-length per base field, folded to one byte", strings.Join(probs, "; "))
	// scalar char: a `char` field without an array length (Go string without mavlen) is ONE byte on the wire but is not
	// an array: the spec hashes no length byte for it. If Initialize gives it a non-zero arrayLength (to drive the
	// 1-byte string codec) the CRC closure must exclude it by an additional condition.
	scalarOne := false
	for _, in := range allInstrs(ini) {
		if phi, ok := in.(*ssa.Phi); ok && intWidth(phi.Type()) > 0 {
			for i, e := range phi.Edges {
				if k, isK := constInt(e); isK && k == 1 {
					// the edge comes from the `len(mavlen tag) == 0` branch
					pred := phi.Block().Preds[i]
					for _, iff := range ifsIn(ini) {
						if strings.Contains(ex(iff.Cond), "\"mavlen\"") && strings.HasSuffix(ex(iff.Cond), " == 0)") && (iff.Block().Succs[0] == pred || edgeMustPass(ini, edge{iff.Block(), iff.Block().Succs[0]}, pred)) {
							scalarOne = true
						}
					}
				}
			}
		}
	}
	if len(seq) == len(want) {
		extra := strings.Replace(seq[3].cond, "(F.arrayLength > 0)", "", 1)
		extra = strings.Replace(extra, "!F.isExtension", "", 1)
		excluded := strings.Contains(extra, "F.") // an additional condition on the field descriptor
		r.Check(!scalarOne || excluded, rule, "Initialize crcExtra scalar char", c.Pos(crcFn.Pos()), "a scalar char contributes no array-length byte",
			"a scalar `char` field (Go string without mavlen) is given arrayLength 1 and the CRC_EXTRA closure hashes the length byte for every field with arrayLength > 0: "+
				"CRC_EXTRA of messages with a scalar char differs from the spec (test.xml TEST_TYPES: 17 instead of the published 103)")
	}
	// message name and field name derivations
	okName := nameDirect // the derivation was matched as part of write #1
	for _, in := range allInstrs(ini) {
		if st, ok := in.(*ssa.Store); ok && nameLocal != "" && ex(st.Addr) == "&local:"+nameLocal {
			okName = ex(st.Val) == msgNameExpr || ex(st.Val) == msgNameInline
		}
	}
	r.Check(okName, rule, "Initialize message name", c.Pos(ini.Pos()), "msgGoToDef(type name minus the 7-letter 'Message' prefix)", "the message name hashed into CRC_EXTRA is not msgGoToDef(elemType.Name()[len(\"Message\"):])")
	okField := false
	for _, fn := range c.AllFns {
		if fn.Parent() == ini {
			rs := returnSet(fn, 0)
			hasConv := false
			for k := range rs {
				if reFieldConv.MatchString(k) {
					hasConv = true
				}
			}
			if len(rs) == 2 && hasConv {
				for k := range rs {
					if strings.Contains(k, "\"mavname\"") {
						okField = true
					}
				}
			}
		}
	}
	if !okField {
		// the same selection written out: name = tag; if tag == "" { name = fieldGoToDef(Go name) }
		for _, a := range litAllocs(ini, "message.decEncoderField") {
			p, isPhi := litFields(a)["name"].(*ssa.Phi)
			if !isPhi || len(p.Edges) != 2 {
				continue
			}
			tag, conv := "", ""
			for _, e := range p.Edges {
				if es := ex(e); strings.Contains(es, "\"mavname\"") && strings.HasPrefix(es, "(reflect.StructTag).Get(") {
					tag = es
				} else if strings.HasPrefix(es, "message.fieldGoToDef(") && strings.HasSuffix(es, ".Name)") {
					conv = es
				}
			}
			// tag and Go name of one and the same struct field
			if x := strings.TrimSuffix(strings.TrimPrefix(conv, "message.fieldGoToDef("), ".Name)"); tag != "(reflect.StructTag).Get("+x+".Tag,\"mavname\")" {
				continue
			}
			if tag != "" && conv != "" && (selectsBy(ini, p, "("+tag+" == \"\")", conv, tag) || selectsBy(ini, p, "("+tag+" != \"\")", tag, conv)) {
				okField = true
			}
		}
	}
	r.Check(okField, rule, "Initialize field name", c.Pos(ini.Pos()), "mavname tag, else fieldGoToDef(Go field name)", "the field name hashed into CRC_EXTRA is not `mavname` tag else fieldGoToDef(field.Name)")
	// the two name converters: regexp "([A-Z])" -> "_${1}", drop first char, case fold
	for _, cv := range []struct{ fn, fold string }{{"fieldGoToDef", "strings.ToLower"}, {"msgGoToDef", "strings.ToUpper"}} {
		fn := c.FnOpt("pkg/message", cv.fn)
		if fn == nil {
			// inlined by hand into its only caller: the conversion is then checked where it is used (pre-image above)
			r.OK(rule, cv.fn, "-", "helper not present: conversion checked in line")
			continue
		}
		rets := retInstrs(fn)
		got := ""
		if len(rets) == 1 {
			got = ex(rets[0].Results[0])
		}
		want := cv.fold + "((regexp.Regexp).ReplaceAllString(regexp.MustCompile(\"([A-Z])\"),arg0,\"_${1}\")[1:])"
		r.Check(got == want, rule, cv.fn, c.Pos(fn.Pos()), "CamelCase → snake_case, first underscore dropped, "+cv.fold, cv.fn+" computes "+got)
	}
}

// the Go field name converted by fieldGoToDef, or by the same expression written out
var reFieldConv = regexp.MustCompile(`^(message\.fieldGoToDef\(local:\w+\.Name\)|strings\.ToLower\(\(regexp\.Regexp\)\.ReplaceAllString\(regexp\.MustCompile\("\(\[A-Z\]\)"\),local:\w+\.Name,"_\$\{1\}"\)\[1:\]\))$`)
var reLocalName = regexp.MustCompile(`^run\(\[\]byte\(\(local:(\w+) \+ " "\)\)\)$`)

// R3.5
func ruleSizeArithmetic(c *Ctx, rule string) {
	r := c.R
	r.Rule(rule, "size arithmetic cannot wrap: in ReadWriter.Initialize no multiplication / addition is performed in 8-bit arithmetic on size accumulators and no int→byte truncation feeds arrayLength / sizeNormal / sizeExtended "+
		"unless a bound test on the wide value with an error return is passed first (a struct such as struct{A [64]uint32} must be rejected at initialisation, not panic at first use)", 2)
	ini := c.Fn("pkg/message", "ReadWriter.Initialize")
	if ini == nil {
		return
	}
	r.Functions[fnQual(ini)] = true
	var probs []string
	n := 0
	// bound tests available: If on `wide > K` / `wide < K` with an error return on the failing edge
	// the functions whose arithmetic feeds the sizes: Initialize and every function of the package it calls, transitively
	// (a size helper extracted from Initialize is part of the computation)
	scope := []*ssa.Function{ini}
	inScope := map[*ssa.Function]bool{ini: true}
	for i := 0; i < len(scope); i++ {
		for _, in := range allInstrs(scope[i]) {
			if ci, ok := in.(ssa.CallInstruction); ok {
				if f := ci.Common().StaticCallee(); f != nil && f.Blocks != nil && f.Pkg == ini.Pkg && !inScope[f] {
					inScope[f] = true
					scope = append(scope, f)
				}
			}
		}
		for _, af := range scope[i].AnonFuncs {
			if !inScope[af] {
				inScope[af] = true
				scope = append(scope, af)
			}
		}
	}
	boundOn := func(v ssa.Value, at *ssa.BasicBlock) bool {
		if at.Parent() != ini {
			return false
		}
		for _, iff := range ifsIn(ini) {
			cond, neg := stripNot(iff.Cond)
			b, ok := cond.(*ssa.BinOp)
			if !ok {
				continue
			}
			k, isK := constInt(b.Y)
			if !isK || (b.X != v && ex(b.X) != ex(v)) {
				continue
			}
			// which side of the test is "too big" (v above 255)
			big := -1
			switch {
			case b.Op == token.GTR && k <= 255, b.Op == token.GEQ && k <= 256:
				big = 0
			case b.Op == token.LEQ && k <= 255, b.Op == token.LSS && k <= 256:
				big = 1
			}
			if big < 0 {
				continue
			}
			if neg {
				big = 1 - big
			}
			tb := iff.Block().Succs[big]
			if ret, ok := tb.Instrs[len(tb.Instrs)-1].(*ssa.Return); ok && !isNilConst(ret.Results[0]) {
				if edgeMustPass(ini, edge{iff.Block(), iff.Block().Succs[1-big]}, at) {
					return true
				}
			}
		}
		return false
	}
	var sizeInstrs []ssa.Instruction
	for _, f := range scope {
		sizeInstrs = append(sizeInstrs, allInstrs(f)...)
	}
	for _, in := range sizeInstrs {
		switch x := in.(type) {
		case *ssa.BinOp:
			if (x.Op == token.MUL || x.Op == token.ADD) && intWidth(x.Type()) == 1 {
				if _, isC := x.Y.(*ssa.Const); isC && x.Op == token.ADD {
					continue
				}
				n++
				probs = append(probs, fmt.Sprintf("%s: %s computed in uint8 (wraps above 255)", c.Pos(x.Pos()), ex(x)))
			}
		case *ssa.Convert:
			if intWidth(x.Type()) == 1 && intWidth(x.X.Type()) > 1 {
				n++
				// int -> byte truncation: the wide value must have been bounded, directly or because it
				// accumulates a subset of the addends of a bounded accumulator starting from the same 0
				bounded := boundOn(x.X, x.Block()) || maxBits(x.X) <= 8
				if !bounded {
					if mine, ok := accumulatorAddends(x.X); ok {
						for _, in2 := range allInstrs(ini) {
							p2, isPhi := in2.(*ssa.Phi)
							if !isPhi || ssa.Value(p2) == x.X || !boundOn(p2, x.Block()) {
								continue
							}
							if theirs, ok := accumulatorAddends(p2); ok {
								sub := true
								for a := range mine {
									if !theirs[a] {
										sub = false
									}
								}
								if sub {
									bounded = true
								}
							}
						}
					}
				}
				if !bounded {
					probs = append(probs, fmt.Sprintf("%s: %s truncated to 8 bits without a preceding `> 255 → error` test", c.Pos(x.Pos()), ex(x.X)))
				}
			}
		}
	}
	r.Check(len(probs) == 0 && n > 0, rule, "Initialize size arithmetic", c.Pos(ini.Pos()), fmt.Sprintf("%d narrowing / 8-bit operations, all bounded", n), strings.Join(probs, "; "))
	// rejection inventory of Initialize: the seven+ error guards are still present
	nErr := 0
	for _, ret := range retInstrs(ini) {
		if !isNilConst(ret.Results[0]) {
			nErr++
		}
	}
	r.Check(nErr >= 6, rule, "Initialize rejections", c.Pos(ini.Pos()), fmt.Sprintf("%d error returns for malformed structs", nErr), fmt.Sprintf("only %d error returns left in Initialize: malformed message structs are no longer rejected at initialisation", nErr))
}

// R3.6 / R17.1-3 data rules over every shipped dialect.
func ruleDialectData(c *Ctx, rule string, withLayout bool) []*dialectDef {
	r := c.R
	r.Rule(rule, "data, exhaustive over every element of Dialect.Messages of every shipped dialect package: the struct is admissible (primitive types, enum wire type among the six, numeric mavlen 1..255, arrays 1..255), "+
		"extension fields form a suffix, spec payload size ≤ 255, GetID is a constant < 2^24 unique within the dialect, and for standard messages the CRC_EXTRA computed by the checker from the struct equals the value published with the C library", 3000)
	var out []*dialectDef
	dps := dialectPackages(c)
	if len(dps) < 19 {
		r.Broken(rule, "dialect packages", fmt.Sprintf("only %d dialect packages loaded, 19 are shipped", len(dps)))
	}
	nGolden := 0
	for _, p := range dps {
		dd := evalDialect(c, p)
		out = append(out, dd)
		for _, e := range dd.errs {
			r.Fail(rule, dd.pkgKey+" dialect literal", "-", e)
		}
		ids := map[int64]string{}
		for _, m := range dd.msgs {
			key := dd.pkgKey + "." + m.typeName
			var probs []string
			probs = append(probs, m.errs...)
			if m.hasID {
				if m.id < 0 || m.id >= 1<<24 {
					probs = append(probs, fmt.Sprintf("message id %d outside 0..2^24-1", m.id))
				}
				if other, dup := ids[m.id]; dup {
					probs = append(probs, fmt.Sprintf("message id %d also used by %s in the same dialect", m.id, other))
				}
				ids[m.id] = m.typeName
			}
			if g, has := goldenCRC[m.id]; has && m.hasID && isStandardCarrier(m) {
				nGolden++
				if g != m.crc {
					probs = append(probs, fmt.Sprintf("CRC_EXTRA derived from the struct is %d, the value published with the reference C library for message %d is %d (field order, types, names or array lengths differ from the standard definition)", m.crc, m.id, g))
				}
			}
			r.Check(len(probs) == 0, rule, key, m.pos, fmt.Sprintf("id %d, %d/%d bytes, CRC_EXTRA %d", m.id, m.sizeN, m.sizeX, m.crc), strings.Join(probs, "; "))
		}
	}
	r.Notes = append(r.Notes, fmt.Sprintf("%s: %d dialect packages, %d listed messages evaluated, %d comparisons with the published CRC_EXTRA table", rule, len(dps), func() int {
		n := 0
		for _, d := range out {
			n += len(d.msgs)
		}
		return n
	}(), nGolden))
	r.Check(nGolden >= 1760, rule, "golden CRC_EXTRA coverage", "-", fmt.Sprintf("%d listed standard messages compared with the published table", nGolden), fmt.Sprintf("only %d comparisons with the published table (1773 on the reference tree): a standard message lost its id or its definition package", nGolden))
	return out
}

// isStandardCarrier: the message is defined by the common / minimal / standard definitions (whose ids the
// published table refers to).
func isStandardCarrier(m *msgDef) bool {
	switch m.defPkg {
	case "pkg/dialects/common", "pkg/dialects/minimal", "pkg/dialects/standard", "pkg/dialects/test":
		return true
	}
	return false
}

// accumulatorAddends: for a loop accumulator  acc = phi[0, acc + a1, acc + a2, acc, ...]  (possibly through
// nested phis) the set of addend values. ok=false if the value is not of that shape.
func accumulatorAddends(v ssa.Value) (map[ssa.Value]bool, bool) {
	root, ok := v.(*ssa.Phi)
	if !ok {
		return nil, false
	}
	adds := map[ssa.Value]bool{}
	seen := map[ssa.Value]bool{}
	var rec func(x ssa.Value) bool
	rec = func(x ssa.Value) bool {
		if seen[x] {
			return true
		}
		seen[x] = true
		switch y := x.(type) {
		case *ssa.Phi:
			for _, e := range y.Edges {
				if !rec(e) {
					return false
				}
			}
			return true
		case *ssa.Const:
			k, ok := constInt(y)
			return ok && k == 0
		case *ssa.BinOp:
			if y.Op != token.ADD {
				return false
			}
			adds[y.Y] = true
			return rec(y.X)
		}
		return false
	}
	if !rec(root) {
		return nil, false
	}
	return adds, len(adds) > 0
}

// maxBits: an upper bound on the number of significant bits of an unsigned integer expression, from masks and
// shifts alone (x & K, x >> k, x ^ y, x | y, widening conversions); the operand's width otherwise.
func maxBits(v ssa.Value) int {
	w := intWidth(v.Type()) * 8
	if w == 0 {
		return 64
	}
	if b, ok := v.Type().Underlying().(*types.Basic); !ok || b.Info()&types.IsUnsigned == 0 {
		return w
	}
	if k, ok := constInt(v); ok && k >= 0 {
		n := 0
		for ; k > 0; k >>= 1 {
			n++
		}
		return n
	}
	min := func(a, b int) int {
		if a < b {
			return a
		}
		return b
	}
	max := func(a, b int) int {
		if a > b {
			return a
		}
		return b
	}
	switch x := v.(type) {
	case *ssa.BinOp:
		switch x.Op {
		case token.AND:
			return min(w, min(maxBits(x.X), maxBits(x.Y)))
		case token.OR, token.XOR:
			return min(w, max(maxBits(x.X), maxBits(x.Y)))
		case token.SHR:
			if k, ok := constInt(x.Y); ok && k >= 0 {
				return max(0, min(w, maxBits(x.X))-int(k))
			}
		}
	case *ssa.Convert:
		return min(w, maxBits(x.X))
	}
	return w
}

// ruleTypeAdmission (R3.9 / R17.9): which Go field types Initialize admits. The per-type codecs (readValue /
// writeValue) dispatch on the exact Go types *uint8 … *float64 / *string, so a field is encodable only if its type IS
// one of those: the wire type stored in a field descriptor comes from fieldTypeFromGo looked up by the type's name
// (or by the mavenum tag for enums) and a zero result is an error. Admitting by reflect.Kind (or any other table)
// lets named types through that the codecs then skip silently: payload shifted, field decoded as 0.
func ruleTypeAdmission(c *Ctx, rule string) {
	r := c.R
	r.Rule(rule, "type admission: the wire type of every field descriptor built by ReadWriter.Initialize is fieldTypeFromGo[<Go type name>] or fieldTypeFromGo[<mavenum tag>], and the zero result is refused with an error — "+
		"the same exact-type criterion by which readValue / writeValue dispatch", 1)
	ini := c.Fn("pkg/message", "ReadWriter.Initialize")
	if ini == nil {
		return
	}
	var probs []string
	n := 0
	for _, a := range litAllocs(ini, "message.decEncoderField") {
		v := litFields(a)["ftype"]
		if v == nil {
			continue
		}
		n++
		seen := map[ssa.Value]bool{}
		var walk func(x ssa.Value)
		walk = func(x ssa.Value) {
			if seen[x] {
				return
			}
			seen[x] = true
			switch y := x.(type) {
			case *ssa.Phi:
				for _, e := range y.Edges {
					walk(e)
				}
			case *ssa.Lookup:
				idx := ex(y.Index)
				if ex(y.X) != "message.fieldTypeFromGo" || !(strings.Contains(idx, "(reflect.Type).Name(") || strings.Contains(idx, "\"mavenum\"")) {
					probs = append(probs, fmt.Sprintf("the wire type comes from %s[%s] (%s), not from fieldTypeFromGo keyed by the Go type's name / the mavenum tag: types the per-type codecs do not dispatch on are admitted", ex(y.X), idx, c.Pos(y.Pos())))
				}
				// zero → error
				okZero := false
				for _, iff := range ifsIn(ini) {
					if tb, _, hit := succWhen(iff, "("+ex(y)+" == 0)"); hit {
						if ret, isRet := tb.Instrs[len(tb.Instrs)-1].(*ssa.Return); isRet && len(ret.Results) == 1 && !isNilConst(ret.Results[0]) {
							okZero = true
						}
					}
				}
				if !okZero {
					probs = append(probs, "an unknown type name (lookup result 0) is not refused with an error at "+c.Pos(y.Pos()))
				}
			case *ssa.Const:
				if k, ok := constInt(y); !ok || k == 0 {
					probs = append(probs, "a field descriptor can carry the zero wire type")
				}
			default:
				probs = append(probs, "the wire type of a field descriptor is "+shortErr(x)+", not a fieldTypeFromGo lookup")
			}
		}
		walk(v)
	}
	sort.Strings(probs)
	r.Check(len(probs) == 0 && n > 0, rule, "Initialize type admission", c.Pos(ini.Pos()), "wire type = fieldTypeFromGo[type name | mavenum tag], zero refused", orStr(strings.Join(probs, "; "), "no field descriptor literal found in Initialize"))
}
