package main

import (
	"fmt"
	"go/ast"
	"go/constant"
	"go/token"
	"go/types"
	"sort"
	"strconv"
	"strings"

	"golang.org/x/tools/go/packages"
	"golang.org/x/tools/go/ssa"
)

func init() { register("C19", []string{"./pkg/dialects/...", "./pkg/conversion"}, runC19) }

type enumShape struct {
	bitmask bool
	N       int64  // loop bound of the bitmask renderer
	sep     string // separator used by Marshal (bitmask)
	usep    string // separator used by Unmarshal (bitmask)
	table   string // N == -2: name of the flag table the renderer iterates over
	probs   []string
	undec   string
}

// classifyEnum recognises the generated MarshalText / UnmarshalText shapes.
func classifyEnum(c *Ctx, pk, typ string) *enumShape {
	es := &enumShape{}
	m := c.FnOpt(pk, typ+".MarshalText")
	u := c.FnOpt(pk, typ+".UnmarshalText")
	if m == nil || u == nil {
		es.undec = "MarshalText / UnmarshalText not found"
		return es
	}
	short := pk[strings.LastIndex(pk, "/")+1:]
	labels := short + ".labels_" + typ
	values := short + ".values_" + typ
	// ---- Marshal
	hasLoop := false
	for _, b := range m.Blocks {
		if inLoop(b) {
			hasLoop = true
		}
	}
	var lookups []*ssa.Lookup
	for _, in := range allInstrs(m) {
		if lk, ok := in.(*ssa.Lookup); ok && ex(lk.X) == labels {
			lookups = append(lookups, lk)
		}
	}
	if len(lookups) != 1 {
		es.undec = fmt.Sprintf("MarshalText has %d lookups in %s", len(lookups), labels)
		return es
	}
	lk := lookups[0]
	if !hasLoop {
		// plain: name, ok := labels[e]; fallback strconv.Itoa(int(e))
		if !lk.CommaOk || ex(lk.Index) != "recv" {
			es.probs = append(es.probs, "MarshalText does not look the value itself up in the label table (comma-ok)")
		}
		okName, okNum := false, false
		for _, ret := range retInstrs(m) {
			if len(ret.Results) != 2 || !isNilConst(ret.Results[1]) {
				es.probs = append(es.probs, "MarshalText returns an error")
				continue
			}
			s := ex(ret.Results[0])
			switch {
			case s == "[]byte("+ex(lk)+"#0)":
				// must be on the ok edge
				for _, iff := range ifsIn(m) {
					if tb, _, hit := succWhen(iff, ex(lk)+"#1"); hit && edgeMustPass(m, edge{iff.Block(), tb}, ret.Block()) {
						okName = true
					}
				}
			case s == "[]byte(strconv.Itoa(int(recv)))" || s == "[]byte(strconv.FormatUint(uint64(recv),10))" || s == "[]byte(strconv.FormatInt(int64(recv),10))":
				okNum = true
			default:
				es.probs = append(es.probs, "MarshalText returns "+s)
			}
		}
		if !okName {
			es.probs = append(es.probs, "a defined constant is not rendered as its name on the found edge")
		}
		if !okNum {
			es.probs = append(es.probs, "an undefined value is not rendered as its decimal number")
		}
	} else {
		es.bitmask = true
		// zero
		zero := false
		for _, iff := range ifsIn(m) {
			if tb, _, hit := succWhen(iff, "(recv == 0)"); hit {
				if ret, ok := tb.Instrs[len(tb.Instrs)-1].(*ssa.Return); ok && ex(ret.Results[0]) == "[]byte(\"0\")" {
					zero = true
				}
			}
		}
		if !zero {
			es.probs = append(es.probs, "zero is not rendered as \"0\"")
		}
		es.N = -1
		var iv ssa.Value
		for _, iff := range ifsIn(m) {
			if b, ok := iff.Cond.(*ssa.BinOp); ok && (b.Op == token.LSS || b.Op == token.LEQ) {
				if k, isK := constInt(b.Y); isK {
					if _, isPhi := b.X.(*ssa.Phi); isPhi {
						es.N = k
						if b.Op == token.LEQ {
							es.N = k + 1
						}
						iv = b.X
					}
				}
			}
		}
		// second loop form: the mask itself is the induction variable (mask := 1; mask < 1<<N; mask <<= 1)
		var maskPhi *ssa.Phi
		if p, isPhi := iv.(*ssa.Phi); isPhi && len(p.Edges) == 2 {
			one, shl := false, false
			for _, e := range p.Edges {
				if k, isK := constInt(e); isK && k == 1 {
					one = true
				}
				if b, isB := e.(*ssa.BinOp); isB && b.Op == token.SHL && b.X == ssa.Value(p) {
					if k, isK := constInt(b.Y); isK && k == 1 {
						shl = true
					}
				}
			}
			if one && shl {
				maskPhi = p
				// number of masks visited: 1, 2, 4 … below (or up to) the bound
				bound, n := es.N, int64(0) // es.N holds K (or K+1 for <=) here: masks m with m < es.N
				for mk := int64(1); mk > 0 && mk < bound; mk <<= 1 {
					n++
				}
				es.N = n
			}
		}
		if es.N < 0 {
			// third loop form: the flags come from a table (for _, flag := range flags_E): the label is looked up for
			// the table element, which is rendered exactly when the value contains all of its bits
			if ld, isLd := lk.Index.(*ssa.UnOp); isLd && ld.Op == token.MUL {
				if ia, isIA := ld.X.(*ssa.IndexAddr); isIA && inLoop(ld.Block()) {
					tbl := ex(ia.X)
					es.N = -2
					es.table = tbl[strings.LastIndex(tbl, ".")+1:]
					okTest, partial := false, false
					for _, iff := range ifsIn(m) {
						b, isB := iff.Cond.(*ssa.BinOp)
						if !isB {
							continue
						}
						and, isAnd := b.X.(*ssa.BinOp)
						if !isAnd || and.Op != token.AND || !((ex(and.X) == "recv" && ex(and.Y) == ex(ld)) || (ex(and.Y) == "recv" && ex(and.X) == ex(ld))) {
							continue
						}
						if b.Op == token.EQL && ex(b.Y) == ex(ld) {
							okTest = true
						} else if k, isK := constInt(b.Y); isK && k == 0 && b.Op == token.NEQ {
							partial = true
						}
					}
					if partial && !okTest {
						es.probs = append(es.probs, "a table entry is rendered when the value shares any bit with it (e&flag != 0): an entry made of several bits is rendered for values that contain only some of them, and the text parses back to a different value")
					} else if !okTest {
						es.probs = append(es.probs, "no `e&flag == flag` test selects the table entries to render")
					}
				}
			}
		}
		if es.N == -1 {
			es.undec = "bit loop bound not found"
			return es
		}
		if es.N != -2 {
			// mask = E(1 << i); test (e & mask) == mask; lookup labels[mask]
			maskS := typ + "((1 << " + ex(iv) + "))"
			maskS2 := short + "." + maskS
			if maskPhi != nil {
				if lk.Index != ssa.Value(maskPhi) {
					es.probs = append(es.probs, "label looked up for "+ex(lk.Index)+" instead of the single-bit mask of the loop")
				}
			} else if s := ex(lk.Index); s != maskS && s != maskS2 && s != "(1 << "+ex(iv)+")" {
				es.probs = append(es.probs, "label looked up for "+s+" instead of the single-bit mask 1<<i")
			}
			okTest := false
			for _, iff := range ifsIn(m) {
				cond, neg := stripNot(iff.Cond)
				b, isB := cond.(*ssa.BinOp)
				if !isB || (b.Op != token.EQL && b.Op != token.NEQ) {
					continue
				}
				and, isAnd := b.X.(*ssa.BinOp)
				if !isAnd || and.Op != token.AND {
					continue
				}
				var mask ssa.Value
				if ex(and.X) == "recv" {
					mask = and.Y
				} else if ex(and.Y) == "recv" {
					mask = and.X
				}
				if mask == nil || !(strings.Contains(ex(mask), "(1 << ") || (maskPhi != nil && mask == ssa.Value(maskPhi))) {
					continue
				}
				// the edge on which the flag is contained in the value
				k, isK := constInt(b.Y)
				var contained int // successor index
				switch {
				case b.Y == mask || ex(b.Y) == ex(mask):
					contained = map[bool]int{true: 0, false: 1}[b.Op == token.EQL]
				case isK && k == 0: // single-bit masks: non-zero intersection is containment
					contained = map[bool]int{true: 0, false: 1}[b.Op == token.NEQ]
				default:
					continue
				}
				if neg {
					contained = 1 - contained
				}
				// the label is looked up exactly on that edge
				if edgeMustPass(m, edge{iff.Block(), iff.Block().Succs[contained]}, lk.Block()) {
					okTest = true
				}
			}
			if !okTest {
				es.probs = append(es.probs, "no `e & (1<<i)` test selects the flags to render")
			}
		}
		for _, ci := range callsNamed(m, "strings.Join") {
			if cs, ok := ci.Common().Args[1].(*ssa.Const); ok && cs.Value != nil && cs.Value.Kind() == constant.String {
				es.sep = constant.StringVal(cs.Value)
			}
		}
		if es.sep == "" {
			es.probs = append(es.probs, "flag names are not joined with a constant separator")
		}
	}
	// ---- Unmarshal
	var vlk []*ssa.Lookup
	for _, in := range allInstrs(u) {
		if l, ok := in.(*ssa.Lookup); ok && ex(l.X) == values {
			vlk = append(vlk, l)
		}
	}
	if len(vlk) > 1 {
		keys := map[string]bool{}
		for _, l := range vlk {
			keys[ex(l.Index)] = true
		}
		if len(keys) > 1 {
			// a second way of reading the text (prefix added, case folded, …) sits before the numeric fallback: what
			// MarshalText renders for an undefined value — its decimal number — can be captured by a name
			es.probs = append(es.probs, fmt.Sprintf("UnmarshalText looks the text up in %s under %d different keys: besides the exact name a derived key is tried before the number is parsed, so the decimal rendering of an undefined value can come back as a named constant", values, len(keys)))
			return es
		}
	}
	if len(vlk) != 1 || !vlk[0].CommaOk {
		es.undec = fmt.Sprintf("UnmarshalText has %d comma-ok lookups in %s", len(vlk), values)
		return es
	}
	atoi := callsNamed(u, "strconv.Atoi")
	pu := callsNamed(u, "strconv.ParseUint")
	if len(atoi)+len(pu) != 1 {
		es.probs = append(es.probs, "no single decimal-number fallback in UnmarshalText")
	} else if len(pu) == 1 {
		if k, _ := constInt(pu[0].Common().Args[1]); k != 10 {
			es.probs = append(es.probs, "numbers are not parsed in base 10")
		}
	}
	errRet := false
	for _, ret := range retInstrs(u) {
		if len(ret.Results) == 1 && !isNilConst(ret.Results[0]) {
			errRet = true
		}
	}
	if !errRet {
		es.probs = append(es.probs, "UnmarshalText never returns an error: text that is neither a name nor a number is accepted")
	}
	// the stored value
	stored := false
	for _, in := range allInstrs(u) {
		if st, ok := in.(*ssa.Store); ok && ex(st.Addr) == "recv" {
			stored = true
			s := ex(st.Val)
			if es.bitmask {
				if !strings.Contains(s, "|") {
					es.probs = append(es.probs, "parsed flags are not OR-ed together")
				}
			} else if !strings.Contains(s, ex(vlk[0])+"#0") && !strings.Contains(s, typ+"(") {
				es.probs = append(es.probs, "UnmarshalText stores "+s)
			}
		}
	}
	if !stored {
		es.probs = append(es.probs, "UnmarshalText never stores the parsed value")
	}
	// the result must be built from the text alone: the previous value of the receiver is never read
	for _, in := range allInstrs(u) {
		if ld, ok := in.(*ssa.UnOp); ok && ld.Op == token.MUL && len(u.Params) > 0 && ld.X == ssa.Value(u.Params[0]) {
			es.probs = append(es.probs, "UnmarshalText reads the receiver's previous value: parsing into a non-zero variable yields old|new (and \"0\" does not clear it)")
		}
	}
	if es.bitmask {
		for _, ci := range callsNamed(u, "strings.Split", "strings.Cut", "strings.SplitN") {
			if cs, ok := ci.Common().Args[1].(*ssa.Const); ok && cs.Value != nil && cs.Value.Kind() == constant.String {
				es.usep = constant.StringVal(cs.Value)
			}
			// strings.Cut yields one label per call: the loop has to go by its `found` result, so that the label after
			// the last separator — and the empty text — are looked up (and refused) like any other. A loop that runs
			// `while the rest is non-empty` accepts "" and a dangling separator as no label at all.
			if calleeName(ci.Common()) == "strings.Cut" {
				foundUsed := false
				if v := ci.Value(); v != nil && v.Referrers() != nil {
					for _, rf := range *v.Referrers() {
						if e, isE := rf.(*ssa.Extract); isE && e.Index == 2 && e.Referrers() != nil && len(*e.Referrers()) > 0 {
							foundUsed = true
						}
					}
				}
				if !foundUsed {
					es.probs = append(es.probs, "the text is split with strings.Cut but the loop does not go by its `found` result: the empty text and a text ending in the separator are accepted instead of being refused")
				}
			}
		}
		if es.usep != es.sep {
			es.probs = append(es.probs, fmt.Sprintf("text is rendered with separator %q but parsed with %q", es.sep, es.usep))
		}
		if es.sep != " | " {
			es.probs = append(es.probs, fmt.Sprintf("separator is %q, the property states \" | \"", es.sep))
		}
		if ex(vlk[0].Index) == "string(arg0)" {
			es.probs = append(es.probs, "the whole text, not each part, is looked up")
		}
	} else if ex(vlk[0].Index) != "string(arg0)" {
		es.probs = append(es.probs, "UnmarshalText looks up "+ex(vlk[0].Index))
	}
	return es
}

func runC19(c *Ctx) {
	r := c.R
	r.Exhaustive = true
	r.NotDecided = append(r.NotDecided,
		"that parsing rejects every malformed text (only the presence of the error return on the not-a-name-not-a-number path is checked)",
		"Itoa(int(e)) / Atoi being mutually inverse on 64-bit two's complement (strconv is trusted)",
		"generated dialects other than the shipped ones (the template's bitmask loop bound is reported as the cause of the shipped findings)")
	r.Rule("R19.1", "method shape recognition for every defining enum type: plain — MarshalText looks the value up in labels_E (comma-ok) and renders the name, else the decimal number; UnmarshalText looks the text up in values_E, else parses a decimal number, else returns an error. "+
		"bitmask — zero renders \"0\"; a loop over bit positions i < N renders labels_E[1<<i] for the set bits joined by \" | \"; parsing splits by the same separator and ORs names / numbers. An unrecognised shape is undecided (check broken), never a silent pass", 240)
	r.Rule("R19.2", "tables are mutually inverse and complete: for every constant C of type E declared in the package, labels_E[C] == \"C\" and values_E[\"C\"] == C, no extra entries, and no name is a decimal numeral (the numeric fallback cannot shadow a name)", 240)
	r.Rule("R19.3", "bitmask coverage: for every bitmask enum with loop bound N, every declared constant v and every bit i set in v: i < N and some declared constant equals 1<<i — otherwise the rendered text omits the bit or contains an empty label and does not parse back", 40)
	nEnums := 0
	for _, p := range dialectPackages(c) {
		pk := pkgKey(p.PkgPath)
		sc := p.Types.Scope()
		for _, n := range sc.Names() {
			if !strings.HasPrefix(n, "labels_") {
				continue
			}
			typ := strings.TrimPrefix(n, "labels_")
			tn, ok := sc.Lookup(typ).(*types.TypeName)
			if !ok || tn.IsAlias() {
				r.Broken("R19.1", pk+"."+typ, "label table without a defining enum type")
				continue
			}
			nEnums++
			checkEnumType(c, p, pk, typ, tn, "R19.1", "R19.2", "R19.3")
		}
	}
	ruleSkeletons(c, "", "R19.4")
	ruleEnumModelMerge(c, "R19.5")
	if nEnums < 240 {
		r.Broken("R19.1", "enum count", fmt.Sprintf("only %d defining enum types found", nEnums))
	}
}

func enumConsts(p *packages.Package, tn *types.TypeName) []*types.Const {
	var out []*types.Const
	sc := p.Types.Scope()
	for _, n := range sc.Names() {
		if k, ok := sc.Lookup(n).(*types.Const); ok && types.Identical(k.Type(), tn.Type()) {
			out = append(out, k)
		}
	}
	sort.Slice(out, func(i, j int) bool { return out[i].Name() < out[j].Name() })
	return out
}

// checkEnumType applies the three enum rules to one defining enum type.
func checkEnumType(c *Ctx, p *packages.Package, pk, typ string, tn *types.TypeName, r1, r2, r3 string) {
	r := c.R
	key := pk + "." + typ
	es := classifyEnum(c, pk, typ)
	if es.undec != "" {
		r.Broken(r1, key, "enum text methods have an unrecognised shape: "+es.undec)
		return
	}
	kind := "plain"
	if es.bitmask {
		kind = fmt.Sprintf("bitmask, %d bit positions", es.N)
		if es.N == -2 {
			kind = "bitmask, flags from table " + es.table
		}
	}
	r.Check(len(es.probs) == 0, r1, key, c.Pos(tn.Pos()), kind, strings.Join(es.probs, "; "))
	// R19.2
	labels, ok1 := evalMapLit(p, "labels_"+typ)
	values, ok2 := evalMapLit(p, "values_"+typ)
	if !ok1 || !ok2 {
		r.Broken(r2, key, "labels_/values_ are not constant map literals")
		return
	}
	consts := enumConsts(p, tn)
	var probs []string
	for _, k := range consts {
		v := k.Val().ExactString()
		if labels[v] != k.Name() {
			probs = append(probs, fmt.Sprintf("labels[%s]=%q, expected %q", k.Name(), labels[v], k.Name()))
		}
		if values[k.Name()] != v {
			probs = append(probs, fmt.Sprintf("values[%q]=%s, expected %s", k.Name(), values[k.Name()], v))
		}
		if _, err := strconv.Atoi(k.Name()); err == nil {
			probs = append(probs, "constant name "+k.Name()+" is a numeral")
		}
	}
	if len(labels) != len(consts) || len(values) != len(consts) {
		probs = append(probs, fmt.Sprintf("%d constants, %d labels, %d values", len(consts), len(labels), len(values)))
	}
	if len(probs) > 3 {
		probs = probs[:3]
	}
	r.Check(len(probs) == 0, r2, key, c.Pos(tn.Pos()), fmt.Sprintf("%d constants ↔ names", len(consts)), strings.Join(probs, "; "))
	// R19.3
	if es.bitmask && es.N == -2 {
		// table-driven renderer: a value survives iff it is the union of the table entries it contains
		tbl, okT := evalSliceLit(p, es.table)
		if !okT {
			r.Broken(r3, key, "the flag table "+es.table+" is not a constant slice literal")
			return
		}
		anyBad := false
		for _, k := range consts {
			v, ok := constant.Uint64Val(k.Val())
			if !ok {
				continue
			}
			var u uint64
			for _, f := range tbl {
				if f != 0 && v&f == f {
					u |= f
				}
			}
			if u != v {
				anyBad = true
				r.Fail(r3, pk+"."+k.Name(), c.Pos(k.Pos()), fmt.Sprintf("%s = %d does not survive MarshalText/UnmarshalText: the entries of %s it contains add up to %d", k.Name(), v, es.table, u))
			}
		}
		if !anyBad {
			r.OK(r3, key, c.Pos(tn.Pos()), fmt.Sprintf("all %d constants are unions of entries of %s", len(consts), es.table))
		}
	} else if es.bitmask {
		single := map[uint]bool{}
		for _, k := range consts {
			if v, ok := constant.Uint64Val(k.Val()); ok && v != 0 && v&(v-1) == 0 {
				for i := uint(0); i < 64; i++ {
					if v == 1<<i {
						single[i] = true
					}
				}
			}
		}
		anyBad := false
		for _, k := range consts {
			v, ok := constant.Uint64Val(k.Val())
			if !ok {
				continue
			}
			var bad []string
			for i := uint(0); i < 64; i++ {
				if v&(1<<i) == 0 {
					continue
				}
				if int64(i) >= es.N {
					bad = append(bad, fmt.Sprintf("bit %d is beyond the %d rendered bit positions", i, es.N))
				} else if !single[i] {
					bad = append(bad, fmt.Sprintf("bit %d has no single-flag constant (empty label)", i))
				}
			}
			if len(bad) > 0 {
				anyBad = true
				r.Fail(r3, pk+"."+k.Name(), c.Pos(k.Pos()), fmt.Sprintf("%s = %d does not survive MarshalText/UnmarshalText: %s", k.Name(), v, strings.Join(bad, "; ")))
			}
		}
		if !anyBad {
			r.OK(r3, key, c.Pos(tn.Pos()), fmt.Sprintf("all %d constants use only labelled bits below %d", len(consts), es.N))
		}
	}
}

// R19.5: the generator's enum model is accumulated consistently. processDefinition builds one outEnum per
// definition file, Convert merges the outEnums of the same name coming from several (included) files. Every
// field of outEnum that processDefinition keeps updating after constructing the literal (i.e. derives from the
// entries: Values today) must also be brought up to date by the merge step — otherwise what the template
// renders from that field (e.g. a bit-scan bound) describes the first file only.
func ruleEnumModelMerge(c *Ctx, rule string) {
	r := c.R
	r.Rule(rule, "generator model agreement: every field of conversion.outEnum that processDefinition updates per enum entry (after constructing the literal) is also updated where Convert merges enums of the same name from several definition files", 1)
	pd := c.FnOpt("pkg/conversion", "processDefinition")
	cv := c.FnOpt("pkg/conversion", "Convert")
	if pd == nil || cv == nil {
		r.Broken(rule, "generator functions", "processDefinition / Convert not found")
		return
	}
	r.Functions[fnQual(pd)] = true
	r.Functions[fnQual(cv)] = true
	fieldsStored := func(fn *ssa.Function) map[string]string {
		out := map[string]string{}
		lit := map[ssa.Instruction]bool{}
		for _, a := range litAllocs(fn, "conversion.outEnum") {
			if a.Referrers() == nil {
				continue
			}
			for _, rf := range *a.Referrers() {
				if fa, ok := rf.(*ssa.FieldAddr); ok && fa.Referrers() != nil && fa.Block() == a.Block() {
					for _, rr := range *fa.Referrers() {
						if st, ok := rr.(*ssa.Store); ok && st.Block() == a.Block() {
							lit[st] = true
						}
					}
				}
			}
		}
		for _, in := range allInstrs(fn) {
			st, ok := in.(*ssa.Store)
			if !ok || lit[st] {
				continue
			}
			if f, _ := fieldOfAddr(st.Addr); f != nil && fieldStructName(st.Addr) == "conversion.outEnum" {
				out[f.Name()] = c.Pos(st.Pos())
			}
		}
		return out
	}
	acc := fieldsStored(pd)
	mrg := fieldsStored(cv)
	var probs []string
	for f, pos := range acc {
		if _, ok := mrg[f]; !ok {
			probs = append(probs, fmt.Sprintf("outEnum.%s is accumulated per entry in processDefinition (%s) but not when Convert merges the enum from several definition files: "+
				"an enum spread over an included and an including file is generated from the first file's %s only", f, pos, f))
		}
	}
	sort.Strings(probs)
	r.Check(len(probs) == 0 && len(acc) > 0, rule, "outEnum accumulation vs merge", c.Pos(cv.Pos()), fmt.Sprintf("accumulated %v ⊆ merged %v", strKeys(acc), strKeys(mrg)),
		orStr(strings.Join(probs, "; "), "no per-entry accumulation into outEnum found in processDefinition"))
}

func strKeys(m map[string]string) []string {
	var ks []string
	for k := range m {
		ks = append(ks, k)
	}
	sort.Strings(ks)
	return ks
}

// evalSliceLit: the constant elements of a package-level slice / array literal.
func evalSliceLit(p *packages.Package, name string) ([]uint64, bool) {
	for _, f := range p.Syntax {
		for _, d := range f.Decls {
			gd, ok := d.(*ast.GenDecl)
			if !ok {
				continue
			}
			for _, sp := range gd.Specs {
				vs, ok := sp.(*ast.ValueSpec)
				if !ok || len(vs.Names) != 1 || vs.Names[0].Name != name || len(vs.Values) != 1 {
					continue
				}
				cl, ok := vs.Values[0].(*ast.CompositeLit)
				if !ok {
					return nil, false
				}
				var out []uint64
				for _, el := range cl.Elts {
					v := p.TypesInfo.Types[el].Value
					if v == nil {
						return nil, false
					}
					u, ok := constant.Uint64Val(v)
					if !ok {
						return nil, false
					}
					out = append(out, u)
				}
				return out, true
			}
		}
	}
	return nil, false
}
