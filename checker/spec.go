package main

import (
	"fmt"
	"go/ast"
	"go/constant"
	"go/types"
	"reflect"
	"sort"
	"strconv"
	"strings"

	"golang.org/x/tools/go/packages"
)

// ---------------------------------------------------------------------------------------------
// Spec oracle for message definitions (MAVLink serialization guide), computed by the checker from
// go/types only: no gomavlib code is executed.
// ---------------------------------------------------------------------------------------------

var specTypes = map[string]struct {
	ctype string
	size  int
}{
	"float64": {"double", 8}, "uint64": {"uint64_t", 8}, "int64": {"int64_t", 8}, "float32": {"float", 4}, "uint32": {"uint32_t", 4}, "int32": {"int32_t", 4},
	"uint16": {"uint16_t", 2}, "int16": {"int16_t", 2}, "uint8": {"uint8_t", 1}, "int8": {"int8_t", 1}, "string": {"char", 1},
}

var specEnumTypes = map[string]bool{"uint8": true, "int8": true, "uint16": true, "uint32": true, "int32": true, "uint64": true}

type msgField struct {
	goName, wireName, ctype string
	size, arrLen            int
	ext, enum               bool
	scalarChar              bool
}

type msgDef struct {
	pkgKey   string // dialect package listing it
	typeName string
	named    *types.Named
	defPkg   string // package defining the struct
	id       int64
	hasID    bool
	fields   []msgField
	sizeN    int
	sizeX    int
	crc      byte
	errs     []string
	pos      string
}

type dialectDef struct {
	pkgKey  string
	version int64
	msgs    []*msgDef
	errs    []string
}

func camelToSnake(s string) string {
	var b strings.Builder
	for i, r := range s {
		if r >= 'A' && r <= 'Z' {
			if i > 0 {
				b.WriteByte('_')
			}
		}
		b.WriteRune(r)
	}
	return b.String()
}

// own X.25
func x25Step(crc uint16, b byte) uint16 {
	tmp := uint16(b) ^ (crc & 0xFF)
	tmp ^= tmp << 4
	tmp &= 0xFF
	return (crc >> 8) ^ (tmp << 8) ^ (tmp << 3) ^ (tmp >> 4)
}

func specCRCExtra(name string, fields []msgField) byte {
	crc := uint16(0xFFFF)
	feed := func(s string) {
		for i := 0; i < len(s); i++ {
			crc = x25Step(crc, s[i])
		}
	}
	feed(name + " ")
	for _, f := range fields {
		if f.ext {
			continue
		}
		feed(f.ctype + " ")
		feed(f.wireName + " ")
		if f.arrLen > 0 {
			crc = x25Step(crc, byte(f.arrLen))
		}
	}
	return byte((crc & 0xFF) ^ (crc >> 8))
}

// wireOrder: base fields by descending primitive size (stable), then extensions in declaration order.
func wireOrder(fields []msgField) []msgField {
	var base, ext []msgField
	for _, f := range fields {
		if f.ext {
			ext = append(ext, f)
		} else {
			base = append(base, f)
		}
	}
	sort.SliceStable(base, func(i, j int) bool { return base[i].size > base[j].size })
	return append(base, ext...)
}

// evalStruct computes the spec view of a message struct type.
func evalStruct(named *types.Named) *msgDef {
	md := &msgDef{typeName: named.Obj().Name(), named: named}
	if named.Obj().Pkg() != nil {
		md.defPkg = pkgKey(named.Obj().Pkg().Path())
	}
	st, ok := named.Underlying().(*types.Struct)
	if !ok {
		md.errs = append(md.errs, "not a struct")
		return md
	}
	if !strings.HasPrefix(md.typeName, "Message") {
		md.errs = append(md.errs, "type name does not begin with 'Message'")
	}
	seenExt := false
	for i := 0; i < st.NumFields(); i++ {
		fv := st.Field(i)
		tag := reflect.StructTag(st.Tag(i))
		f := msgField{goName: fv.Name()}
		t := fv.Type()
		if arr, ok := t.(*types.Array); ok {
			f.arrLen = int(arr.Len())
			t = arr.Elem()
			if f.arrLen < 1 || f.arrLen > 255 {
				md.errs = append(md.errs, fmt.Sprintf("field %s: array length %d outside 1..255", f.goName, f.arrLen))
			}
		}
		goType := ""
		if enumTag := tag.Get("mavenum"); enumTag != "" {
			f.enum = true
			if b, ok := t.Underlying().(*types.Basic); !ok || b.Kind() != types.Uint64 {
				md.errs = append(md.errs, "field "+f.goName+": enum field is not a uint64")
			}
			if !specEnumTypes[enumTag] {
				md.errs = append(md.errs, "field "+f.goName+": mavenum type "+enumTag+" cannot carry an enum")
			}
			goType = enumTag
		} else {
			b, ok := t.(*types.Basic)
			if !ok {
				md.errs = append(md.errs, "field "+f.goName+": unsupported Go type "+t.String())
				continue
			}
			goType = b.Name()
			if goType == "byte" {
				goType = "uint8"
			}
			if goType == "string" {
				if l := tag.Get("mavlen"); l == "" {
					f.scalarChar = true // a single char: one byte on the wire, NOT an array for CRC_EXTRA purposes
				} else {
					n, err := strconv.Atoi(l)
					if err != nil || n < 1 || n > 255 {
						md.errs = append(md.errs, "field "+f.goName+": mavlen "+l+" is not a number in 1..255")
					}
					f.arrLen = n
				}
			}
		}
		sp, ok := specTypes[goType]
		if !ok {
			md.errs = append(md.errs, "field "+f.goName+": unsupported type "+goType)
			continue
		}
		f.ctype, f.size = sp.ctype, sp.size
		f.ext = tag.Get("mavext") == "true"
		if f.ext {
			seenExt = true
		} else if seenExt {
			md.errs = append(md.errs, "field "+f.goName+": base field declared after an extension field")
		}
		if n := tag.Get("mavname"); n != "" {
			f.wireName = n
		} else {
			f.wireName = strings.ToLower(camelToSnake(f.goName))
		}
		total := f.size
		if f.arrLen > 0 {
			total *= f.arrLen
		}
		md.sizeX += total
		if !f.ext {
			md.sizeN += total
		}
		md.fields = append(md.fields, f)
	}
	if md.sizeX > 255 {
		md.errs = append(md.errs, fmt.Sprintf("payload size %d exceeds 255 bytes", md.sizeX))
	}
	name := strings.ToUpper(camelToSnake(strings.TrimPrefix(md.typeName, "Message")))
	md.crc = specCRCExtra(name, wireOrder(md.fields))
	return md
}

// getIDConst evaluates the constant returned by (*T).GetID from the defining package's syntax.
func getIDConst(c *Ctx, named *types.Named) (int64, bool) {
	p := c.Pkgs[pkgKey(named.Obj().Pkg().Path())]
	if p == nil {
		return 0, false
	}
	for _, f := range p.Syntax {
		for _, d := range f.Decls {
			fd, ok := d.(*ast.FuncDecl)
			if !ok || fd.Name.Name != "GetID" || fd.Recv == nil || len(fd.Recv.List) != 1 || fd.Body == nil {
				continue
			}
			rt := fd.Recv.List[0].Type
			if se, ok := rt.(*ast.StarExpr); ok {
				rt = se.X
			}
			id, ok := rt.(*ast.Ident)
			if !ok || id.Name != named.Obj().Name() {
				continue
			}
			if len(fd.Body.List) != 1 {
				return 0, false
			}
			ret, ok := fd.Body.List[0].(*ast.ReturnStmt)
			if !ok || len(ret.Results) != 1 {
				return 0, false
			}
			tv := p.TypesInfo.Types[ret.Results[0]]
			if tv.Value == nil {
				return 0, false
			}
			v, ok := constant.Int64Val(constant.ToInt(tv.Value))
			return v, ok
		}
	}
	return 0, false
}

// evalDialect reads the `dial` composite literal of a dialect package.
func evalDialect(c *Ctx, p *packages.Package) *dialectDef {
	dd := &dialectDef{pkgKey: pkgKey(p.PkgPath), version: -1}
	var lit *ast.CompositeLit
	for _, f := range p.Syntax {
		for _, d := range f.Decls {
			gd, ok := d.(*ast.GenDecl)
			if !ok {
				continue
			}
			for _, sp := range gd.Specs {
				vs, ok := sp.(*ast.ValueSpec)
				if !ok || len(vs.Names) != 1 || vs.Names[0].Name != "dial" || len(vs.Values) != 1 {
					continue
				}
				e := vs.Values[0]
				if u, ok := e.(*ast.UnaryExpr); ok {
					e = u.X
				}
				lit, _ = e.(*ast.CompositeLit)
			}
		}
	}
	if lit == nil {
		dd.errs = append(dd.errs, "no `dial = &dialect.Dialect{...}` literal found")
		return dd
	}
	for _, el := range lit.Elts {
		kv, ok := el.(*ast.KeyValueExpr)
		if !ok {
			continue
		}
		k, _ := kv.Key.(*ast.Ident)
		if k == nil {
			continue
		}
		switch k.Name {
		case "Version":
			if tv := p.TypesInfo.Types[kv.Value]; tv.Value != nil {
				dd.version, _ = constant.Int64Val(constant.ToInt(tv.Value))
			}
		case "Messages":
			ml, ok := kv.Value.(*ast.CompositeLit)
			if !ok {
				dd.errs = append(dd.errs, "Messages is not a literal")
				continue
			}
			for _, me := range ml.Elts {
				t := p.TypesInfo.TypeOf(me)
				pt, ok := t.(*types.Pointer)
				if !ok {
					dd.errs = append(dd.errs, "message element is not a pointer: "+types.ExprString(me))
					continue
				}
				named, ok := types.Unalias(pt.Elem()).(*types.Named)
				if !ok {
					dd.errs = append(dd.errs, "message element is not a named struct: "+types.ExprString(me))
					continue
				}
				md := evalStruct(named)
				md.pkgKey = dd.pkgKey
				md.pos = c.Pos(me.Pos())
				md.id, md.hasID = getIDConst(c, named)
				if !md.hasID {
					md.errs = append(md.errs, "GetID does not return a constant")
				}
				dd.msgs = append(dd.msgs, md)
			}
		}
	}
	return dd
}

// dialectPackages returns the loaded dialect packages (those declaring `dial`).
func dialectPackages(c *Ctx) []*packages.Package {
	var keys []string
	for k := range c.Pkgs {
		if strings.HasPrefix(k, "pkg/dialects/") {
			keys = append(keys, k)
		}
	}
	sort.Strings(keys)
	var out []*packages.Package
	for _, k := range keys {
		p := c.Pkgs[k]
		if p.Types.Scope().Lookup("dial") != nil {
			out = append(out, p)
		}
	}
	return out
}
