package main

import (
	"bytes"
	"fmt"
	"go/types"
	"path/filepath"
	"text/template"
)

// Template skeleton expansion (design P10). The generator's programs are text/template string constants.
// The checker extracts the constants from the SSA of the package initialiser, instantiates them with
// placeholder data using the standard library (no gomavlib code runs) and analyses the resulting Go source
// with the same rules as the shipped generated files.

type tplValue struct {
	Value       uint64
	Name        string
	Description []string
}

type tplEnumData struct {
	DefName     string
	Name        string
	Description []string
	Values      []*tplValue
	Bitmask     bool
}

type tplField struct {
	Description []string
	Line        string
}

type tplMsgData struct {
	DefName     string
	OrigName    string
	Name        string
	Description []string
	ID          int
	Fields      []*tplField
}

type tplDef struct {
	Name     string
	Messages []*tplMsgData
}

type skeleton struct {
	name string // e.g. "enum-bitmask"
	pkg  string
	file string
	src  []byte
	err  error
}

func execTpl(text string, data map[string]interface{}) ([]byte, error) {
	t, err := template.New("").Option("missingkey=error").Parse(text)
	if err != nil {
		return nil, err
	}
	var buf bytes.Buffer
	if err := t.Execute(&buf, data); err != nil {
		return nil, err
	}
	return buf.Bytes(), nil
}

// buildSkeletons instantiates every branch of the three templates.
func buildSkeletons(c *Ctx) ([]skeleton, error) {
	te, tm, td := templateText(c, "tplEnum"), templateText(c, "tplMessage"), templateText(c, "tplDialect")
	if te == "" || tm == "" || td == "" {
		return nil, fmt.Errorf("template constants tplEnum / tplMessage / tplDialect not found in the initialiser of package conversion")
	}
	plain := &tplEnumData{DefName: "zzvplain", Name: "ZZV_PLAIN", Description: []string{"doc"}, Values: []*tplValue{{0, "ZZV_PLAIN_A", []string{"a"}}, {1, "ZZV_PLAIN_B", nil}, {7, "ZZV_PLAIN_C", nil}}}
	// a bitmask enum whose flags are not the dense low bits (as in common.xml)
	mask := &tplEnumData{DefName: "zzvmask", Name: "ZZV_MASK", Values: []*tplValue{{1, "ZZV_MASK_A", nil}, {2, "ZZV_MASK_B", nil}, {64, "ZZV_MASK_C", nil}}, Bitmask: true}
	link := &tplEnumData{DefName: "minimal", Name: "MAV_STATE", Values: []*tplValue{{0, "MAV_STATE_UNINIT", nil}, {4, "MAV_STATE_ACTIVE", nil}}}
	msg := &tplMsgData{DefName: "zzvmsg", OrigName: "ZZV_MSG", Name: "ZzvMsg", ID: 4242, Description: []string{"doc"},
		Fields: []*tplField{{[]string{"f"}, "A uint32"}, {nil, "B [4]uint8"}, {nil, "S string `mavlen:\"8\"`"}, {nil, "E uint8 `mavext:\"true\"`"}}}
	msgLink := &tplMsgData{DefName: "minimal", OrigName: "HEARTBEAT", Name: "Heartbeat", ID: 0}
	var out []skeleton
	add := func(name, pkg, file, text string, data map[string]interface{}) {
		src, err := execTpl(text, data)
		out = append(out, skeleton{name: name, pkg: pkg, file: file, src: src, err: err})
	}
	add("enum-plain", "zzvplain", "enum_zzv_plain.go", te, map[string]interface{}{"PkgName": "zzvplain", "Enum": plain, "Link": false})
	add("enum-bitmask", "zzvmask", "enum_zzv_mask.go", te, map[string]interface{}{"PkgName": "zzvmask", "Enum": mask, "Link": false})
	add("enum-link", "zzvlink", "enum_mav_state.go", te, map[string]interface{}{"PkgName": "zzvlink", "Enum": link, "Link": true})
	add("message-struct", "zzvmsg", "message_zzv_msg.go", tm, map[string]interface{}{"PkgName": "zzvmsg", "Msg": msg, "Link": false})
	add("message-link", "zzvlink", "message_heartbeat.go", tm, map[string]interface{}{"PkgName": "zzvlink", "Msg": msgLink, "Link": true})
	add("dialect", "zzvmsg", "dialect.go", td, map[string]interface{}{"PkgName": "zzvmsg", "Version": 3, "Defs": []*tplDef{{Name: "zzvmsg", Messages: []*tplMsgData{msg}}}, "Enums": map[string]*tplEnumData{}})
	return out, nil
}

// loadSkeletons type-checks the skeletons as overlay packages pkg/dialects/<pkg> of the repository.
func loadSkeletons(c *Ctx, sk []skeleton) (*Ctx, error) {
	overlay := map[string][]byte{}
	pats := map[string]bool{}
	for _, s := range sk {
		if s.err != nil {
			continue
		}
		overlay[filepath.Join(c.RepoDir, "pkg", "dialects", s.pkg, s.file)] = s.src
		pats["./pkg/dialects/"+s.pkg] = true
	}
	var ps []string
	for p := range pats {
		ps = append(ps, p)
	}
	return LoadRepoOverlay(c.RepoDir, ps, true, overlay)
}

// ruleSkeletons: R18.5 (every branch of every template is well-formed Go that type-checks against the
// repository) and R19.4 (the enum skeletons satisfy the C19 rules).
func ruleSkeletons(c *Ctx, wellFormedRule, enumRule string) {
	r := c.R
	if wellFormedRule != "" {
		r.Rule(wellFormedRule, "templates are well-formed in every branch: tplEnum × {plain, bitmask, link}, tplMessage × {struct, link} and tplDialect, instantiated with placeholder data by the checker (text/template, standard library only), "+
			"parse and type-check as packages of the repository; the message skeleton is admissible for the runtime codec (spec oracle) and its GetID is the constant given", 6)
	}
	if enumRule != "" {
		r.Rule(enumRule+"a", "generated enums, plain skeleton: recognised shape, tables inverse and complete", 2)
		r.Rule(enumRule+"b", "generated enums, bitmask skeleton with flags that are not the dense low bits (1, 2, 64 — as in common.xml): recognised shape, tables inverse and complete", 2)
		r.Rule(enumRule, "generated enums, bitmask coverage on the skeleton: every bit of every declared flag is below the rendered bound and labelled", 1)
	}
	sk, err := buildSkeletons(c)
	if err != nil {
		r.Broken(orStr(wellFormedRule, enumRule), "templates", err.Error())
		return
	}
	for _, s := range sk {
		if s.err != nil {
			r.Broken(orStr(wellFormedRule, enumRule), "template "+s.name, "the template cannot be instantiated with the checker's placeholder data (it uses data the placeholder model does not have): "+s.err.Error())
		}
	}
	sc, err := loadSkeletons(c, sk)
	if err != nil {
		// a load failure is a type / parse error in a skeleton
		if wellFormedRule != "" {
			r.Fail(wellFormedRule, "template skeletons", "pkg/conversion/conversion.go", "a template branch instantiated with placeholder data does not parse / type-check as Go: "+err.Error())
		} else {
			r.Broken(enumRule, "template skeletons", err.Error())
		}
		return
	}
	sc.R = r
	if wellFormedRule != "" {
		for _, s := range sk {
			if s.err == nil {
				r.OK(wellFormedRule, "template "+s.name, "pkg/conversion/conversion.go", fmt.Sprintf("%d bytes of Go, parsed and type-checked as pkg/dialects/%s", len(s.src), s.pkg))
			}
		}
		// message skeleton through the spec oracle
		if p := sc.Pkgs["pkg/dialects/zzvmsg"]; p != nil {
			dd := evalDialect(sc, p)
			ok := len(dd.errs) == 0 && len(dd.msgs) == 1 && len(dd.msgs[0].errs) == 0 && dd.msgs[0].id == 4242 && dd.version == 3 && dd.msgs[0].sizeN == 16 && dd.msgs[0].sizeX == 17
			detail := fmt.Sprintf("%v", dd.errs)
			if len(dd.msgs) == 1 {
				detail = fmt.Sprintf("id %d, sizes %d/%d, version %d, errors %v %v", dd.msgs[0].id, dd.msgs[0].sizeN, dd.msgs[0].sizeX, dd.version, dd.errs, dd.msgs[0].errs)
			}
			r.Check(ok, wellFormedRule, "message skeleton admissible", "pkg/conversion/conversion.go", detail, "the generated message/dialect skeleton is not what the runtime expects: "+detail)
		}
	}
	if enumRule != "" {
		for _, e := range []struct{ pk, typ, suffix string }{{"pkg/dialects/zzvplain", "ZZV_PLAIN", "a"}, {"pkg/dialects/zzvmask", "ZZV_MASK", "b"}} {
			p := sc.Pkgs[e.pk]
			if p == nil {
				r.Broken(enumRule, "skeleton "+e.typ, "package not loaded")
				continue
			}
			tn, _ := p.Types.Scope().Lookup(e.typ).(*types.TypeName)
			if tn == nil {
				r.Broken(enumRule, "skeleton "+e.typ, "type not found")
				continue
			}
			checkEnumType(sc, p, e.pk, e.typ, tn, enumRule+e.suffix, enumRule+e.suffix, enumRule)
		}
	}
}
