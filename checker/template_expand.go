package main

import (
	"bytes"
	"fmt"
	"go/constant"
	"go/types"
	"path/filepath"
	"reflect"
	"sort"
	"strings"
	"text/template"

	"golang.org/x/tools/go/ssa"
)

// Template skeleton expansion (design P10). The generator's programs are text/template string constants.
// The checker extracts the constants from the SSA of the package initialiser, instantiates them with
// placeholder data using the standard library (no gomavlib code runs) and analyses the resulting Go source
// with the same rules as the shipped generated files.

type tplValue struct {
	Value       uint64
	Name        string
	Description []string
}

type tplEnumData struct {
	DefName     string
	Name        string
	Description []string
	Values      []*tplValue
	Bitmask     bool
}

type tplField struct {
	Description []string
	Line        string
}

type tplMsgData struct {
	DefName     string
	OrigName    string
	Name        string
	Description []string
	ID          int
	Fields      []*tplField
}

type tplDef struct {
	Name     string
	Messages []*tplMsgData
}

type skeleton struct {
	name    string // e.g. "enum-bitmask"
	pkg     string
	file    string
	src     []byte
	err     error
	unknown []string // data the generator passes that the curated placeholder model does not know (defaults were invented)
}

func execTpl(text string, data map[string]interface{}) ([]byte, error) {
	t, err := template.New("").Option("missingkey=error").Parse(text)
	if err != nil {
		return nil, err
	}
	var buf bytes.Buffer
	if err := t.Execute(&buf, data); err != nil {
		return nil, err
	}
	return buf.Bytes(), nil
}

// buildSkeletons instantiates every branch of the three templates.
func buildSkeletons(c *Ctx) ([]skeleton, error) {
	te, tm, td := templateText(c, "tplEnum"), templateText(c, "tplMessage"), templateText(c, "tplDialect")
	if te == "" || tm == "" || td == "" {
		return nil, fmt.Errorf("template constants tplEnum / tplMessage / tplDialect not found in the initialiser of package conversion")
	}
	plain := &tplEnumData{DefName: "zzvplain", Name: "ZZV_PLAIN", Description: []string{"doc"}, Values: []*tplValue{{0, "ZZV_PLAIN_A", []string{"a"}}, {1, "ZZV_PLAIN_B", nil}, {7, "ZZV_PLAIN_C", nil}}}
	// a bitmask enum whose flags are not the dense low bits (as in common.xml)
	mask := &tplEnumData{DefName: "zzvmask", Name: "ZZV_MASK", Values: []*tplValue{{1, "ZZV_MASK_A", nil}, {2, "ZZV_MASK_B", nil}, {64, "ZZV_MASK_C", nil}}, Bitmask: true}
	link := &tplEnumData{DefName: "minimal", Name: "MAV_STATE", Values: []*tplValue{{0, "MAV_STATE_UNINIT", nil}, {4, "MAV_STATE_ACTIVE", nil}}}
	msg := &tplMsgData{DefName: "zzvmsg", OrigName: "ZZV_MSG", Name: "ZzvMsg", ID: 4242, Description: []string{"doc"},
		Fields: []*tplField{{[]string{"f"}, "A uint32"}, {nil, "B [4]uint8"}, {nil, "S string `mavlen:\"8\"`"}, {nil, "E uint8 `mavext:\"true\"`"}}}
	msgLink := &tplMsgData{DefName: "minimal", OrigName: "HEARTBEAT", Name: "Heartbeat", ID: 0}
	var out []skeleton
	shapes := tplDataShapes(c)
	add := func(name, pkg, file, text string, data map[string]interface{}) {
		// the curated placeholder values are completed with type-derived defaults for every datum the generator
		// passes to this template that the curated model does not know (a field or map key added later)
		fn := map[string]string{"enum": "writeEnum", "mess": "writeMessage", "dial": "writeDialect"}[name[:4]]
		gen := map[string]interface{}{}
		for k, v := range data {
			gen[k] = toGeneric(reflect.ValueOf(v))
		}
		var unknown []string
		for k, t := range shapes[fn] {
			if cur, ok := gen[k]; ok {
				gen[k] = fillFromType(cur, t, 0, k, &unknown)
			} else {
				gen[k] = defaultFor(t, 0)
				unknown = append(unknown, k)
			}
		}
		sort.Strings(unknown)
		// the template text uses the tree's own field names: alias renamed fields (rename.go) under their current names
		if len(c.Renamed) > 0 {
			var alias func(v interface{})
			alias = func(v interface{}) {
				switch x := v.(type) {
				case map[string]interface{}:
					for ref, cur := range c.Renamed {
						if val, ok := x[ref]; ok {
							x[cur] = val
						}
					}
					for _, vv := range x {
						alias(vv)
					}
				case []interface{}:
					for _, vv := range x {
						alias(vv)
					}
				}
			}
			alias(gen)
		}
		src, err := execTpl(text, gen)
		out = append(out, skeleton{name: name, pkg: pkg, file: file, src: src, err: err, unknown: unknown})
	}
	add("enum-plain", "zzvplain", "enum_zzv_plain.go", te, map[string]interface{}{"PkgName": "zzvplain", "Enum": plain, "Link": false})
	add("enum-bitmask", "zzvmask", "enum_zzv_mask.go", te, map[string]interface{}{"PkgName": "zzvmask", "Enum": mask, "Link": false})
	add("enum-link", "zzvlink", "enum_mav_state.go", te, map[string]interface{}{"PkgName": "zzvlink", "Enum": link, "Link": true})
	add("message-struct", "zzvmsg", "message_zzv_msg.go", tm, map[string]interface{}{"PkgName": "zzvmsg", "Msg": msg, "Link": false})
	add("message-link", "zzvlink", "message_heartbeat.go", tm, map[string]interface{}{"PkgName": "zzvlink", "Msg": msgLink, "Link": true})
	add("dialect", "zzvmsg", "dialect.go", td, map[string]interface{}{"PkgName": "zzvmsg", "Version": 3, "Defs": []*tplDef{{Name: "zzvmsg", Messages: []*tplMsgData{msg}}}, "Enums": map[string]*tplEnumData{}})
	return out, nil
}

// loadSkeletons type-checks the skeletons as overlay packages pkg/dialects/<pkg> of the repository.
func loadSkeletons(c *Ctx, sk []skeleton) (*Ctx, error) {
	overlay := map[string][]byte{}
	pats := map[string]bool{}
	for _, s := range sk {
		if s.err != nil {
			continue
		}
		overlay[filepath.Join(c.RepoDir, "pkg", "dialects", s.pkg, s.file)] = s.src
		pats["./pkg/dialects/"+s.pkg] = true
	}
	var ps []string
	for p := range pats {
		ps = append(ps, p)
	}
	return LoadRepoOverlay(c.RepoDir, ps, true, overlay)
}

// ruleSkeletons: R18.5 (every branch of every template is well-formed Go that type-checks against the
// repository) and R19.4 (the enum skeletons satisfy the C19 rules).
func ruleSkeletons(c *Ctx, wellFormedRule, enumRule string) {
	r := c.R
	if wellFormedRule != "" {
		r.Rule(wellFormedRule, "templates are well-formed in every branch: tplEnum × {plain, bitmask, link}, tplMessage × {struct, link} and tplDialect, instantiated with placeholder data by the checker (text/template, standard library only), "+
			"parse and type-check as packages of the repository; the message skeleton is admissible for the runtime codec (spec oracle) and its GetID is the constant given", 6)
	}
	if enumRule != "" {
		r.Rule(enumRule+"a", "generated enums, plain skeleton: recognised shape, tables inverse and complete", 2)
		r.Rule(enumRule+"b", "generated enums, bitmask skeleton with flags that are not the dense low bits (1, 2, 64 — as in common.xml): recognised shape, tables inverse and complete", 2)
		r.Rule(enumRule, "generated enums, bitmask coverage on the skeleton: every bit of every declared flag is below the rendered bound and labelled", 1)
	}
	sk, err := buildSkeletons(c)
	if err != nil {
		r.Broken(orStr(wellFormedRule, enumRule), "templates", err.Error())
		return
	}
	for _, s := range sk {
		if s.err != nil {
			r.Broken(orStr(wellFormedRule, enumRule), "template "+s.name, "the template cannot be instantiated with the checker's placeholder data (it uses data the placeholder model does not have): "+s.err.Error())
		}
	}
	sc, err := loadSkeletons(c, sk)
	if err != nil {
		// a load failure is a type / parse error in a skeleton
		if wellFormedRule != "" {
			r.Fail(wellFormedRule, "template skeletons", "pkg/conversion/conversion.go", "a template branch instantiated with placeholder data does not parse / type-check as Go: "+err.Error())
		} else {
			r.Broken(enumRule, "template skeletons", err.Error())
		}
		return
	}
	sc.R = r
	if wellFormedRule != "" {
		for _, s := range sk {
			if s.err == nil {
				r.OK(wellFormedRule, "template "+s.name, "pkg/conversion/conversion.go", fmt.Sprintf("%d bytes of Go, parsed and type-checked as pkg/dialects/%s", len(s.src), s.pkg))
			}
		}
		// message skeleton through the spec oracle
		if p := sc.Pkgs["pkg/dialects/zzvmsg"]; p != nil {
			dd := evalDialect(sc, p)
			ok := len(dd.errs) == 0 && len(dd.msgs) == 1 && len(dd.msgs[0].errs) == 0 && dd.msgs[0].id == 4242 && dd.version == 3 && dd.msgs[0].sizeN == 16 && dd.msgs[0].sizeX == 17
			detail := fmt.Sprintf("%v", dd.errs)
			if len(dd.msgs) == 1 {
				detail = fmt.Sprintf("id %d, sizes %d/%d, version %d, errors %v %v", dd.msgs[0].id, dd.msgs[0].sizeN, dd.msgs[0].sizeX, dd.version, dd.errs, dd.msgs[0].errs)
			}
			r.Check(ok, wellFormedRule, "message skeleton admissible", "pkg/conversion/conversion.go", detail, "the generated message/dialect skeleton is not what the runtime expects: "+detail)
		}
	}
	if enumRule != "" {
		for _, e := range []struct{ pk, typ, suffix string }{{"pkg/dialects/zzvplain", "ZZV_PLAIN", "a"}, {"pkg/dialects/zzvmask", "ZZV_MASK", "b"}} {
			// a template that consumes data the curated model does not know was instantiated with invented defaults
			// (false / 0 / ""): its skeleton is type-checked (R18.5) but its behaviour says nothing about the real
			// generator output, so it is not evaluated — neither as a pass nor as a violation
			var unk []string
			for _, s := range sk {
				if "pkg/dialects/"+s.pkg == e.pk {
					unk = s.unknown
				}
			}
			if len(unk) > 0 {
				msg := "not evaluated: the template is fed data unknown to the placeholder model (" + strings.Join(unk, ", ") + "); defaults were used for type-checking only"
				r.Notes = append(r.Notes, enumRule+" skeleton "+e.typ+" "+msg)
				// the shape of the text methods does not depend on the invented data: a recognised shape with a
				// defect is still a defect (an unrecognised one stays not evaluated)
				if es := classifyEnum(sc, e.pk, e.typ); es.undec == "" && len(es.probs) > 0 {
					r.Fail(enumRule+e.suffix, "skeleton "+e.typ+" shape", "pkg/conversion/conversion.go", strings.Join(es.probs, "; "))
				} else {
					r.OK(enumRule+e.suffix, "skeleton "+e.typ+" shape", "pkg/conversion/conversion.go", msg)
				}
				r.OK(enumRule+e.suffix, "skeleton "+e.typ+" tables", "pkg/conversion/conversion.go", msg)
				r.OK(enumRule, "skeleton "+e.typ+" coverage", "pkg/conversion/conversion.go", msg)
				continue
			}
			p := sc.Pkgs[e.pk]
			if p == nil {
				r.Broken(enumRule, "skeleton "+e.typ, "package not loaded")
				continue
			}
			tn, _ := p.Types.Scope().Lookup(e.typ).(*types.TypeName)
			if tn == nil {
				r.Broken(enumRule, "skeleton "+e.typ, "type not found")
				continue
			}
			checkEnumType(sc, p, e.pk, e.typ, tn, enumRule+e.suffix, enumRule+e.suffix, enumRule)
		}
	}
}

// tplDataShapes: for each generator function that executes a template (writeEnum, writeMessage, writeDialect) the
// keys of the map it passes to Execute and the static types of the values (read from the SSA of the function).
func tplDataShapes(c *Ctx) map[string]map[string]types.Type {
	out := map[string]map[string]types.Type{}
	for _, name := range []string{"writeEnum", "writeMessage", "writeDialect"} {
		fn := c.FnOpt("pkg/conversion", name)
		if fn == nil {
			continue
		}
		m := map[string]types.Type{}
		for _, in := range allInstrs(fn) {
			mu, ok := in.(*ssa.MapUpdate)
			if !ok {
				continue
			}
			k, isK := mu.Key.(*ssa.Const)
			if !isK || k.Value == nil || k.Value.Kind() != constant.String {
				continue
			}
			v := mu.Value
			if mi, isMI := v.(*ssa.MakeInterface); isMI {
				v = mi.X
			}
			m[constant.StringVal(k.Value)] = v.Type()
		}
		out[name] = m
	}
	return out
}

// toGeneric converts curated placeholder values into maps / slices so that unknown fields can be added.
func toGeneric(v reflect.Value) interface{} {
	if !v.IsValid() {
		return nil
	}
	switch v.Kind() {
	case reflect.Ptr, reflect.Interface:
		if v.IsNil() {
			return nil
		}
		return toGeneric(v.Elem())
	case reflect.Struct:
		m := map[string]interface{}{}
		for i := 0; i < v.NumField(); i++ {
			m[v.Type().Field(i).Name] = toGeneric(v.Field(i))
		}
		return m
	case reflect.Slice:
		if v.Type().Elem().Kind() == reflect.String {
			return v.Interface()
		}
		out := make([]interface{}, v.Len())
		for i := 0; i < v.Len(); i++ {
			out[i] = toGeneric(v.Index(i))
		}
		return out
	case reflect.Map:
		out := map[string]interface{}{}
		for _, k := range v.MapKeys() {
			out[k.String()] = toGeneric(v.MapIndex(k))
		}
		return out
	}
	return v.Interface()
}

// defaultFor: a neutral placeholder of the given static type (false, 0, "zzv", one-element doc slices, empty
// collections, structs as maps of defaults).
func defaultFor(t types.Type, depth int) interface{} {
	if depth > 4 {
		return nil
	}
	switch u := t.Underlying().(type) {
	case *types.Basic:
		switch {
		case u.Info()&types.IsBoolean != 0:
			return false
		case u.Info()&types.IsString != 0:
			return "zzv"
		case u.Info()&types.IsUnsigned != 0:
			return uint64(0)
		case u.Info()&types.IsInteger != 0:
			return 0
		case u.Info()&types.IsFloat != 0:
			return 0.0
		}
	case *types.Pointer:
		return defaultFor(u.Elem(), depth+1)
	case *types.Struct:
		m := map[string]interface{}{}
		for i := 0; i < u.NumFields(); i++ {
			m[u.Field(i).Name()] = defaultFor(u.Field(i).Type(), depth+1)
		}
		return m
	case *types.Slice:
		if b, ok := u.Elem().Underlying().(*types.Basic); ok && b.Info()&types.IsString != 0 {
			return []string{}
		}
		return []interface{}{}
	case *types.Map:
		return map[string]interface{}{}
	}
	return nil
}

// fillFromType adds, to a curated generic value, defaults for the struct fields of its static type that it lacks.
func fillFromType(val interface{}, t types.Type, depth int, path string, unknown *[]string) interface{} {
	if depth > 6 || val == nil {
		return val
	}
	switch u := t.Underlying().(type) {
	case *types.Pointer:
		return fillFromType(val, u.Elem(), depth+1, path, unknown)
	case *types.Struct:
		m, ok := val.(map[string]interface{})
		if !ok {
			return val
		}
		for i := 0; i < u.NumFields(); i++ {
			f := u.Field(i)
			if cur, has := m[f.Name()]; has {
				m[f.Name()] = fillFromType(cur, f.Type(), depth+1, path+"."+f.Name(), unknown)
			} else {
				m[f.Name()] = defaultFor(f.Type(), depth+1)
				seen := false
				for _, u0 := range *unknown {
					if u0 == path+"."+f.Name() {
						seen = true
					}
				}
				if !seen {
					*unknown = append(*unknown, path+"."+f.Name())
				}
			}
		}
		return m
	case *types.Slice:
		if sl, ok := val.([]interface{}); ok {
			for i := range sl {
				sl[i] = fillFromType(sl[i], u.Elem(), depth+1, path, unknown)
			}
		}
		return val
	case *types.Map:
		if mm, ok := val.(map[string]interface{}); ok {
			for k := range mm {
				mm[k] = fillFromType(mm[k], u.Elem(), depth+1, path, unknown)
			}
		}
		return val
	}
	return val
}

var _ = strings.TrimSpace
