package main

import (
	"fmt"
	"go/token"
	"go/types"
	"strings"

	"golang.org/x/tools/go/ssa"
)

func init() { register("C04", []string{"./pkg/message", "./pkg/frame"}, runC04) }

// derivedFrom: the set of slice values that may alias the backing array of `src` (re-slicing, phi,
// type changes). Results of append are included only when the append can write in place (no 3-index clip).
func derivedFrom(fn *ssa.Function, src func(v ssa.Value) bool) map[ssa.Value]bool {
	set := map[ssa.Value]bool{}
	for _, in := range allInstrs(fn) {
		if v, ok := in.(ssa.Value); ok && src(v) {
			set[v] = true
		}
	}
	for _, p := range fn.Params {
		if src(p) {
			set[p] = true
		}
	}
	for changed := true; changed; {
		changed = false
		for _, in := range allInstrs(fn) {
			v, ok := in.(ssa.Value)
			if !ok || set[v] {
				continue
			}
			switch x := in.(type) {
			case *ssa.Slice:
				if set[x.X] {
					set[v], changed = true, true
				}
			case *ssa.Phi:
				for _, e := range x.Edges {
					if set[e] {
						set[v], changed = true, true
					}
				}
			case *ssa.ChangeType:
				if set[x.X] {
					set[v], changed = true, true
				}
			case *ssa.Call:
				if calleeName(&x.Call) == "append" && len(x.Call.Args) > 0 && set[x.Call.Args[0]] {
					set[v], changed = true, true
				}
			}
		}
	}
	return set
}

// writesParam: fn (or a callee, depth ≤ 2) stores through / copies into / appends to its parameter idx.
func writesParam(c *Ctx, fn *ssa.Function, idx int, depth int) (bool, string) {
	if fn == nil || fn.Blocks == nil || idx >= len(fn.Params) {
		return false, ""
	}
	p := fn.Params[idx]
	set := derivedFrom(fn, func(v ssa.Value) bool { return v == ssa.Value(p) })
	return writesInto(c, fn, set, depth)
}

func writesInto(c *Ctx, fn *ssa.Function, set map[ssa.Value]bool, depth int) (bool, string) {
	for _, in := range allInstrs(fn) {
		switch x := in.(type) {
		case *ssa.Store:
			if ia, ok := x.Addr.(*ssa.IndexAddr); ok && set[ia.X] {
				return true, c.Pos(x.Pos()) + ": element store into the buffer"
			}
		case *ssa.Call:
			n := calleeName(&x.Call)
			switch {
			case n == "copy" && set[x.Call.Args[0]]:
				return true, c.Pos(x.Pos()) + ": copy() into the buffer"
			case n == "append" && set[x.Call.Args[0]]:
				// append writes in place when capacity allows, unless the operand's capacity was clipped
				if sl, ok := x.Call.Args[0].(*ssa.Slice); ok && sl.Max != nil {
					continue
				}
				return true, c.Pos(x.Pos()) + ": append() on a slice sharing the caller's backing array writes beyond len() into it when capacity allows"
			case strings.HasPrefix(n, "(binary.littleEndian).PutUint") || strings.HasPrefix(n, "(binary.bigEndian).PutUint"):
				if set[x.Call.Args[1]] {
					return true, c.Pos(x.Pos()) + ": PutUint into the buffer"
				}
			default:
				if f := x.Call.StaticCallee(); f != nil && f.Blocks != nil && depth > 0 {
					for i, a := range x.Call.Args {
						if set[a] {
							if w, why := writesParam(c, f, i, depth-1); w {
								return true, why + " (via " + funcName(f) + ")"
							}
						}
					}
				}
			}
		}
	}
	return false, ""
}

func runC04(c *Ctx) {
	r := c.R
	r.NotDecided = append(r.NotDecided,
		"equality of decode(encode(v)) with the canonical form for all values, invariance under removing/appending zero bytes (value level)",
		"panic-freedom for all 0–255-byte payloads of all message types: needs value reasoning about sizeExtended vs the per-field advance (C03 R3.2 makes each advance the spec width and R3.6 bounds the sum, which is the necessary part)")
	rd := c.Fn("pkg/message", "ReadWriter.Read")
	wr := c.Fn("pkg/message", "ReadWriter.Write")
	if rd == nil || wr == nil {
		return
	}
	r.Functions[fnQual(rd)] = true
	r.Functions[fnQual(wr)] = true

	// R4.1
	r.Rule("R4.1", "the caller's buffer is never written: in ReadWriter.Read no slice that may share the backing array of m.Payload is the first operand of append (unless capacity-clipped by a 3-index slice), "+
		"the destination of copy / PutUint, or indexed for a store — including inside callees it is passed to (readValue)", 1)
	set := derivedFrom(rd, func(v ssa.Value) bool { return ex(v) == "arg0.Payload" })
	w, why := writesInto(c, rd, set, 2)
	r.Check(!w && len(set) > 0, "R4.1", "ReadWriter.Read caller buffer", c.Pos(rd.Pos()), fmt.Sprintf("%d values alias the caller's payload, none is written", len(set)),
		"the decoder writes into the caller's memory: "+why+" (Read(&MessageRaw{Payload: back[:3]}, true) zero-fills back[3:sizeExtended])")

	// R4.2
	r.Rule("R4.2", "length gates dominate decoding: v1 — a `len(payload) != sizeNormal` test with an error return is passed before the field loop; v2 — when len(payload) < sizeExtended the slice entering the loop is a zero-extended one of sizeExtended bytes; "+
		"the gates compare against the codec's own size fields; the v1 gate is the only error return of Read", 3)
	// isV2 tests: edges on which isV2 is true / false
	v2True, v2False := map[edge]bool{}, map[edge]bool{}
	for _, iff := range ifsIn(rd) {
		if tb, fb, hit := succWhen(iff, "arg1"); hit {
			v2True[edge{iff.Block(), tb}] = true
			v2False[edge{iff.Block(), fb}] = true
		}
	}
	valueCalls := callsNamed(rd, "message.readValue")
	if len(v2True) == 0 || len(valueCalls) == 0 {
		r.Broken("R4.2", "ReadWriter.Read structure", "isV2 dispatch / readValue calls not found")
	} else {
		// v1: exact-length gate
		var v1If *ssa.If
		var v1Pass, v1Fail *ssa.BasicBlock
		for _, iff := range ifsIn(rd) {
			if tb, fb, hit := succWhen(iff, "(len(arg0.Payload) != int(recv.sizeNormal))"); hit {
				v1If, v1Fail, v1Pass = iff, tb, fb
			}
		}
		ok := v1If != nil
		whyV1 := "no `len(payload) != sizeNormal` test on the v1 path: v1 payloads of the wrong length are decoded (index panic or garbage)"
		if ok {
			ret, isRet := v1Fail.Instrs[len(v1Fail.Instrs)-1].(*ssa.Return)
			ok = isRet && len(ret.Results) == 2 && !isNilConst(ret.Results[1])
			whyV1 = "a v1 payload of the wrong length is not refused with an error"
			if ok {
				// on v1 paths (isV2-true edges cut) decoding is reachable only through the gate's pass edge
				cut := map[edge]bool{{v1If.Block(), v1Pass}: true}
				for e := range v2True {
					cut[e] = true
				}
				reach := reachFrom(rd.Blocks[0], cut, nil)
				for _, ci := range valueCalls {
					if reach[ci.Block()] {
						ok = false
						whyV1 = "the v1 exact-length gate does not precede decoding on the v1 path"
					}
				}
			}
		}
		r.Check(ok, "R4.2", "ReadWriter.Read v1 exact length", c.Pos(rd.Pos()), "v1 payload must have exactly sizeNormal bytes", whyV1)
		// … and it is the only rejection: a v2 payload is decoded whatever its length (shorter: zero-extended; longer:
		// the unknown tail is ignored), so no other error return exists in Read
		badRet := ""
		for _, ret := range retInstrs(rd) {
			if len(ret.Results) != 2 || isNilConst(ret.Results[1]) {
				continue
			}
			if v1If != nil && (ret.Block() == v1Fail || edgeMustPass(rd, edge{v1If.Block(), v1Fail}, ret.Block())) {
				continue
			}
			// defensive refusal of a nil argument (could never be decoded)
			nilArg := false
			for _, prm := range rd.Params {
				if iff, _, isNil := nilGuard(rd, prm); iff != nil && isNil != nil && (ret.Block() == isNil || edgeMustPass(rd, edge{iff.Block(), isNil}, ret.Block())) {
					nilArg = true
				}
			}
			if nilArg {
				continue
			}
			badRet = c.Pos(ret.Pos())
		}
		r.Check(badRet == "", "R4.2", "ReadWriter.Read rejections", c.Pos(rd.Pos()), "the v1 exact-length test is the only rejection",
			"ReadWriter.Read returns an error at "+badRet+" under a condition other than the v1 exact-length test: v2 payloads that are truncated, or longer than the message (zero padding, extension fields of a newer revision), must decode")
		// v2: zero extension of short payloads
		var v2If *ssa.If
		var long *ssa.BasicBlock
		for _, iff := range ifsIn(rd) {
			if _, fb, hit := succWhen(iff, "(len(arg0.Payload) < int(recv.sizeExtended))"); hit {
				v2If, long = iff, fb
			}
		}
		ok2 := v2If != nil
		why2 := "no `len(payload) < sizeExtended` test on the v2 path: truncated payloads are decoded without zero extension (index panic)"
		if ok2 {
			var ext ssa.Instruction
			for _, in := range allInstrs(rd) {
				switch x := in.(type) {
				case *ssa.MakeSlice:
					if l := ex(x.Len); l == "int(recv.sizeExtended)" || l == "recv.sizeExtended" {
						for _, cc := range callsNamed(rd, "copy") {
							if cc.Common().Args[0] == ssa.Value(x) && ex(cc.Common().Args[1]) == "arg0.Payload" {
								ext = cc
							}
						}
					}
				case *ssa.Call:
					if calleeName(&x.Call) == "append" && strings.Contains(ex(x), "(int(recv.sizeExtended) - len(arg0.Payload))") {
						ext = x
					}
				}
			}
			if ext == nil {
				ok2 = false
				why2 = "a short v2 payload is not extended to sizeExtended bytes before decoding"
			} else {
				// on v2 paths with a short payload, decoding is reachable only through the extension
				cut := map[edge]bool{{v2If.Block(), long}: true}
				for e := range v2False {
					cut[e] = true
				}
				reach := reachFrom(rd.Blocks[0], cut, map[*ssa.BasicBlock]bool{ext.Block(): true})
				for _, ci := range valueCalls {
					if reach[ci.Block()] {
						ok2 = false
						why2 = "on the v2 path a short payload can reach the field decoder without having been zero-extended"
					}
				}
			}
		}
		r.Check(ok2, "R4.2", "ReadWriter.Read v2 zero extension", c.Pos(rd.Pos()), "short v2 payloads are extended to sizeExtended", why2)
	}

	// R4.3
	r.Rule("R4.3", "truncation floor: ReadWriter.Write returns the removeEmptyBytes of the full-size buffer exactly for v2; both copies of removeEmptyBytes (pkg/message, pkg/frame) strip while `end > 1 && buf[end-1] == 0` "+
		"and return buf[:end]; hasEmptyBytes tests `len > 1 && last byte == 0`", 4)
	okT := false
	got := ""
	for _, a := range litAllocs(wr, "message.MessageRaw") {
		lf := litFields(a)
		v := lf["Payload"]
		got = exOrNil(v)
		if p, ok := v.(*ssa.Phi); ok && len(p.Edges) == 2 {
			for i, e := range p.Edges {
				if call, isC := e.(*ssa.Call); isC && calleeName(&call.Call) == "message.removeEmptyBytes" {
					other := p.Edges[1-i]
					if call.Call.Args[0] == other {
						// the truncated edge must be the isV2 true edge
						pred := p.Block().Preds[i]
						for _, iff := range ifsIn(wr) {
							if tb, _, hit := succWhen(iff, "arg1"); hit && edgeMustPass(wr, edge{iff.Block(), tb}, pred) {
								okT = true
							}
						}
					}
				}
			}
		}
		if exOrNil(lf["ID"]) != "(message.Message).GetID(arg0)" {
			okT = false
			got += " ID=" + exOrNil(lf["ID"])
		}
	}
	r.Check(okT, "R4.3", "ReadWriter.Write truncation", c.Pos(wr.Pos()), "v2: removeEmptyBytes(full buffer); v1: full buffer", "Write does not return the zero-truncated full-size buffer exactly for v2 (payload is "+got+")")
	var inlineStrip *ssa.Slice // pkg/frame: the strip loop written out in Reader.Read (no removeEmptyBytes helper)
	for _, pk := range []string{"pkg/message", "pkg/frame"} {
		fn := c.FnOpt(pk, "removeEmptyBytes")
		var buf ssa.Value
		var results []*ssa.Slice
		key := pk + " removeEmptyBytes"
		if fn != nil {
			buf = fn.Params[0]
			for _, ret := range retInstrs(fn) {
				if sl, ok := ret.Results[0].(*ssa.Slice); ok {
					results = append(results, sl)
				}
			}
		} else if pk == "pkg/frame" {
			// in line: a prefix p[:end] of the payload, end coming out of a loop, stored back as the payload
			if rd := c.FnOpt("pkg/frame", "Reader.Read"); rd != nil {
				for _, in := range allInstrs(rd) {
					st, ok := in.(*ssa.Store)
					if !ok {
						continue
					}
					sl, ok := st.Val.(*ssa.Slice)
					if f, _ := fieldOfAddr(st.Addr); !ok || f == nil || f.Name() != "Payload" || sl.Low != nil || sl.High == nil {
						continue
					}
					fn, buf, results, inlineStrip = rd, sl.X, []*ssa.Slice{sl}, sl
					key = pk + " removeEmptyBytes (in line in Reader.Read)"
				}
			}
		}
		if fn == nil {
			c.Fn(pk, "removeEmptyBytes") // reports the missing anchor
			continue
		}
		floor, zero, okRet := stripLoopShape(fn, buf, results)
		r.Check(floor && zero && okRet, "R4.3", key, c.Pos(fn.Pos()), "strips trailing 0x00 while more than one byte remains", fmt.Sprintf("removeEmptyBytes shape wrong (one-byte floor: %v, strips exactly while the last byte is 0: %v, returns a prefix of its argument: %v): payloads could be truncated to zero bytes or non-zero bytes stripped", floor, zero, okRet))
	}
	if fn := c.FnOpt("pkg/frame", "hasEmptyBytes"); fn == nil {
		// the test in line: in Reader.Read the re-truncation (removeEmptyBytes) is guarded by `len(p) > 1` and
		// `p[len(p)-1] == 0` on the same payload p
		okIn, whyIn := false, "frame.hasEmptyBytes is gone and Reader.Read does not guard its removeEmptyBytes call by `len(p) > 1 && p[len(p)-1] == 0`"
		if rd := c.FnOpt("pkg/frame", "Reader.Read"); rd != nil {
			for _, ci := range callsNamed(rd, "frame.removeEmptyBytes") {
				pv := ex(ci.Common().Args[0])
				if condTrueAt(rd, "(len("+pv+") > 1)", ci.Block()) && condTrueAt(rd, "("+pv+"[(len("+pv+") - 1)] == 0)", ci.Block()) {
					okIn = true
				}
			}
			if inlineStrip != nil {
				pv := ex(inlineStrip.X)
				if condTrueAt(rd, "(len("+pv+") > 1)", inlineStrip.Block()) && condTrueAt(rd, "("+pv+"[(len("+pv+") - 1)] == 0)", inlineStrip.Block()) {
					okIn = true
				}
			}
		}
		r.Check(okIn, "R4.3", "frame.hasEmptyBytes", "-", "in line: len > 1 && last byte == 0", whyIn)
	} else {
		rets := retInstrs(fn)
		s := ""
		if len(rets) == 1 {
			s = ex(rets[0].Results[0])
		}
		ok := strings.Contains(s, "(len(arg0) > 1)") || strings.Contains(ex(fn.Blocks[0].Instrs[len(fn.Blocks[0].Instrs)-1].(*ssa.If).Cond), "(len(arg0) > 1)")
		okZ := false
		for _, in := range allInstrs(fn) {
			if b, isB := in.(*ssa.BinOp); isB && b.Op == token.EQL && ex(b) == "(arg0[(len(arg0) - 1)] == 0)" {
				okZ = true
			}
		}
		r.Check(ok && okZ, "R4.3", "frame.hasEmptyBytes", c.Pos(fn.Pos()), "len > 1 && last byte == 0", "hasEmptyBytes must be `len(buf) > 1 && buf[len(buf)-1] == 0`")
	}

	// R4.4
	r.Rule("R4.4", "extension / version symmetry: Read and Write skip a field exactly when `!isV2 && isExtension`, before touching the buffer; Write's buffer has size() bytes = sizeExtended for v2 and sizeNormal for v1; "+
		"each field is read/written at the struct field given by its own index; the byte cursor advances only by the count returned by readValue / writeValue for that cursor; the encode buffer is a per-call allocation", 6)
	ruleCursor(c, "R4.4")
	for _, v := range []struct {
		fn   *ssa.Function
		call string
	}{{rd, "message.readValue"}, {wr, "message.writeValue"}} {
		calls := callsNamed(v.fn, v.call)
		// edges on which "isV2" holds / "the field is an extension" does not hold, inside the field loop
		type condEdge struct {
			iff     *ssa.If
			yes, no *ssa.BasicBlock
		}
		var v2Ifs, extIfs []condEdge
		for _, iff := range ifsIn(v.fn) {
			if !inLoop(iff.Block()) {
				continue
			}
			if tb, fb, hit := succWhen(iff, "arg1"); hit {
				v2Ifs = append(v2Ifs, condEdge{iff, tb, fb})
			}
			if tb, fb, _, hit := succWhenFunc(iff, func(cs string) bool { return strings.HasSuffix(cs, ".isExtension") && !strings.HasPrefix(cs, "!") }); hit {
				extIfs = append(extIfs, condEdge{iff, tb, fb})
			}
		}
		ok := len(calls) == 2 && len(v2Ifs) == 1 && len(extIfs) == 1
		why := fmt.Sprintf("%d value calls, %d isV2 tests, %d isExtension tests in the field loop", len(calls), len(v2Ifs), len(extIfs))
		if ok {
			// with the "isV2" edge and the "not an extension" edge cut, no value call may be reachable within one iteration
			cut := map[edge]bool{{v2Ifs[0].iff.Block(), v2Ifs[0].yes}: true, {extIfs[0].iff.Block(), extIfs[0].no}: true}
			first := v2Ifs[0].iff.Block()
			if extIfs[0].iff.Block().Dominates(first) {
				first = extIfs[0].iff.Block()
			}
			head := first.Preds[0]
			reach := reachFrom(first, cut, map[*ssa.BasicBlock]bool{head: true})
			for _, ci := range calls {
				if reach[ci.Block()] {
					ok = false
					why = "a field is " + map[string]string{"message.readValue": "decoded", "message.writeValue": "encoded"}[v.call] + " although it is an extension and the frame is v1"
				}
			}
			// v2 never skips: from the isV2 edge a value call is reachable without consulting isExtension
			reach2 := reachFrom(v2Ifs[0].yes, nil, map[*ssa.BasicBlock]bool{head: true, extIfs[0].iff.Block(): true})
			any := false
			for _, ci := range calls {
				if reach2[ci.Block()] {
					any = true
				}
			}
			if !any && v2Ifs[0].yes != extIfs[0].iff.Block() {
				ok = false
				why = "extension fields are skipped in v2 as well"
			}
			if v2Ifs[0].yes == extIfs[0].iff.Block() {
				ok = false
				why = "extension fields are skipped in v2 as well"
			}
			for _, ci := range calls {
				tgt := ex(ci.Common().Args[map[string]int{"message.readValue": 0, "message.writeValue": 1}[v.call]])
				if !strings.Contains(tgt, "].index)") {
					ok = false
					why = "the struct field accessed is not selected by the field descriptor's own index: " + tgt
				}
				d := ex(ci.Common().Args[2])
				if !strings.HasPrefix(d, "recv.fields[") {
					ok = false
					why = "field descriptor argument is " + d
				}
			}
		}
		r.Check(ok, "R4.4", fnLocalName(v.fn)+" extension skipping", c.Pos(v.fn.Pos()), "skip iff !isV2 && isExtension", why)
	}
	ruleEncodeBuffer(c, "R4.4")

	ruleStrings(c, "R4.5")
	ruleValueCodecs(c, "R4.6")
	ruleCodecCaches(c, "R4.7")
	ruleCodecNoSharedWrites(c, "R4.8", "C04: decoding / encoding one message must not depend on another call using the same codec")
	_ = types.Typ
}

// ruleStrings (R4.5 / R3.7): fixed-size NUL-padded character arrays.
func ruleStrings(c *Ctx, rule string) {
	r := c.R
	// R4.5 strings
	r.Rule(rule, "strings: the decoder scans at most arrayLength bytes and stops at the first NUL, yields buf[:end] and consumes arrayLength; the encoder copies into buf[:arrayLength] and advances by arrayLength", 2)
	if rv := c.Fn("pkg/message", "readValue"); rv != nil {
		var bound, nul, conv, adv bool
		for _, in := range allInstrs(rv) {
			switch x := in.(type) {
			case *ssa.BinOp:
				s := ex(x)
				if x.Op == token.LSS && strings.HasSuffix(s, " < int(arg2.arrayLength))") {
					bound = true
				}
				if x.Op == token.NEQ && strings.HasPrefix(s, "(arg1[") && strings.HasSuffix(s, " != 0)") {
					nul = true
				}
			case *ssa.Convert:
				if typeStr(x.Type()) == "string" {
					if sl, ok := x.X.(*ssa.Slice); ok && sl.X == ssa.Value(rv.Params[1]) && sl.Low == nil && sl.High != nil {
						conv = true
					}
				}
			case *ssa.Return:
				if ex(x.Results[0]) == "int(arg2.arrayLength)" {
					adv = true
				}
			}
		}
		// form-independent reading of the scan loop: the loop around the end index is left only because the index
		// reached arrayLength or because the byte at the index is NUL (whatever the loop form: condition, break, …)
		if conv {
			if b2, n2, other := scanLoopExits(rv); other == "" {
				bound, nul = b2, n2
			}
		}
		r.Check(bound && nul && conv && adv, rule, "readValue string", c.Pos(rv.Pos()), "bounded scan to NUL, consumes arrayLength",
			fmt.Sprintf("string decoding shape wrong (scan bounded by arrayLength: %v, stops at NUL: %v, value is buf[:end]: %v, consumes arrayLength: %v)", bound, nul, conv, adv))
		w2, why2 := writesParam(c, rv, 1, 1)
		r.Check(!w2, rule, "readValue buffer read-only", c.Pos(rv.Pos()), "readValue never writes its buffer", "readValue writes into the payload buffer: "+why2)
	}
	if wv := c.Fn("pkg/message", "writeValue"); wv != nil {
		var cp, adv bool
		for _, in := range allInstrs(wv) {
			switch x := in.(type) {
			case *ssa.Call:
				if calleeName(&x.Call) == "copy" {
					if sl, ok := x.Call.Args[0].(*ssa.Slice); ok && sl.X == ssa.Value(wv.Params[0]) && sl.Low == nil && sl.High != nil && ex(sl.High) == "arg2.arrayLength" {
						cp = true
					}
				}
			case *ssa.Return:
				if ex(x.Results[0]) == "int(arg2.arrayLength)" {
					adv = true
				}
			}
		}
		r.Check(cp && adv, rule, "writeValue string", c.Pos(wv.Pos()), "copy into buf[:arrayLength], advance arrayLength", fmt.Sprintf("string encoding shape wrong (copy bounded by arrayLength: %v, advances arrayLength: %v)", cp, adv))
	}
}

// ruleCursor (R4.4 / R3.8): cursor discipline of ReadWriter.Read / Write.
func ruleCursor(c *Ctx, rule string) {
	r := c.R
	for _, v := range []struct{ name, call string }{{"ReadWriter.Read", "message.readValue"}, {"ReadWriter.Write", "message.writeValue"}} {
		fn := c.Fn("pkg/message", v.name)
		if fn == nil {
			continue
		}
		r.Functions[fnQual(fn)] = true
		// inside the field loop the byte cursor advances only by what the per-value codec reports for that very cursor
		// (no bulk copies or side paths that bypass readValue / writeValue)
		bufArg := map[string]int{"message.readValue": 1, "message.writeValue": 0}[v.call]
		okCur, whyCur, nAdv := true, "", 0
		for _, in := range allInstrs(fn) {
			sl, isSl := in.(*ssa.Slice)
			if !isSl || sl.Low == nil || !inLoop(sl.Block()) || typeStr(sl.X.Type()) != "[]byte" {
				continue
			}
			nAdv++
			lo := sl.Low
			if cv, isCv := lo.(*ssa.Convert); isCv {
				lo = cv.X
			}
			call, isCall := lo.(*ssa.Call)
			if isCall && calleeName(&call.Call) == v.call && call.Call.Args[bufArg] == sl.X {
				continue // slice cursor: cur = cur[n:], n the codec's count for cur
			}
			// index cursor: base[pos:] handed to the codec, pos accumulating nothing but the codec's counts
			seenAcc := map[ssa.Value]bool{}
			var isAccum func(x ssa.Value) bool
			var isCodecCount func(x ssa.Value) bool
			isCodecCount = func(x ssa.Value) bool {
				if cv, ok := x.(*ssa.Convert); ok {
					x = cv.X
				}
				if cc, ok := x.(*ssa.Call); ok {
					return calleeName(&cc.Call) == v.call
				}
				// the count of a whole field: a codec count, or an inner accumulator of codec counts (array elements)
				if p, ok := x.(*ssa.Phi); ok {
					if seenAcc[p] {
						return true
					}
					seenAcc[p] = true
					for _, e := range p.Edges {
						if !isCodecCount(e) && !isAccum(e) {
							return false
						}
					}
					return true
				}
				if b, ok := x.(*ssa.BinOp); ok && b.Op == token.ADD {
					return isAccum(x)
				}
				return false
			}
			isAccum = func(x ssa.Value) bool {
				if seenAcc[x] {
					return true
				}
				seenAcc[x] = true
				if k, isK := constInt(x); isK {
					return k == 0
				}
				switch y := x.(type) {
				case *ssa.Phi:
					for _, e := range y.Edges {
						if !isAccum(e) {
							return false
						}
					}
					return true
				case *ssa.BinOp:
					if y.Op == token.ADD {
						return (isAccum(y.X) && isCodecCount(y.Y)) || (isAccum(y.Y) && isCodecCount(y.X))
					}
				}
				return false
			}
			onlyCodec := sl.Referrers() != nil
			if onlyCodec {
				for _, rf := range *sl.Referrers() {
					switch z := rf.(type) {
					case *ssa.DebugRef:
					case *ssa.Slice:
						// re-sliced for the elements of an array field: that slice is checked on its own
					case *ssa.Call:
						if calleeName(&z.Call) != v.call || z.Call.Args[bufArg] != ssa.Value(sl) {
							onlyCodec = false
						}
					default:
						onlyCodec = false
					}
				}
			}
			if !(onlyCodec && isAccum(sl.Low)) {
				okCur = false
				whyCur = "the buffer cursor is advanced at " + c.Pos(sl.Pos()) + " by " + shortErr(sl.Low) + ", not by the count the per-value codec reports for this cursor: some field bytes bypass " + v.call
			}
		}
		r.Check(okCur && nAdv > 0, rule, v.name+" cursor discipline", c.Pos(fn.Pos()), fmt.Sprintf("%d cursor advances, each by the codec's own count", nAdv), orStr(whyCur, "no cursor advance found in the field loop"))
	}
}

// ruleEncodeBuffer (R4.4 / R15.5): ReadWriter.Write encodes into a buffer it allocates itself, per call, with
// sizeExtended bytes for v2 and sizeNormal for v1. (A scratch buffer kept in the codec would be shared by every
// goroutine that encodes the same message type — the codec objects are shared by all channels and callers of a node.)
func ruleEncodeBuffer(c *Ctx, rule string) {
	r := c.R
	wr := c.Fn("pkg/message", "ReadWriter.Write")
	if wr == nil {
		return
	}
	r.Functions[fnQual(wr)] = true
	// the encode buffer has sizeExtended bytes for v2 and sizeNormal for v1: through the size(isV2) helper, or selected in
	// line (the helper, where it exists, is checked as part of the same obligation)
	okBuf := false
	whyBuf := "the encode buffer is not allocated with (isV2 ? sizeExtended : sizeNormal) bytes"
	for _, in := range allInstrs(wr) {
		ms, ok := in.(*ssa.MakeSlice)
		if !ok || typeStr(ms.Type()) != "[]byte" {
			continue
		}
		l := ms.Len
		if cv, ok := l.(*ssa.Convert); ok {
			l = cv.X
		}
		if call, ok := l.(*ssa.Call); ok && ex(call) == "(message.ReadWriter).size(recv,arg1)" {
			if sz := c.FnOpt("pkg/message", "ReadWriter.size"); sz != nil {
				r.Functions[fnQual(sz)] = true
				for _, iff := range ifsIn(sz) {
					if t, f, hit := succWhen(iff, "arg0"); hit {
						rt, ok1 := t.Instrs[len(t.Instrs)-1].(*ssa.Return)
						rf, ok2 := f.Instrs[len(f.Instrs)-1].(*ssa.Return)
						if ok1 && ok2 && ex(rt.Results[0]) == "recv.sizeExtended" && ex(rf.Results[0]) == "recv.sizeNormal" {
							okBuf = true
						}
					}
				}
				for _, ret := range retInstrs(sz) {
					if selectsBy(sz, ret.Results[0], "arg0", "recv.sizeExtended", "recv.sizeNormal") {
						okBuf = true
					}
				}
				if !okBuf {
					whyBuf = "size(isV2) must return sizeExtended for v2 and sizeNormal for v1"
				}
			}
		} else if selectsBy(wr, ms.Len, "arg1", "recv.sizeExtended", "recv.sizeNormal") {
			okBuf = true
		}
	}
	r.Check(okBuf, rule, "ReadWriter.Write buffer size", c.Pos(wr.Pos()), "make([]byte, isV2 ? sizeExtended : sizeNormal)", whyBuf)

	// every buffer handed to writeValue is (a slice of) that fresh allocation
	shared := ""
	for _, ci := range callsNamed(wr, "message.writeValue") {
		root := ci.Common().Args[0]
		seen := map[ssa.Value]bool{}
		var fresh func(v ssa.Value) bool
		fresh = func(v ssa.Value) bool {
			if seen[v] {
				return true
			}
			seen[v] = true
			switch x := v.(type) {
			case *ssa.MakeSlice:
				return true
			case *ssa.Slice:
				return fresh(x.X)
			case *ssa.Phi:
				for _, e := range x.Edges {
					if !fresh(e) {
						return false
					}
				}
				return true
			case *ssa.Alloc:
				return true
			}
			return false
		}
		if !fresh(root) {
			shared = "writeValue encodes into " + shortErr(root) + " (" + c.Pos(ci.Pos()) + "), which is not a buffer allocated by this call: concurrent encoders of the same message type share it"
		}
	}
	r.Check(shared == "", rule, "ReadWriter.Write buffer ownership", c.Pos(wr.Pos()), "every encode target is a slice of the per-call allocation", shared)
}

// scanLoopExits: in readValue, the loop whose induction variable is the High bound of the buf[:end] slice that is
// converted to string. Classifies every edge that leaves the loop: bound (end reached arrayLength), NUL (the byte at
// end is zero); anything else is reported in other.
func scanLoopExits(rv *ssa.Function) (bound, nul bool, other string) {
	var end *ssa.Phi
	for _, in := range allInstrs(rv) {
		if cv, ok := in.(*ssa.Convert); ok && typeStr(cv.Type()) == "string" {
			if sl, ok := cv.X.(*ssa.Slice); ok && sl.High != nil {
				if p, ok := sl.High.(*ssa.Phi); ok {
					end = p
				}
			}
		}
	}
	if end == nil {
		return false, false, "no loop-carried end index"
	}
	head := end.Block()
	inScc := map[*ssa.BasicBlock]bool{}
	fromHead := reachFrom(head, nil, nil)
	for _, b := range rv.Blocks {
		if (b == head || fromHead[b]) && (b == head || reachFrom(b, nil, nil)[head]) {
			inScc[b] = true
		}
	}
	if !inScc[head] || len(inScc) < 2 {
		return false, false, "end index is not a loop variable"
	}
	// the increment: every back edge value is end+1
	for i, e := range end.Edges {
		if !inScc[head.Preds[i]] {
			continue
		}
		if b, ok := e.(*ssa.BinOp); !ok || b.Op != token.ADD || b.X != ssa.Value(end) || ex(b.Y) != "1" {
			return false, false, "the end index does not advance by one"
		}
	}
	isEnd := func(v ssa.Value) bool { return v == ssa.Value(end) }
	for b := range inScc {
		iff := blockIf(b)
		if iff == nil {
			continue
		}
		for si, s := range b.Succs {
			if inScc[s] {
				continue
			}
			cond, neg := stripNot(iff.Cond)
			taken := si == 0
			if neg {
				taken = !taken
			}
			bo, ok := cond.(*ssa.BinOp)
			if !ok {
				return bound, nul, "loop left under " + ex(iff.Cond)
			}
			x, y, op := bo.X, bo.Y, bo.Op
			lenS := "int(arg2.arrayLength)"
			switch {
			case isEnd(x) && ex(y) == lenS && ((op == token.LSS && !taken) || (op == token.GEQ && taken) || (op == token.EQL && taken) || (op == token.NEQ && !taken)):
				bound = true
			case isEnd(y) && ex(x) == lenS && ((op == token.GTR && !taken) || (op == token.LEQ && taken) || (op == token.EQL && taken) || (op == token.NEQ && !taken)):
				bound = true
			case (op == token.EQL && taken || op == token.NEQ && !taken) && (ex(y) == "0" && ex(x) == "arg1["+ex(end)+"]" || ex(x) == "0" && ex(y) == "arg1["+ex(end)+"]"):
				nul = true
			default:
				return bound, nul, "loop left under " + ex(iff.Cond)
			}
		}
	}
	return bound, nul, ""
}

// stripLoopShape: the trailing-zero strip loop over buf in fn whose result is one of the given prefixes buf[:high].
func stripLoopShape(fn *ssa.Function, buf ssa.Value, results []*ssa.Slice) (floor, zero, okRet bool) {
	// offset-normalised loop model: loop variable v (decremented by one), returned high bound v+d, loop
	// continues while v > F, byte tested at index v+e. Floor of one byte <=> F+d == 1; last byte <=> e == d-1.
	var v *ssa.Phi
	var dec ssa.Instruction
	for _, in := range allInstrs(fn) {
		if p, ok := in.(*ssa.Phi); ok {
			for _, e := range p.Edges {
				if b, ok := e.(*ssa.BinOp); ok && b.Op == token.SUB && b.X == ssa.Value(p) {
					if one, isOne := constInt(b.Y); isOne && one == 1 {
						v, dec = p, b
					}
				}
			}
		}
	}
	F, d, e := int64(-99), int64(-99), int64(-99)
	contOnZero := false
	if v != nil {
		for _, iff := range ifsIn(fn) {
			b, ok := iff.Cond.(*ssa.BinOp)
			if !ok {
				continue
			}
			if k, isK := constInt(b.Y); isK && b.X == ssa.Value(v) {
				switch b.Op {
				case token.GTR:
					F = k
				case token.GEQ:
					F = k - 1
				}
			}
			// zero test on buf[v+e]
			var ld *ssa.UnOp
			var other ssa.Value
			if u, isU := b.X.(*ssa.UnOp); isU {
				ld, other = u, b.Y
			} else if u, isU := b.Y.(*ssa.UnOp); isU {
				ld, other = u, b.X
			}
			if ld != nil && (b.Op == token.EQL || b.Op == token.NEQ) {
				if z, isZ := constInt(other); isZ && z == 0 {
					if ia, isIA := ld.X.(*ssa.IndexAddr); isIA && ia.X == buf {
						if ia.Index == ssa.Value(v) {
							e = 0
						} else if sb, isS := ia.Index.(*ssa.BinOp); isS && sb.Op == token.SUB && sb.X == ssa.Value(v) {
							if one, isOne := constInt(sb.Y); isOne {
								e = -one
							}
						}
						if tb, _, hit := succWhen(iff, "("+ex(ld)+" == 0)"); hit && edgeMustPass(fn, edge{iff.Block(), tb}, dec.Block()) {
							contOnZero = true
						}
					}
				}
			}
		}
		for _, sl := range results {
			if sl.X == buf && sl.Low == nil {
				if sl.High == ssa.Value(v) {
					d = 0
				} else if ab, isA := sl.High.(*ssa.BinOp); isA && ab.Op == token.ADD && ab.X == ssa.Value(v) {
					if one, isOne := constInt(ab.Y); isOne {
						d = one
					}
				}
			}
		}
	}
	floor = v != nil && F+d == 1
	zero = v != nil && e == d-1 && contOnZero
	okRet = d >= 0
	// the scan starts at the end of the buffer: the loop variable enters the loop as len(buf)-d and from nowhere else
	// (a preceding coarser scan, e.g. eight bytes at a time, can pass the one-byte floor)
	if v != nil {
		for _, ed := range v.Edges {
			if ed == ssa.Value(dec.(*ssa.BinOp)) {
				continue
			}
			want := "len(" + ex(buf) + ")"
			if d > 0 {
				want = fmt.Sprintf("(len(%s) - %d)", ex(buf), d)
			}
			if ex(ed) != want {
				floor = false
			}
		}
	}
	return floor, zero, okRet
}
