package main

// See-through for newly extracted helpers (robustness against "extract function / local closure"
// refactorings).
//
// The rules are anchored at the functions that exist on the reference tree (known_funcs.go). A private
// function, method or local closure that is NOT in that snapshot is a helper that appeared later; instead
// of failing to find the facts that moved into it, the checker inlines its body at its call sites — on the
// syntax tree, before type-checking and SSA construction — so that the anchored function is analysed in
// the shape the rules understand. This is a source-to-source macro expansion inside the analyser (nothing
// is executed); it is semantics-preserving for the statement forms it accepts and leaves every other call
// alone:
//
//     f(args)                      x, y := f(args)            x, y = f(args)         return f(args)
//     if [!]f(args) { A } else { B }   (threaded: `return true/false` in f continues in A / B)
//     x, err := f(args); if err != nil { return … }           (threaded: a `return …, <non-nil error>` of f
//                                                              continues in the propagation branch)
//
// Callees with defer / recover / go-to labels / variadic or generic signatures / recursion are not inlined.

import (
	"fmt"
	"go/ast"
	"go/parser"
	"go/token"
	"go/types"
	"os"
	"reflect"
	"sort"
	"strings"

	"golang.org/x/tools/go/ast/astutil"
	"golang.org/x/tools/go/packages"
	"golang.org/x/tools/go/ssa"
)

// alwaysInline: reference helpers that the rules analyse in their callers (normal form "inlined"), so that the
// tree with the helper and a tree where somebody inlined it by hand are analysed in one and the same shape.
var alwaysInline = map[string]bool{}

func init() {
	for _, k := range strings.Split(os.Getenv("GMV_ALWAYS_INLINE"), ",") {
		if k != "" {
			alwaysInline[k] = true
		}
	}
}

type inliner struct {
	c      *Ctx
	p      *packages.Package
	seq    int
	notes  []string
	failed bool
}

type inlCallee struct {
	hasDefer bool   // body contains defer: expanded as an immediately-invoked function literal instead
	name     string // snapshot key
	recv     *ast.Field
	typ      *ast.FuncType
	body     *ast.BlockStmt
	info     *types.Info
	obj      types.Object // *types.Func or *types.Var (closure variable)
	file     *ast.File
	sig      *types.Signature
	closure  bool
}

func funcKey(pk string, fd *ast.FuncDecl) string {
	n := fd.Name.Name
	if fd.Recv != nil && len(fd.Recv.List) == 1 {
		t := fd.Recv.List[0].Type
		if st, ok := t.(*ast.StarExpr); ok {
			t = st.X
		}
		if id, ok := t.(*ast.Ident); ok {
			n = id.Name + "." + n
		}
	}
	return pk + ":" + n
}

// inlinePackages rewrites the syntax of the loaded non-dialect repo packages. Returns true if anything changed.
func inlinePackages(c *Ctx) (bool, []string) {
	changed := false
	var notes []string
	var keys []string
	for k := range c.Pkgs {
		keys = append(keys, k)
	}
	sort.Strings(keys)
	for _, k := range keys {
		if strings.HasPrefix(k, "pkg/dialects") || strings.HasPrefix(k, "examples") || strings.HasPrefix(k, "cmd") {
			continue
		}
		p := c.Pkgs[k]
		for round := 0; round < 6; round++ {
			in := &inliner{c: c, p: p, seq: round * 1000}
			if !in.run(k) {
				break
			}
			changed = true
			notes = append(notes, in.notes...)
			// later rounds need fresh type information: re-check this package alone against the unchanged imports
			// (all repo packages are re-checked in dependency order, so that every package keeps referring to the
			// same type objects)
			if err := rebuildAll(c, false); err != nil {
				c.inlineErr = err.Error()
				notes = append(notes, "re-typecheck after inlining failed in "+k)
				return changed, notes
			}
		}
	}
	return changed, notes
}

func hasForbidden(body *ast.BlockStmt) bool {
	bad := false
	ast.Inspect(body, func(n ast.Node) bool {
		switch x := n.(type) {
		case *ast.FuncLit:
			return false
		case *ast.LabeledStmt:
			bad = true
		case *ast.BranchStmt:
			if x.Tok == token.GOTO {
				bad = true
			}
		case *ast.CallExpr:
			if id, ok := x.Fun.(*ast.Ident); ok && id.Name == "recover" {
				bad = true
			}
		}
		return !bad
	})
	return bad
}

func (in *inliner) run(pk string) bool {
	p := in.p
	// candidate callees
	cands := map[types.Object]*inlCallee{}
	for _, f := range p.Syntax {
		for _, d := range f.Decls {
			fd, ok := d.(*ast.FuncDecl)
			if !ok || fd.Body == nil {
				continue
			}
			key := funcKey(pk, fd)
			if (!knownFuncs[key] || alwaysInline[key]) && !ast.IsExported(fd.Name.Name) && fd.Type.TypeParams == nil {
				obj := p.TypesInfo.Defs[fd.Name]
				sig, _ := obj.Type().(*types.Signature)
				if obj != nil && sig != nil && !sig.Variadic() && !hasForbidden(fd.Body) && !callsObj(p.TypesInfo, fd.Body, obj) {
					var recv *ast.Field
					if fd.Recv != nil && len(fd.Recv.List) == 1 {
						recv = fd.Recv.List[0]
					}
					body := fd.Body
					if hasDefer(body) {
						// `defer t.Stop()` of a timer / ticker: run it at every return instead, so that the helper can be
						// expanded in statement form (no panics are caught there; the results returned are plain operands)
						if nb, ok := undeferTimerStops(p.TypesInfo, body); ok {
							body = nb
						}
					}
					cands[obj] = &inlCallee{name: key, recv: recv, typ: fd.Type, body: body, info: p.TypesInfo, obj: obj, file: f, sig: sig, hasDefer: hasDefer(body)}
				}
			}
			// named local closures:  name := func(...) {...}
			parentKey := key
			ast.Inspect(fd.Body, func(n ast.Node) bool {
				as, ok := n.(*ast.AssignStmt)
				if !ok || as.Tok != token.DEFINE || len(as.Lhs) != 1 || len(as.Rhs) != 1 {
					return true
				}
				id, ok1 := as.Lhs[0].(*ast.Ident)
				fl, ok2 := as.Rhs[0].(*ast.FuncLit)
				if !ok1 || !ok2 {
					return true
				}
				ck := parentKey + "/" + id.Name
				obj := p.TypesInfo.Defs[id]
				if obj == nil || knownFuncs[ck] || hasForbidden(fl.Body) || hasDefer(fl.Body) {
					return true
				}
				sig, _ := obj.Type().(*types.Signature)
				if sig == nil || sig.Variadic() {
					return true
				}
				// every use must be a direct call
				onlyCalled := true
				ast.Inspect(fd.Body, func(m ast.Node) bool {
					if ce, ok := m.(*ast.CallExpr); ok {
						if fid, ok := ce.Fun.(*ast.Ident); ok && p.TypesInfo.Uses[fid] == obj {
							for _, a := range ce.Args {
								ast.Inspect(a, func(q ast.Node) bool {
									if qi, ok := q.(*ast.Ident); ok && p.TypesInfo.Uses[qi] == obj {
										onlyCalled = false
									}
									return true
								})
							}
							return false
						}
					}
					if uid, ok := m.(*ast.Ident); ok && p.TypesInfo.Uses[uid] == obj {
						onlyCalled = false
					}
					return true
				})
				if onlyCalled && !callsObj(p.TypesInfo, fl.Body, obj) {
					cands[obj] = &inlCallee{name: ck, typ: fl.Type, body: fl.Body, info: p.TypesInfo, obj: obj, file: f, sig: sig, closure: true}
				}
				return true
			})
		}
	}
	if len(cands) == 0 {
		return false
	}
	// bring helper calls into the statement forms expanded below (prenorm.go); the package is re-checked and the
	// next round inlines
	if in.preNormalise(cands) {
		in.notes = append(in.notes, "pre-normalised helper calls in "+pk)
		return true
	}
	did := false
	for _, f := range p.Syntax {
		for _, d := range f.Decls {
			fd, ok := d.(*ast.FuncDecl)
			if !ok || fd.Body == nil {
				continue
			}
			if obj := p.TypesInfo.Defs[fd.Name]; obj != nil && cands[obj] != nil {
				continue // do not rewrite inside a helper that is itself being inlined (next round handles nesting)
			}
			if in.rewriteBlocks(f, fd, fd.Body, cands) {
				did = true
			}
			if in.iifeCalls(f, fd, cands) {
				did = true
			}
		}
	}
	if did {
		// drop closure definitions whose variable is no longer used
		for _, f := range p.Syntax {
			for _, d := range f.Decls {
				if fd, ok := d.(*ast.FuncDecl); ok && fd.Body != nil {
					removeDeadClosures(fd.Body, cands)
				}
			}
		}
		// drop helper declarations that are no longer referenced anywhere in the package: the rules that take
		// inventories over all functions (who may call / who may write) must see each fact once
		for _, cd := range cands {
			if cd.closure {
				continue
			}
			name := cd.obj.Name()
			refs := 0
			for _, f := range p.Syntax {
				ast.Inspect(f, func(n ast.Node) bool {
					switch x := n.(type) {
					case *ast.FuncDecl:
						if p.TypesInfo.Defs[x.Name] == cd.obj {
							return false
						}
					case *ast.Ident:
						if x.Name == name && (p.TypesInfo.Uses[x] == cd.obj || p.TypesInfo.Uses[x] == nil && p.TypesInfo.Defs[x] == nil) {
							refs++
						}
					case *ast.SelectorExpr:
						if x.Sel.Name == name {
							refs++
						}
					}
					return true
				})
			}
			if refs == 0 {
				for _, f := range p.Syntax {
					var keep []ast.Decl
					for _, d := range f.Decls {
						if fd, ok := d.(*ast.FuncDecl); ok && p.TypesInfo.Defs[fd.Name] == cd.obj {
							in.notes = append(in.notes, "removed fully inlined helper "+cd.name)
							continue
						}
						keep = append(keep, d)
					}
					f.Decls = keep
				}
			}
		}
	}
	return did
}

func callsObj(info *types.Info, body *ast.BlockStmt, obj types.Object) bool {
	found := false
	ast.Inspect(body, func(n ast.Node) bool {
		if id, ok := n.(*ast.Ident); ok && info.Uses[id] == obj {
			found = true
		}
		return !found
	})
	return found
}

func removeDeadClosures(body *ast.BlockStmt, cands map[types.Object]*inlCallee) {
	names := map[string]bool{}
	for _, cd := range cands {
		if cd.closure {
			names[cd.obj.Name()] = true
		}
	}
	var visit func(list []ast.Stmt) []ast.Stmt
	visit = func(list []ast.Stmt) []ast.Stmt {
		var out []ast.Stmt
		for _, s := range list {
			if as, ok := s.(*ast.AssignStmt); ok && as.Tok == token.DEFINE && len(as.Lhs) == 1 && len(as.Rhs) == 1 {
				if id, ok := as.Lhs[0].(*ast.Ident); ok && names[id.Name] {
					if _, isFL := as.Rhs[0].(*ast.FuncLit); isFL {
						// still used?
						used := false
						ast.Inspect(body, func(n ast.Node) bool {
							if u, ok := n.(*ast.Ident); ok && u != id && u.Name == id.Name {
								used = true
							}
							return !used
						})
						if !used {
							continue
						}
					}
				}
			}
			out = append(out, s)
		}
		return out
	}
	ast.Inspect(body, func(n ast.Node) bool {
		switch x := n.(type) {
		case *ast.BlockStmt:
			x.List = visit(x.List)
		case *ast.CaseClause:
			x.Body = visit(x.Body)
		case *ast.CommClause:
			x.Body = visit(x.Body)
		}
		return true
	})
}

// rewriteBlocks walks all statement lists of fd and splices inlined bodies.
func (in *inliner) rewriteBlocks(file *ast.File, fd *ast.FuncDecl, body *ast.BlockStmt, cands map[types.Object]*inlCallee) bool {
	did := false
	var doList func(list []ast.Stmt) []ast.Stmt
	doList = func(list []ast.Stmt) []ast.Stmt {
		var out []ast.Stmt
		for i := 0; i < len(list); i++ {
			s := list[i]
			var next ast.Stmt
			if i+1 < len(list) {
				next = list[i+1]
			}
			repl, consumedNext, ok := in.tryInline(file, fd, s, next, cands)
			if ok {
				did = true
				out = append(out, repl...)
				if consumedNext {
					i++
				}
				continue
			}
			out = append(out, s)
		}
		return out
	}
	// `else if c {…}` → `else { if c {…} }` so that the inner if sits in a statement list
	ast.Inspect(body, func(m ast.Node) bool {
		if is, ok := m.(*ast.IfStmt); ok {
			if ei, ok := is.Else.(*ast.IfStmt); ok && mentionsCandidate(in.p.TypesInfo, ei, cands) {
				is.Else = &ast.BlockStmt{List: []ast.Stmt{ei}}
			}
		}
		return true
	})
	var walk func(n ast.Node)
	walk = func(n ast.Node) {
		ast.Inspect(n, func(m ast.Node) bool {
			switch x := m.(type) {
			case *ast.FuncLit:
				// statement lists inside function literals are rewritten too (closures of anchored functions)
				return true
			case *ast.BlockStmt:
				x.List = doList(x.List)
			case *ast.CaseClause:
				x.Body = doList(x.Body)
			case *ast.CommClause:
				x.Body = doList(x.Body)
			}
			return true
		})
	}
	walk(body)
	return did
}

// calleeOf resolves a call expression to an inlinable callee; also returns the receiver expression.
// inlinable: statement-level inlining applies to callees without defer.
func (in *inliner) inlinable(ce *ast.CallExpr, cands map[types.Object]*inlCallee) (*inlCallee, ast.Expr) {
	cd, recv := in.calleeOf(ce, cands)
	if cd != nil && cd.hasDefer {
		return nil, nil
	}
	return cd, recv
}

func (in *inliner) calleeOf(ce *ast.CallExpr, cands map[types.Object]*inlCallee) (*inlCallee, ast.Expr) {
	info := in.p.TypesInfo
	switch f := ce.Fun.(type) {
	case *ast.Ident:
		if cd := cands[info.Uses[f]]; cd != nil {
			return cd, nil
		}
	case *ast.SelectorExpr:
		if sel := info.Selections[f]; sel != nil && sel.Kind() == types.MethodVal {
			if cd := cands[sel.Obj()]; cd != nil && len(sel.Index()) == 1 {
				return cd, f.X
			}
		}
	}
	return nil, nil
}

func isNot(e ast.Expr) (ast.Expr, bool) {
	if u, ok := e.(*ast.UnaryExpr); ok && u.Op == token.NOT {
		return u.X, true
	}
	if p, ok := e.(*ast.ParenExpr); ok {
		return isNot(p.X)
	}
	return e, false
}

func terminating(b *ast.BlockStmt) bool {
	if b == nil || len(b.List) == 0 {
		return false
	}
	switch x := b.List[len(b.List)-1].(type) {
	case *ast.ReturnStmt:
		return true
	case *ast.BranchStmt:
		return true
	case *ast.ExprStmt:
		if ce, ok := x.X.(*ast.CallExpr); ok {
			if id, ok := ce.Fun.(*ast.Ident); ok && id.Name == "panic" {
				return true
			}
		}
	}
	return false
}

func containsLabel(n ast.Node) bool {
	found := false
	if n == nil || reflect.ValueOf(n).IsNil() {
		return false
	}
	ast.Inspect(n, func(m ast.Node) bool {
		if _, ok := m.(*ast.LabeledStmt); ok {
			found = true
		}
		return !found
	})
	return found
}

// tryInline handles one statement (and possibly the error-propagation `if` that follows it).
func (in *inliner) tryInline(file *ast.File, fd *ast.FuncDecl, s, next ast.Stmt, cands map[types.Object]*inlCallee) ([]ast.Stmt, bool, bool) {
	info := in.p.TypesInfo
	switch st := s.(type) {
	case *ast.ExprStmt:
		ce, ok := st.X.(*ast.CallExpr)
		if !ok {
			return nil, false, false
		}
		cd, recv := in.inlinable(ce, cands)
		if cd == nil {
			// g(…, f(args), …): hoist a helper call that is a direct argument when everything evaluated
			// before it is a plain operand (identifier / selector / literal)
			if repl, ok := in.hoistArg(file, ce, cands, func(newCall *ast.CallExpr) ast.Stmt { return &ast.ExprStmt{X: newCall} }); ok {
				return repl, false, true
			}
			return nil, false, false
		}
		ex, ok := in.expand(file, cd, recv, ce, nil, nil)
		if !ok {
			return nil, false, false
		}
		return ex.stmts(nil), false, true
	case *ast.AssignStmt:
		if len(st.Rhs) != 1 {
			return nil, false, false
		}
		ce, ok := st.Rhs[0].(*ast.CallExpr)
		if !ok {
			return nil, false, false
		}
		cd, recv := in.inlinable(ce, cands)
		if cd == nil || cd.sig.Results().Len() != len(st.Lhs) {
			return nil, false, false
		}
		// pre-declare new variables of a define so that threaded branches can assign them
		var pre []ast.Stmt
		assign := &ast.AssignStmt{Lhs: st.Lhs, Tok: token.ASSIGN}
		if st.Tok == token.DEFINE {
			for i, l := range st.Lhs {
				id, ok := l.(*ast.Ident)
				if !ok {
					return nil, false, false
				}
				if id.Name == "_" {
					continue
				}
				if obj := info.Defs[id]; obj != nil {
					te, ok := in.typeExpr(file, cd.sig.Results().At(i).Type())
					if !ok {
						return nil, false, false
					}
					pre = append(pre, &ast.DeclStmt{Decl: &ast.GenDecl{Tok: token.VAR, Specs: []ast.Spec{&ast.ValueSpec{Names: []*ast.Ident{ast.NewIdent(id.Name)}, Type: te}}}})
					pre = append(pre, &ast.AssignStmt{Lhs: []ast.Expr{ast.NewIdent("_")}, Tok: token.ASSIGN, Rhs: []ast.Expr{ast.NewIdent(id.Name)}})
				}
			}
		} else if st.Tok != token.ASSIGN {
			return nil, false, false
		}
		// error propagation threading
		var thread *threadSpec
		if ifs, ok := next.(*ast.IfStmt); ok && ifs.Init == nil && ifs.Else == nil && terminating(ifs.Body) && !containsLabel(ifs.Body) {
			// x, ok := f(); if !ok { … }   (threaded: a `return …, false` of f continues in the branch)
			if ue, isU := ifs.Cond.(*ast.UnaryExpr); isU && ue.Op == token.NOT {
				if xi, ok := ue.X.(*ast.Ident); ok {
					for i, l := range st.Lhs {
						if li, ok := l.(*ast.Ident); ok && li.Name == xi.Name {
							if b, isB := cd.sig.Results().At(i).Type().Underlying().(*types.Basic); isB && b.Kind() == types.Bool {
								thread = &threadSpec{kind: "notok", resIdx: i, lhs: st.Lhs, body: ifs.Body}
							}
						}
					}
				}
			}
			if be, ok := ifs.Cond.(*ast.BinaryExpr); ok && be.Op == token.NEQ {
				if xi, ok := be.X.(*ast.Ident); ok {
					if yi, ok := be.Y.(*ast.Ident); ok && yi.Name == "nil" {
						for i, l := range st.Lhs {
							if li, ok := l.(*ast.Ident); ok && li.Name == xi.Name && types.Identical(cd.sig.Results().At(i).Type(), types.Universe.Lookup("error").Type()) {
								thread = &threadSpec{kind: "err", resIdx: i, lhs: st.Lhs, body: ifs.Body}
							}
						}
					}
				}
			}
		}
		ex, ok := in.expand(file, cd, recv, ce, thread, nil)
		if !ok {
			return nil, false, false
		}
		assign.Rhs = ex.resultExprs()
		out := append(pre, ex.stmts(assign)...)
		if thread != nil && ex.allThreaded {
			return out, true, true // the propagation `if` is dead now
		}
		return out, false, true
	case *ast.ReturnStmt:
		if len(st.Results) != 1 {
			return nil, false, false
		}
		ce, ok := st.Results[0].(*ast.CallExpr)
		if !ok {
			return nil, false, false
		}
		cd, recv := in.inlinable(ce, cands)
		if cd == nil {
			// return g(…, f(args), …): hoist the helper call that is a direct argument
			if repl, ok := in.hoistArg(file, ce, cands, func(newCall *ast.CallExpr) ast.Stmt { return &ast.ReturnStmt{Return: st.Return, Results: []ast.Expr{newCall}} }); ok {
				return repl, false, true
			}
			return nil, false, false
		}
		ex, ok := in.expand(file, cd, recv, ce, nil, nil)
		if !ok {
			return nil, false, false
		}
		return ex.stmts(&ast.ReturnStmt{Results: ex.resultExprs()}), false, true
	case *ast.IfStmt:
		// if x, err := f(); cond { … }  →  { x, err := f(); if cond { … } }   (handled by the AssignStmt case next round)
		if st.Init != nil {
			if as, ok := st.Init.(*ast.AssignStmt); ok && len(as.Rhs) == 1 {
				if ce, ok := as.Rhs[0].(*ast.CallExpr); ok {
					if cd, _ := in.inlinable(ce, cands); cd != nil {
						inner := &ast.IfStmt{Cond: st.Cond, Body: st.Body, Else: st.Else}
						blk := &ast.BlockStmt{List: []ast.Stmt{as, inner}}
						// rewrite inside the new block right away
						blk.List = func() []ast.Stmt {
							repl, consumed, ok := in.tryInline(file, fd, as, inner, cands)
							if !ok {
								return blk.List
							}
							if consumed {
								return repl
							}
							return append(repl, inner)
						}()
						return []ast.Stmt{blk}, false, true
					}
				}
			}
			return nil, false, false
		}
		cond, neg := isNot(st.Cond)
		for {
			pe, isP := cond.(*ast.ParenExpr)
			if !isP {
				break
			}
			cond = pe.X
		}
		ce, ok := cond.(*ast.CallExpr)
		if !ok {
			return nil, false, false
		}
		cd, recv := in.inlinable(ce, cands)
		if cd == nil || cd.sig.Results().Len() != 1 {
			return nil, false, false
		}
		if b, ok := cd.sig.Results().At(0).Type().Underlying().(*types.Basic); !ok || b.Kind() != types.Bool {
			return nil, false, false
		}
		var elseBlk *ast.BlockStmt
		switch e := st.Else.(type) {
		case nil:
		case *ast.BlockStmt:
			elseBlk = e
		default:
			return nil, false, false // else-if chain
		}
		if containsLabel(st.Body) || (elseBlk != nil && containsLabel(elseBlk)) {
			return nil, false, false
		}
		onTrue, onFalse := st.Body, elseBlk
		if neg {
			onTrue, onFalse = elseBlk, st.Body
		}
		thread := &threadSpec{kind: "bool", onTrue: onTrue, onFalse: onFalse}
		ex, ok := in.expand(file, cd, recv, ce, thread, nil)
		if !ok {
			return nil, false, false
		}
		if ex.allThreaded {
			return ex.stmts(nil), false, true
		}
		// fallback: evaluate, then branch
		ex2, ok := in.expand(file, cd, recv, ce, nil, nil)
		if !ok {
			return nil, false, false
		}
		var c ast.Expr = ex2.resultExprs()[0]
		if neg {
			c = &ast.UnaryExpr{Op: token.NOT, X: c}
		}
		return ex2.stmts(&ast.IfStmt{Cond: c, Body: st.Body, Else: st.Else}), false, true
	}
	return nil, false, false
}

type threadSpec struct {
	kind            string // "err" | "bool"
	resIdx          int
	lhs             []ast.Expr
	body            *ast.BlockStmt
	onTrue, onFalse *ast.BlockStmt
}

type expansion struct {
	pre         []ast.Stmt // result temporaries + argument temporaries
	block       *ast.BlockStmt
	label       string
	usedLabel   bool
	results     []string
	allThreaded bool
}

func (e *expansion) resultExprs() []ast.Expr {
	var out []ast.Expr
	for _, r := range e.results {
		out = append(out, ast.NewIdent(r))
	}
	return out
}

// stmts: pre, the inlined block, and the continuation (labelled if some return jumps to it).
func (e *expansion) stmts(cont ast.Stmt) []ast.Stmt {
	out := append([]ast.Stmt{}, e.pre...)
	out = append(out, e.block)
	if cont == nil {
		cont = &ast.EmptyStmt{Implicit: false}
		if !e.usedLabel {
			return out
		}
		cont = &ast.BlockStmt{}
	}
	if e.usedLabel {
		out = append(out, &ast.LabeledStmt{Label: ast.NewIdent(e.label), Stmt: cont})
	} else {
		out = append(out, cont)
	}
	return out
}

func (in *inliner) typeExpr(file *ast.File, t types.Type) (ast.Expr, bool) {
	ok := true
	qf := func(p *types.Package) string {
		if p == in.p.Types {
			return ""
		}
		// existing import name in this file
		for _, imp := range file.Imports {
			path := strings.Trim(imp.Path.Value, "\"")
			if path == p.Path() {
				if imp.Name != nil {
					if imp.Name.Name == "_" || imp.Name.Name == "." {
						ok = false
					}
					return imp.Name.Name
				}
				return p.Name()
			}
		}
		if astutil.AddNamedImport(in.c.Fset, file, "", p.Path()) {
			return p.Name()
		}
		ok = false
		return p.Name()
	}
	s := types.TypeString(t, qf)
	if !ok {
		return nil, false
	}
	e, err := parser.ParseExpr(s)
	if err != nil {
		return nil, false
	}
	return e, true
}

func obviouslyNonNilError(e ast.Expr) bool {
	switch x := e.(type) {
	case *ast.CallExpr:
		switch f := x.Fun.(type) {
		case *ast.Ident:
			return f.Name == "newError"
		case *ast.SelectorExpr:
			if id, ok := f.X.(*ast.Ident); ok {
				return (id.Name == "fmt" && f.Sel.Name == "Errorf") || (id.Name == "errors" && f.Sel.Name == "New")
			}
		}
	case *ast.CompositeLit:
		return true
	case *ast.UnaryExpr:
		return x.Op == token.AND
	}
	return false
}

// expand builds the inlined form of one call.
func (in *inliner) expand(file *ast.File, cd *inlCallee, recv ast.Expr, ce *ast.CallExpr, thread *threadSpec, _ interface{}) (*expansion, bool) {
	in.seq++
	pfx := fmt.Sprintf("_inl%d_", in.seq)
	info := in.p.TypesInfo
	ex := &expansion{label: pfx + "end", block: &ast.BlockStmt{}, allThreaded: thread != nil}
	// free identifiers of a top-level helper must resolve identically at the call site
	if !cd.closure {
		okScope := true
		scope := in.p.Types.Scope().Innermost(ce.Pos())
		ast.Inspect(cd.body, func(n ast.Node) bool {
			id, ok := n.(*ast.Ident)
			if !ok {
				return true
			}
			obj := cd.info.Uses[id]
			if obj == nil {
				return true
			}
			switch o := obj.(type) {
			case *types.PkgName:
				// the caller's file must know the package under the same name
				found := false
				for _, imp := range file.Imports {
					if strings.Trim(imp.Path.Value, "\"") == o.Imported().Path() {
						name := o.Imported().Name()
						if imp.Name != nil {
							name = imp.Name.Name
						}
						found = name == id.Name
					}
				}
				if !found {
					if scope != nil {
						if _, other := scope.LookupParent(id.Name, ce.Pos()); other != nil {
							okScope = false
							return false
						}
					}
					if !astutil.AddNamedImport(in.c.Fset, file, id.Name, o.Imported().Path()) {
						okScope = false
					}
				}
			default:
				if obj.Parent() == in.p.Types.Scope() || obj.Parent() == types.Universe {
					if scope != nil {
						if _, found := scope.LookupParent(id.Name, ce.Pos()); found != obj {
							okScope = false
						}
					}
				}
			}
			return okScope
		})
		if !okScope {
			return nil, false
		}
	}
	rename := map[types.Object]string{}
	// results
	res := cd.sig.Results()
	k := 0
	var resultObjs []types.Object
	if cd.typ.Results != nil {
		for _, f := range cd.typ.Results.List {
			if len(f.Names) == 0 {
				resultObjs = append(resultObjs, nil)
				continue
			}
			for _, n := range f.Names {
				resultObjs = append(resultObjs, cd.info.Defs[n])
			}
		}
	}
	for i := 0; i < res.Len(); i++ {
		name := fmt.Sprintf("%sr%d", pfx, i)
		te, ok := in.typeExpr(file, res.At(i).Type())
		if !ok {
			return nil, false
		}
		ex.results = append(ex.results, name)
		ex.pre = append(ex.pre, &ast.DeclStmt{Decl: &ast.GenDecl{Tok: token.VAR, Specs: []ast.Spec{&ast.ValueSpec{Names: []*ast.Ident{ast.NewIdent(name)}, Type: te}}}})
		ex.pre = append(ex.pre, &ast.AssignStmt{Lhs: []ast.Expr{ast.NewIdent("_")}, Tok: token.ASSIGN, Rhs: []ast.Expr{ast.NewIdent(name)}})
		if i < len(resultObjs) && resultObjs[i] != nil {
			rename[resultObjs[i]] = name
		}
		k++
	}
	// receiver + parameters → typed temporaries evaluated in the caller's scope, in order
	type bind struct {
		obj types.Object
		typ types.Type
		arg ast.Expr
	}
	var binds []bind
	if cd.recv != nil {
		if recv == nil {
			return nil, false
		}
		var robj types.Object
		if len(cd.recv.Names) == 1 {
			robj = cd.info.Defs[cd.recv.Names[0]]
		}
		rt := cd.sig.Recv().Type()
		arg := recv
		at := info.TypeOf(recv)
		_, wantPtr := rt.(*types.Pointer)
		_, havePtr := at.(*types.Pointer)
		if wantPtr && !havePtr {
			arg = &ast.UnaryExpr{Op: token.AND, X: recv}
		} else if !wantPtr && havePtr {
			arg = &ast.StarExpr{X: recv}
		}
		binds = append(binds, bind{robj, rt, arg})
	}
	pi := 0
	if cd.typ.Params != nil {
		for _, f := range cd.typ.Params.List {
			names := f.Names
			if len(names) == 0 {
				names = []*ast.Ident{nil}
			}
			for _, n := range names {
				if pi >= len(ce.Args) {
					return nil, false
				}
				var obj types.Object
				if n != nil {
					obj = cd.info.Defs[n]
				}
				binds = append(binds, bind{obj, cd.sig.Params().At(pi).Type(), ce.Args[pi]})
				pi++
			}
		}
	}
	if pi != len(ce.Args) {
		return nil, false
	}
	for i, b := range binds {
		name := fmt.Sprintf("%sa%d", pfx, i)
		te, ok := in.typeExpr(file, b.typ)
		if !ok {
			return nil, false
		}
		ex.pre = append(ex.pre, &ast.DeclStmt{Decl: &ast.GenDecl{Tok: token.VAR, Specs: []ast.Spec{&ast.ValueSpec{Names: []*ast.Ident{ast.NewIdent(name)}, Type: te, Values: []ast.Expr{b.arg}}}}})
		ex.pre = append(ex.pre, &ast.AssignStmt{Lhs: []ast.Expr{ast.NewIdent("_")}, Tok: token.ASSIGN, Rhs: []ast.Expr{ast.NewIdent(name)}})
		if b.obj != nil {
			rename[b.obj] = name
		}
	}
	// body copy
	body := cloneNode(cd.body, cd.info, rename).(*ast.BlockStmt)
	nres := res.Len()
	// rewrite returns (not inside nested function literals)
	var rewrite func(list []ast.Stmt, last bool) []ast.Stmt
	rewriteStmt := func(s ast.Stmt, isLast bool) []ast.Stmt {
		ret, ok := s.(*ast.ReturnStmt)
		if !ok {
			return []ast.Stmt{s}
		}
		var out []ast.Stmt
		vals := ret.Results
		if len(vals) == 0 && nres > 0 {
			// bare return with named results: values already in the renamed result variables
		} else if len(vals) == nres && nres > 0 {
			lhs := ex.resultExprs()
			out = append(out, &ast.AssignStmt{Lhs: lhs, Tok: token.ASSIGN, Rhs: vals})
		} else if len(vals) == 1 && nres > 1 {
			// return g() with multiple results
			out = append(out, &ast.AssignStmt{Lhs: ex.resultExprs(), Tok: token.ASSIGN, Rhs: vals})
		}
		threaded := false
		if thread != nil && len(vals) == nres {
			switch thread.kind {
			case "err":
				e := vals[thread.resIdx]
				if id, ok := e.(*ast.Ident); ok && id.Name == "nil" {
					// success path: falls to the continuation
				} else if obviouslyNonNilError(e) {
					// assign the caller's variables, then continue in the propagation branch
					out = append(out, &ast.AssignStmt{Lhs: cloneExprs(thread.lhs), Tok: token.ASSIGN, Rhs: ex.resultExprs()})
					out = append(out, cloneNode(thread.body, nil, nil).(*ast.BlockStmt))
					threaded = true
				} else {
					ex.allThreaded = false
				}
			case "notok":
				e := vals[thread.resIdx]
				if id, ok := e.(*ast.Ident); ok && id.Name == "true" {
					// success path: falls to the continuation
				} else if ok && id.Name == "false" {
					out = append(out, &ast.AssignStmt{Lhs: cloneExprs(thread.lhs), Tok: token.ASSIGN, Rhs: ex.resultExprs()})
					out = append(out, cloneNode(thread.body, nil, nil).(*ast.BlockStmt))
					threaded = true
				} else {
					ex.allThreaded = false
				}
			case "bool":
				if id, ok := vals[0].(*ast.Ident); ok && (id.Name == "true" || id.Name == "false") {
					br := thread.onFalse
					if id.Name == "true" {
						br = thread.onTrue
					}
					if br != nil {
						out = append(out, cloneNode(br, nil, nil).(*ast.BlockStmt))
					}
					out = append(out, &ast.BranchStmt{Tok: token.GOTO, Label: ast.NewIdent(ex.label)})
					ex.usedLabel = true
					threaded = true
				} else {
					ex.allThreaded = false
				}
			}
		}
		if !threaded {
			if !isLast {
				out = append(out, &ast.BranchStmt{Tok: token.GOTO, Label: ast.NewIdent(ex.label)})
				ex.usedLabel = true
			}
		}
		return []ast.Stmt{&ast.BlockStmt{List: out}}
	}
	rewrite = func(list []ast.Stmt, last bool) []ast.Stmt {
		var out []ast.Stmt
		for i, s := range list {
			isLast := last && i == len(list)-1
			walkStmt(s, isLast, rewrite)
			out = append(out, rewriteStmt(s, isLast)...)
		}
		return out
	}
	body.List = rewrite(body.List, true)
	ex.block.List = []ast.Stmt{body}
	if thread != nil && thread.kind == "bool" && ex.allThreaded {
		// a body that falls off its end without return is impossible for a bool function
	}
	in.notes = append(in.notes, fmt.Sprintf("inlined %s into %s", cd.name, in.c.Pos(ce.Pos())))
	return ex, true
}

// walkStmt rewrites nested statement lists of s (not entering function literals).
func walkStmt(s ast.Stmt, last bool, rewrite func([]ast.Stmt, bool) []ast.Stmt) {
	switch x := s.(type) {
	case *ast.BlockStmt:
		x.List = rewrite(x.List, last)
	case *ast.IfStmt:
		x.Body.List = rewrite(x.Body.List, last)
		if x.Else != nil {
			walkStmt(x.Else, last, rewrite)
		}
	case *ast.ForStmt:
		x.Body.List = rewrite(x.Body.List, false)
	case *ast.RangeStmt:
		x.Body.List = rewrite(x.Body.List, false)
	case *ast.SwitchStmt:
		for _, c := range x.Body.List {
			cc := c.(*ast.CaseClause)
			cc.Body = rewrite(cc.Body, false)
		}
	case *ast.TypeSwitchStmt:
		for _, c := range x.Body.List {
			cc := c.(*ast.CaseClause)
			cc.Body = rewrite(cc.Body, false)
		}
	case *ast.SelectStmt:
		for _, c := range x.Body.List {
			cc := c.(*ast.CommClause)
			cc.Body = rewrite(cc.Body, false)
		}
	case *ast.LabeledStmt:
		walkStmt(x.Stmt, last, rewrite)
	}
}

func cloneExprs(es []ast.Expr) []ast.Expr {
	var out []ast.Expr
	for _, e := range es {
		out = append(out, cloneNode(e, nil, nil).(ast.Expr))
	}
	return out
}

// cloneNode deep-copies a syntax tree, renaming identifiers that denote the given objects.
func cloneNode(n ast.Node, info *types.Info, rename map[types.Object]string) ast.Node {
	v := cloneValue(reflect.ValueOf(n), info, rename)
	return v.Interface().(ast.Node)
}

var (
	objType   = reflect.TypeOf((*ast.Object)(nil))
	scopeType = reflect.TypeOf((*ast.Scope)(nil))
)

func cloneValue(v reflect.Value, info *types.Info, rename map[types.Object]string) reflect.Value {
	switch v.Kind() {
	case reflect.Ptr:
		if v.IsNil() {
			return v
		}
		if v.Type() == objType || v.Type() == scopeType {
			return reflect.Zero(v.Type())
		}
		if id, ok := v.Interface().(*ast.Ident); ok {
			nid := &ast.Ident{NamePos: id.NamePos, Name: id.Name}
			if info != nil && rename != nil {
				obj := info.Uses[id]
				if obj == nil {
					obj = info.Defs[id]
				}
				if obj != nil {
					if nn, ok := rename[obj]; ok {
						nid.Name = nn
					}
				}
			}
			return reflect.ValueOf(nid)
		}
		nv := reflect.New(v.Type().Elem())
		nv.Elem().Set(cloneValue(v.Elem(), info, rename))
		return nv
	case reflect.Interface:
		if v.IsNil() {
			return v
		}
		c := cloneValue(v.Elem(), info, rename)
		nv := reflect.New(v.Type()).Elem()
		nv.Set(c)
		return nv
	case reflect.Slice:
		if v.IsNil() {
			return v
		}
		nv := reflect.MakeSlice(v.Type(), v.Len(), v.Len())
		for i := 0; i < v.Len(); i++ {
			nv.Index(i).Set(cloneValue(v.Index(i), info, rename))
		}
		return nv
	case reflect.Struct:
		nv := reflect.New(v.Type()).Elem()
		for i := 0; i < v.NumField(); i++ {
			if nv.Field(i).CanSet() {
				nv.Field(i).Set(cloneValue(v.Field(i), info, rename))
			}
		}
		return nv
	}
	return v
}

// ---------------------------------------------------------------------------------------------
// Re-type-checking and SSA construction from the rewritten syntax
// ---------------------------------------------------------------------------------------------

type mapImporter struct {
	m map[string]*types.Package
}

func (mi *mapImporter) Import(path string) (*types.Package, error) {
	if p := mi.m[path]; p != nil {
		return p, nil
	}
	return nil, fmt.Errorf("package %q not loaded", path)
}

func newInfo() *types.Info {
	return &types.Info{
		Types: map[ast.Expr]types.TypeAndValue{}, Defs: map[*ast.Ident]types.Object{}, Uses: map[*ast.Ident]types.Object{},
		Implicits: map[ast.Node]types.Object{}, Selections: map[*ast.SelectorExpr]*types.Selection{}, Scopes: map[ast.Node]*types.Scope{},
		Instances: map[*ast.Ident]types.Instance{}, FileVersions: map[*ast.File]string{},
	}
}

// recheckOne re-type-checks one package against the (unchanged) type packages of its imports.
func recheckOne(c *Ctx, p *packages.Package) bool {
	imp := &mapImporter{m: map[string]*types.Package{}}
	for path, ip := range p.Imports {
		imp.m[path] = ip.Types
	}
	var firstErr error
	conf := types.Config{Importer: imp, Sizes: p.TypesSizes, Error: func(err error) {
		if firstErr == nil {
			firstErr = err
		}
	}}
	info := newInfo()
	tp, _ := conf.Check(p.PkgPath, c.Fset, p.Syntax, info)
	if firstErr != nil || tp == nil {
		if firstErr != nil {
			c.inlineErr = firstErr.Error()
		}
		return false
	}
	p.Types = tp
	p.TypesInfo = info
	return true
}

// rebuildAll re-type-checks every loaded repo package in dependency order (so that all of them refer to the
// same, new type objects) and builds a fresh SSA program.
func rebuildAll(c *Ctx, wantSSA bool) error {
	// topological order over repo packages
	var order []*packages.Package
	seen := map[*packages.Package]bool{}
	var visit func(p *packages.Package)
	visit = func(p *packages.Package) {
		if seen[p] {
			return
		}
		seen[p] = true
		var paths []string
		for path := range p.Imports {
			paths = append(paths, path)
		}
		sort.Strings(paths)
		for _, path := range paths {
			if ip := p.Imports[path]; strings.HasPrefix(ip.PkgPath, modPath) {
				visit(ip)
			}
		}
		order = append(order, p)
	}
	var keys []string
	for k := range c.Pkgs {
		keys = append(keys, k)
	}
	sort.Strings(keys)
	for _, k := range keys {
		visit(c.Pkgs[k])
	}
	newTypes := map[string]*types.Package{}
	for _, p := range order {
		imp := &mapImporter{m: map[string]*types.Package{}}
		for path, ip := range p.Imports {
			if nt := newTypes[ip.PkgPath]; nt != nil {
				imp.m[path] = nt
			} else {
				imp.m[path] = ip.Types
			}
		}
		var firstErr error
		conf := types.Config{Importer: imp, Sizes: p.TypesSizes, Error: func(err error) {
			if firstErr == nil {
				firstErr = err
			}
		}}
		info := newInfo()
		tp, _ := conf.Check(p.PkgPath, c.Fset, p.Syntax, info)
		if firstErr != nil {
			return fmt.Errorf("%s: %v", p.PkgPath, firstErr)
		}
		p.Types, p.TypesInfo = tp, info
		newTypes[p.PkgPath] = tp
	}
	if !wantSSA {
		return nil
	}
	prog := ssa.NewProgram(c.Fset, ssa.InstantiateGenerics)
	created := map[*types.Package]bool{}
	var createDeps func(tp *types.Package)
	createDeps = func(tp *types.Package) {
		if created[tp] {
			return
		}
		created[tp] = true
		for _, ip := range tp.Imports() {
			createDeps(ip)
		}
		if prog.Package(tp) == nil {
			prog.CreatePackage(tp, nil, nil, true)
		}
	}
	c.SSA = map[string]*ssa.Package{}
	for _, p := range order {
		for _, ip := range p.Types.Imports() {
			if !strings.HasPrefix(ip.Path(), modPath) {
				createDeps(ip)
			}
		}
		created[p.Types] = true
		c.SSA[pkgKey(p.PkgPath)] = prog.CreatePackage(p.Types, p.Syntax, p.TypesInfo, true)
	}
	prog.Build()
	c.Prog = prog
	return nil
}

func plainOperand(e ast.Expr) bool {
	switch x := e.(type) {
	case *ast.Ident, *ast.BasicLit:
		return true
	case *ast.SelectorExpr:
		return plainOperand(x.X)
	case *ast.ParenExpr:
		return plainOperand(x.X)
	case *ast.StarExpr:
		return plainOperand(x.X)
	case *ast.UnaryExpr:
		return x.Op == token.AND && plainOperand(x.X)
	}
	return false
}

// hoistArg rewrites  g(a, f(x), b)  into  <inlined f(x) → tmp>; g(a, tmp, b)  for a single-result helper f.
func (in *inliner) hoistArg(file *ast.File, outer *ast.CallExpr, cands map[types.Object]*inlCallee, mk func(*ast.CallExpr) ast.Stmt) ([]ast.Stmt, bool) {
	if !plainOperand(outer.Fun) {
		return nil, false
	}
	for i, a := range outer.Args {
		ce, ok := a.(*ast.CallExpr)
		if !ok {
			if !plainOperand(a) {
				return nil, false
			}
			continue
		}
		cd, recv := in.inlinable(ce, cands)
		if cd == nil || cd.sig.Results().Len() != 1 {
			return nil, false
		}
		ex, ok := in.expand(file, cd, recv, ce, nil, nil)
		if !ok {
			return nil, false
		}
		nc := &ast.CallExpr{Fun: outer.Fun, Lparen: outer.Lparen, Ellipsis: outer.Ellipsis, Rparen: outer.Rparen}
		nc.Args = append(nc.Args, outer.Args[:i]...)
		nc.Args = append(nc.Args, ex.resultExprs()[0])
		nc.Args = append(nc.Args, outer.Args[i+1:]...)
		return ex.stmts(mk(nc)), true
	}
	return nil, false
}

// mentionsCandidate: the condition / init of the if statement calls an inlinable helper.
func mentionsCandidate(info *types.Info, is *ast.IfStmt, cands map[types.Object]*inlCallee) bool {
	found := false
	check := func(n ast.Node) {
		if n == nil || reflect.ValueOf(n).IsNil() {
			return
		}
		ast.Inspect(n, func(m ast.Node) bool {
			switch x := m.(type) {
			case *ast.Ident:
				if cands[info.Uses[x]] != nil {
					found = true
				}
			case *ast.SelectorExpr:
				if sel := info.Selections[x]; sel != nil && cands[sel.Obj()] != nil {
					found = true
				}
			}
			return !found
		})
	}
	check(is.Init)
	check(is.Cond)
	return found
}

func hasDefer(body *ast.BlockStmt) bool {
	found := false
	ast.Inspect(body, func(n ast.Node) bool {
		switch n.(type) {
		case *ast.FuncLit:
			return false
		case *ast.DeferStmt:
			found = true
		}
		return !found
	})
	return found
}

// iifeCalls replaces the remaining calls of helpers that contain `defer` by immediately-invoked function
// literals  func(recv, params) results { body }(recv, args)  — exactly equivalent, in any expression context.
func (in *inliner) iifeCalls(file *ast.File, fd *ast.FuncDecl, cands map[types.Object]*inlCallee) bool {
	did := false
	astutil.Apply(fd.Body, func(cur *astutil.Cursor) bool {
		ce, ok := cur.Node().(*ast.CallExpr)
		if !ok {
			return true
		}
		cd, recv := in.calleeOf(ce, cands)
		if cd == nil || !cd.hasDefer || cd.closure {
			return true
		}
		ft := &ast.FuncType{Params: &ast.FieldList{}}
		rename := map[types.Object]string{}
		var args []ast.Expr
		n := 0
		addParam := func(obj types.Object, t types.Type, arg ast.Expr) bool {
			te, ok := in.typeExpr(file, t)
			if !ok {
				return false
			}
			name := fmt.Sprintf("_iife_p%d", n)
			n++
			if obj != nil {
				rename[obj] = name
			}
			ft.Params.List = append(ft.Params.List, &ast.Field{Names: []*ast.Ident{ast.NewIdent(name)}, Type: te})
			args = append(args, arg)
			return true
		}
		if cd.recv != nil {
			if recv == nil {
				return true
			}
			var robj types.Object
			if len(cd.recv.Names) == 1 {
				robj = cd.info.Defs[cd.recv.Names[0]]
			}
			rt := cd.sig.Recv().Type()
			arg := recv
			at := in.p.TypesInfo.TypeOf(recv)
			_, wantPtr := rt.(*types.Pointer)
			_, havePtr := at.(*types.Pointer)
			if wantPtr && !havePtr {
				arg = &ast.UnaryExpr{Op: token.AND, X: recv}
			} else if !wantPtr && havePtr {
				arg = &ast.StarExpr{X: recv}
			}
			if !addParam(robj, rt, arg) {
				return true
			}
		}
		pi := 0
		if cd.typ.Params != nil {
			for _, f := range cd.typ.Params.List {
				names := f.Names
				if len(names) == 0 {
					names = []*ast.Ident{nil}
				}
				for _, nm := range names {
					if pi >= len(ce.Args) {
						return true
					}
					var obj types.Object
					if nm != nil {
						obj = cd.info.Defs[nm]
					}
					if !addParam(obj, cd.sig.Params().At(pi).Type(), ce.Args[pi]) {
						return true
					}
					pi++
				}
			}
		}
		if cd.sig.Results().Len() > 0 {
			ft.Results = &ast.FieldList{}
			k := 0
			for _, f := range cd.typ.Results.List {
				names := f.Names
				if len(names) == 0 {
					names = []*ast.Ident{nil}
				}
				for _, nm := range names {
					te, ok := in.typeExpr(file, cd.sig.Results().At(k).Type())
					if !ok {
						return true
					}
					fld := &ast.Field{Type: te}
					if nm != nil {
						rn := fmt.Sprintf("_iife_r%d", k)
						rename[cd.info.Defs[nm]] = rn
						fld.Names = []*ast.Ident{ast.NewIdent(rn)}
					}
					ft.Results.List = append(ft.Results.List, fld)
					k++
				}
			}
		}
		body := cloneNode(cd.body, cd.info, rename).(*ast.BlockStmt)
		cur.Replace(&ast.CallExpr{Fun: &ast.FuncLit{Type: ft, Body: body}, Args: args})
		in.notes = append(in.notes, fmt.Sprintf("helper %s (contains defer) expanded as an immediately-invoked function literal at %s", cd.name, in.c.Pos(ce.Pos())))
		did = true
		return false
	}, nil)
	return did
}

// undeferTimerStops: if every defer of body is a top-level `defer x.Stop()` on a *time.Timer / *time.Ticker held in a
// local variable, and every return returns plain operands, a copy of body in which the defers are removed and the
// Stop calls (in reverse order) precede each return and the end of the body.
func undeferTimerStops(info *types.Info, body *ast.BlockStmt) (*ast.BlockStmt, bool) {
	var stops []*ast.CallExpr
	for _, s := range body.List {
		ds, ok := s.(*ast.DeferStmt)
		if !ok {
			continue
		}
		sel, ok := ds.Call.Fun.(*ast.SelectorExpr)
		if !ok || sel.Sel.Name != "Stop" || len(ds.Call.Args) != 0 {
			return nil, false
		}
		id, ok := sel.X.(*ast.Ident)
		if !ok {
			return nil, false
		}
		t := info.TypeOf(id)
		if t == nil || (t.String() != "*time.Timer" && t.String() != "*time.Ticker") {
			return nil, false
		}
		stops = append(stops, ds.Call)
	}
	if len(stops) == 0 {
		return nil, false
	}
	// no other defers (nested), plain returns only
	n := 0
	okRet := true
	ast.Inspect(body, func(m ast.Node) bool {
		switch x := m.(type) {
		case *ast.FuncLit:
			return false
		case *ast.DeferStmt:
			n++
		case *ast.ReturnStmt:
			for _, e := range x.Results {
				if !plainOperand(e) {
					okRet = false
				}
			}
		}
		return true
	})
	if n != len(stops) || !okRet {
		return nil, false
	}
	// edit in place (the original identifier nodes keep their type information; copies of the Stop calls are
	// registered with the objects of the originals)
	nb := body
	var list []ast.Stmt
	for _, s := range nb.List {
		if _, ok := s.(*ast.DeferStmt); !ok {
			list = append(list, s)
		}
	}
	nb.List = list
	copyCall := func(ce *ast.CallExpr) *ast.CallExpr {
		sel := ce.Fun.(*ast.SelectorExpr)
		id := sel.X.(*ast.Ident)
		nid := &ast.Ident{NamePos: id.NamePos, Name: id.Name}
		if obj := info.Uses[id]; obj != nil {
			info.Uses[nid] = obj
		}
		nsel := &ast.Ident{NamePos: sel.Sel.NamePos, Name: sel.Sel.Name}
		if obj := info.Uses[sel.Sel]; obj != nil {
			info.Uses[nsel] = obj
		}
		return &ast.CallExpr{Fun: &ast.SelectorExpr{X: nid, Sel: nsel}, Lparen: ce.Lparen, Rparen: ce.Rparen}
	}
	mk := func() []ast.Stmt {
		var out []ast.Stmt
		for i := len(stops) - 1; i >= 0; i-- {
			out = append(out, &ast.ExprStmt{X: copyCall(stops[i])})
		}
		return out
	}
	var fix func(list []ast.Stmt) []ast.Stmt
	fix = func(list []ast.Stmt) []ast.Stmt {
		var out []ast.Stmt
		for _, s := range list {
			if _, ok := s.(*ast.ReturnStmt); ok {
				out = append(out, mk()...)
			}
			out = append(out, s)
		}
		return out
	}
	ast.Inspect(nb, func(m ast.Node) bool {
		switch x := m.(type) {
		case *ast.FuncLit:
			return false
		case *ast.BlockStmt:
			x.List = fix(x.List)
		case *ast.CaseClause:
			x.Body = fix(x.Body)
		case *ast.CommClause:
			x.Body = fix(x.Body)
		}
		return true
	})
	if len(nb.List) == 0 || !terminating(nb) {
		nb.List = append(nb.List, mk()...)
	}
	return nb, true
}
