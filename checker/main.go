// gmvcheck: repository-specific static checker for the 20 gomavlib properties.
// It never executes gomavlib code: every verdict is computed from the parsed, type-checked and
// SSA-lowered source of /repo's current working tree.
package main

import (
	"flag"
	"fmt"
	"go/token"
	"os"
	"sort"
	"strconv"
	"strings"
	"time"

	"golang.org/x/tools/go/ssa"
)

type propDef struct {
	ID       string
	Patterns []string // packages to load
	Run      func(c *Ctx)
}

var props = map[string]*propDef{}

// verifDir: where evidence, known findings and the seeded catalogue live.
var verifDir = "/verif"

func register(id string, patterns []string, run func(c *Ctx)) {
	props[id] = &propDef{ID: id, Patterns: patterns, Run: run}
}

var corePkgs = []string{".", "./pkg/frame", "./pkg/message", "./pkg/x25", "./pkg/dialect", "./pkg/streamwriter", "./pkg/tlog", "./pkg/timednetconn"}

func main() {
	prop := flag.String("prop", "", "property id (C01..C20)")
	tier := flag.String("tier", "quick", "quick|thorough")
	repo := flag.String("repo", "/repo", "repository root")
	verif := flag.String("verif", "/verif", "verif dir (evidence, known findings)")
	dump := flag.String("dump", "", "debug: dump SSA of <pkgkey>:<func> with provenance renderings")
	layout := flag.String("layout", "", "debug: print symbolic byte layouts / hash input of <pkgkey>:<func>")
	genKnown := flag.Bool("gen-known", false, "print known_funcs.go for the tree at -repo (reference snapshot of function names)")
	pats := flag.String("patterns", "", "debug: comma separated package patterns for -dump")
	flag.Parse()

	start := time.Now()
	verifDir = *verif
	if *genKnown {
		noInlineGlobal = true
		c, err := LoadRepo(*repo, append(append([]string{}, corePkgs...), "./pkg/conversion"), false)
		if err != nil {
			fmt.Println("load error:", err)
			os.Exit(2)
		}
		genKnownFuncs(c)
		return
	}
	if *layout != "" {
		c, err := LoadRepo(*repo, corePkgs, true)
		if err != nil {
			fmt.Println("load error:", err)
			os.Exit(2)
		}
		c.R = NewReport("dump", "quick")
		fn := c.Funcs[*layout]
		bi := newBufInterp(c, fn, func(v ssa.Value) bool { return ex(v) == "arg1" || strings.HasSuffix(ex(v), ".Payload") }, nil)
		bi.run()
		for root, cs := range bi.cells {
			fmt.Println("buffer", ex(root))
			for _, l := range layoutOf(cs) {
				fmt.Println("   ", l)
			}
		}
		for h, cs := range bi.emits {
			fmt.Println("hash", ex(h))
			for _, cl := range cs {
				fmt.Println("   ", cl.val, cl.cond)
			}
		}
		fmt.Println("undecided:", bi.undec)
		return
	}
	if *dump != "" {
		p := corePkgs
		if *pats != "" {
			p = strings.Split(*pats, ",")
		}
		c, err := LoadRepo(*repo, p, true)
		if err != nil {
			fmt.Println("load error:", err)
			os.Exit(2)
		}
		c.R = NewReport("dump", "quick")
		dumpFn(c, *dump)
		return
	}
	pd := props[*prop]
	if pd == nil {
		var ids []string
		for id := range props {
			ids = append(ids, id)
		}
		sort.Strings(ids)
		fmt.Printf("CHECK-BROKEN: unknown property %q (known: %v)\n", *prop, ids)
		os.Exit(2)
	}
	seed := int64(0)
	if s := os.Getenv("VERIF_SEED"); s != "" {
		seed, _ = strconv.ParseInt(s, 10, 64)
	}
	if t := os.Getenv("VERIF_TIER"); t == "thorough" || t == "quick" {
		if !isFlagSet("tier") {
			*tier = t
		}
	}
	rep := NewReport(pd.ID, *tier)
	code := func() (code int) {
		defer func() {
			if e := recover(); e != nil {
				fmt.Printf("CHECK-BROKEN: property=%s analyzer panic: %v\n", pd.ID, e)
				code = 2
			}
		}()
		c, err := LoadRepo(*repo, pd.Patterns, true)
		if err != nil {
			fmt.Printf("CHECK-BROKEN: property=%s load failure: %v\n", pd.ID, err)
			rep.Broken("load", "packages", err.Error())
			return rep.Finish(*verif, seed, start)
		}
		c.R = rep
		// what the normalisation passes did to the program before it was analysed (rename.go, inline.go)
		for _, n := range c.InlineNotes {
			rep.Notes = append(rep.Notes, "normalisation: "+n)
		}
		if os.Getenv("GMV_NOTES") != "" {
			for _, n := range c.InlineNotes {
				fmt.Println("NOTE:", n)
			}
		}
		for k := range c.Pkgs {
			rep.Packages = append(rep.Packages, k)
		}
		sort.Strings(rep.Packages)
		pd.Run(c)
		if f := os.Getenv("GMV_OBLS"); f != "" {
			// debug: print the obligations whose rule / construct contains the given text
			for _, o := range rep.Obls {
				if strings.Contains(o.Rule+" "+o.Construct, f) {
					fmt.Printf("OBL: %s [%s] %s: %s (%s)\n", o.Status, o.Rule, o.Construct, o.Detail, o.Pos)
				}
			}
		}
		if *tier == "thorough" {
			runThorough(c, pd, *repo)
		}
		return rep.Finish(*verif, seed, start)
	}()
	os.Exit(code)
}

func isFlagSet(name string) bool {
	set := false
	flag.Visit(func(f *flag.Flag) {
		if f.Name == name {
			set = true
		}
	})
	return set
}

func dumpFn(c *Ctx, name string) {
	fn := c.Funcs[name]
	if fn == nil {
		fmt.Println("not found; available:")
		var ks []string
		for k := range c.Funcs {
			ks = append(ks, k)
		}
		sort.Strings(ks)
		for _, k := range ks {
			fmt.Println("  ", k)
		}
		return
	}
	for _, b := range fn.Blocks {
		var succ []string
		for _, s := range b.Succs {
			succ = append(succ, fmt.Sprint(s.Index))
		}
		fmt.Printf("block %d (%s) -> %v\n", b.Index, b.Comment, succ)
		for _, in := range b.Instrs {
			line := c.Pos(in.Pos())
			if v, ok := in.(ssa.Value); ok {
				switch x := in.(type) {
				case *ssa.FieldAddr, *ssa.Extract, *ssa.IndexAddr:
					continue
				case *ssa.UnOp:
					if x.Op == token.MUL {
						continue
					}
				case *ssa.Alloc:
					if spilledValue(x) != nil {
						continue
					}
				}
				fmt.Printf("   %-5s= %s  [%s]\n", v.Name(), ex(v), line)
			} else {
				extra := ""
				switch x := in.(type) {
				case *ssa.Store:
					extra = ex(x.Addr) + " <- " + ex(x.Val)
				case *ssa.If:
					extra = "if " + ex(x.Cond)
				case *ssa.Return:
					var r []string
					for _, v := range x.Results {
						r = append(r, ex(v))
					}
					extra = "return " + strings.Join(r, ", ")
				case *ssa.Send:
					extra = ex(x.Chan) + " <- " + ex(x.X)
				case ssa.CallInstruction:
					st := &exState{seen: map[ssa.Value]bool{}}
					extra = st.call(x.Common())
				}
				if extra == "" {
					extra = in.String()
				}
				fmt.Printf("          %s  [%s]\n", extra, line)
			}
		}
	}
}
