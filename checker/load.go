package main

import (
	"fmt"
	"go/ast"
	"go/token"
	"go/types"
	"os"
	"sort"
	"strings"

	"golang.org/x/tools/go/packages"
	"golang.org/x/tools/go/ssa"
	"golang.org/x/tools/go/ssa/ssautil"
)

const modPath = "github.com/bluenviron/gomavlib/v3"

// noInlineGlobal disables the helper see-through (used for the fallback load and by -gen-known).
var noInlineGlobal bool

// Ctx is the loaded, type-checked, SSA-lowered view of /repo's working tree.
type Ctx struct {
	RepoDir string
	Fset    *token.FileSet
	Pkgs    map[string]*packages.Package // key: path relative to module ("root", "pkg/frame", ...)
	Prog    *ssa.Program
	SSA     map[string]*ssa.Package
	Funcs   map[string]*ssa.Function // key: "<pkgkey>:<Recv.>Name" (anonymous: parent$N)
	AllFns  []*ssa.Function          // every source function of the loaded repo packages (incl. anonymous)
	R       *Report
	Env     []string

	inlineErr   string
	InlineNotes []string
	Renamed     map[string]string // struct fields renamed back: reference name → name in the tree
	noInline    bool
}

func pkgKey(importPath string) string {
	if importPath == modPath {
		return "root"
	}
	return strings.TrimPrefix(importPath, modPath+"/")
}

func loadEnv(extra ...string) []string {
	env := []string{}
	for _, e := range os.Environ() {
		if strings.HasPrefix(e, "GOWORK=") || strings.HasPrefix(e, "GOFLAGS=") ||
			strings.HasPrefix(e, "GOPROXY=") || strings.HasPrefix(e, "GOSUMDB=") ||
			strings.HasPrefix(e, "GOTOOLCHAIN=") || strings.HasPrefix(e, "GOOS=") ||
			strings.HasPrefix(e, "GOARCH=") {
			continue
		}
		env = append(env, e)
	}
	env = append(env, "GOWORK=off", "GOFLAGS=-mod=mod", "GOPROXY=off", "GOSUMDB=off", "GOTOOLCHAIN=local")
	env = append(env, extra...)
	return env
}

// LoadRepo loads the given package patterns (relative to repo) with full syntax and
// builds SSA for them (function bodies only for the repo's own packages).
func LoadRepo(repo string, patterns []string, wantSSA bool, extraEnv ...string) (*Ctx, error) {
	return LoadRepoOverlay(repo, patterns, wantSSA, nil, extraEnv...)
}

// LoadRepoOverlay is LoadRepo with additional in-memory source files (used to type-check and analyse
// template skeletons as if they were generated files of the repository).
func LoadRepoOverlay(repo string, patterns []string, wantSSA bool, overlay map[string][]byte, extraEnv ...string) (*Ctx, error) {
	c := &Ctx{RepoDir: repo, Fset: token.NewFileSet(), Pkgs: map[string]*packages.Package{},
		SSA: map[string]*ssa.Package{}, Funcs: map[string]*ssa.Function{}}
	c.Env = loadEnv(extraEnv...)
	cfg := &packages.Config{
		Mode: packages.NeedName | packages.NeedFiles | packages.NeedCompiledGoFiles | packages.NeedImports |
			packages.NeedDeps | packages.NeedTypes | packages.NeedSyntax | packages.NeedTypesInfo | packages.NeedTypesSizes | packages.NeedModule,
		Dir:     repo,
		Fset:    c.Fset,
		Env:     c.Env,
		Tests:   false,
		Overlay: overlay,
	}
	pkgs, err := packages.Load(cfg, patterns...)
	if err != nil {
		return nil, fmt.Errorf("packages.Load: %w", err)
	}
	if len(pkgs) == 0 {
		return nil, fmt.Errorf("no packages loaded for %v", patterns)
	}
	var errs []string
	packages.Visit(pkgs, nil, func(p *packages.Package) {
		if !strings.HasPrefix(p.PkgPath, modPath) {
			return
		}
		for _, e := range p.Errors {
			errs = append(errs, e.Error())
		}
	})
	if len(errs) > 0 {
		sort.Strings(errs)
		if len(errs) > 10 {
			errs = errs[:10]
		}
		return nil, fmt.Errorf("type/parse errors in repo packages: %s", strings.Join(errs, "; "))
	}
	// collect every repo package reachable (initial + repo deps)
	var repoPkgs []*packages.Package
	packages.Visit(pkgs, nil, func(p *packages.Package) {
		if strings.HasPrefix(p.PkgPath, modPath) {
			c.Pkgs[pkgKey(p.PkgPath)] = p
			repoPkgs = append(repoPkgs, p)
		}
	})
	sort.Slice(repoPkgs, func(i, j int) bool { return repoPkgs[i].PkgPath < repoPkgs[j].PkgPath })
	// see-through for helpers that do not exist on the reference tree (inline.go)
	inlined := false
	if !noInlineGlobal {
		// renamed identifiers are given their reference names back first (rename.go)
		renamed, rnotes := renameBack(c)
		if len(renamed) > 0 {
			if err := rebuildAll(c, false); err != nil {
				noInlineGlobal = true
				c2, err2 := LoadRepoOverlay(repo, patterns, wantSSA, overlay, extraEnv...)
				noInlineGlobal = false
				if err2 != nil {
					return nil, err2
				}
				c2.InlineNotes = append(rnotes, "rename normalisation abandoned (renamed program does not type-check: "+err.Error()+"); analysed as written")
				return c2, nil
			}
		}
		changed, notes := inlinePackages(c)
		notes = append(rnotes, notes...)
		changed = changed || len(renamed) > 0
		c.InlineNotes = notes
		if changed {
			if err := rebuildAll(c, wantSSA); err != nil {
				// fall back to the program as written
				noInlineGlobal = true
				c2, err2 := LoadRepoOverlay(repo, patterns, wantSSA, overlay, extraEnv...)
				noInlineGlobal = false
				if err2 != nil {
					return nil, err2
				}
				c2.InlineNotes = append(notes, "helper see-through abandoned (rewritten program does not type-check: "+err.Error()+"); analysed as written")
				return c2, nil
			}
			inlined = true
		}
	}
	if !wantSSA {
		return c, nil
	}
	if !inlined {
		prog, spkgs := ssautil.Packages(repoPkgs, ssa.InstantiateGenerics)
		for i, sp := range spkgs {
			if sp == nil {
				return nil, fmt.Errorf("no SSA package for %s", repoPkgs[i].PkgPath)
			}
			c.SSA[pkgKey(repoPkgs[i].PkgPath)] = sp
		}
		prog.Build()
		c.Prog = prog
	}
	prog := c.Prog
	// index functions
	for fn := range ssautil.AllFunctions(prog) {
		if fn.Pkg == nil || fn.Synthetic != "" {
			continue
		}
		if !strings.HasPrefix(fn.Pkg.Pkg.Path(), modPath) {
			continue
		}
		if fn.Blocks == nil {
			continue
		}
		c.AllFns = append(c.AllFns, fn)
		c.Funcs[pkgKey(fn.Pkg.Pkg.Path())+":"+fnLocalName(fn)] = fn
	}
	allFnsGlobal = c.AllFns
	sort.Slice(c.AllFns, func(i, j int) bool {
		a, b := c.AllFns[i], c.AllFns[j]
		if a.Pkg.Pkg.Path() != b.Pkg.Pkg.Path() {
			return a.Pkg.Pkg.Path() < b.Pkg.Pkg.Path()
		}
		return a.Pos() < b.Pos()
	})
	return c, nil
}

// fnLocalName is "Recv.Name" for methods (pointer-ness dropped), "Name" for functions,
// "Parent$N" for anonymous functions.
func fnLocalName(fn *ssa.Function) string {
	if fn.Parent() != nil {
		p := fnLocalName(fn.Parent())
		n := fn.Name()
		if i := strings.LastIndex(n, "$"); i >= 0 {
			n = n[i:]
		}
		return p + n
	}
	if recv := fn.Signature.Recv(); recv != nil {
		t := recv.Type()
		if pt, ok := t.(*types.Pointer); ok {
			t = pt.Elem()
		}
		if nt, ok := t.(*types.Named); ok {
			return nt.Obj().Name() + "." + fn.Name()
		}
	}
	return fn.Name()
}

// fnQual is "<pkgkey>:<local name>".
func fnQual(fn *ssa.Function) string {
	if fn == nil {
		return "<nil>"
	}
	if fn.Pkg == nil {
		if fn.Parent() != nil {
			return fnQual(fn.Parent()) + "$anon"
		}
		return fn.String()
	}
	return pkgKey(fn.Pkg.Pkg.Path()) + ":" + fnLocalName(fn)
}

// Fn resolves an anchored function; an unresolved anchor is recorded as a broken check.
func (c *Ctx) Fn(pkg, name string) *ssa.Function {
	fn := c.Funcs[pkg+":"+name]
	if fn == nil {
		c.R.Broken("anchor", pkg+":"+name, "anchored function not found in /repo (renamed or removed?)")
	}
	return fn
}

// FnOpt resolves a function without recording a failure.
func (c *Ctx) FnOpt(pkg, name string) *ssa.Function { return c.Funcs[pkg+":"+name] }

// Obj resolves a package-level object.
func (c *Ctx) Obj(pkg, name string) types.Object {
	p := c.Pkgs[pkg]
	if p == nil {
		c.R.Broken("anchor", pkg, "package not loaded")
		return nil
	}
	o := p.Types.Scope().Lookup(name)
	if o == nil {
		c.R.Broken("anchor", pkg+"."+name, "package-level object not found")
	}
	return o
}

// Field resolves a struct field object.
func (c *Ctx) Field(pkg, typ, field string) *types.Var {
	o := c.Obj(pkg, typ)
	if o == nil {
		return nil
	}
	st, ok := o.Type().Underlying().(*types.Struct)
	if !ok {
		c.R.Broken("anchor", pkg+"."+typ, "not a struct")
		return nil
	}
	for i := 0; i < st.NumFields(); i++ {
		if st.Field(i).Name() == field {
			return st.Field(i)
		}
	}
	c.R.Broken("anchor", pkg+"."+typ+"."+field, "field not found")
	return nil
}

func (c *Ctx) Pos(p token.Pos) string {
	if !p.IsValid() {
		return "-"
	}
	pos := c.Fset.Position(p)
	f := strings.TrimPrefix(pos.Filename, c.RepoDir+"/")
	return fmt.Sprintf("%s:%d", f, pos.Line)
}

// FuncDecl returns the AST declaration of a package-level function/method.
func (c *Ctx) FuncDecl(pkg, name string) (*ast.FuncDecl, *packages.Package) {
	p := c.Pkgs[pkg]
	if p == nil {
		return nil, nil
	}
	for _, f := range p.Syntax {
		for _, d := range f.Decls {
			fd, ok := d.(*ast.FuncDecl)
			if !ok {
				continue
			}
			n := fd.Name.Name
			if fd.Recv != nil && len(fd.Recv.List) == 1 {
				t := fd.Recv.List[0].Type
				if st, ok := t.(*ast.StarExpr); ok {
					t = st.X
				}
				if id, ok := t.(*ast.Ident); ok {
					n = id.Name + "." + n
				}
			}
			if n == name {
				return fd, p
			}
		}
	}
	return nil, p
}
