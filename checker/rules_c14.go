package main

import (
	"fmt"
	"go/token"
	"go/types"
	"strings"

	"golang.org/x/tools/go/ssa"
)

func init() { register("C14", []string{".", "./pkg/timednetconn"}, runC14) }

func runC14(c *Ctx) {
	r := c.R
	r.NotDecided = append(r.NotDecided,
		"timing (2 s delay, idle expiry at 60 s) and behaviour under real fault sequences",
		"that the server keeps accepting after a transient Accept error (today any Accept error parks the provider until termination, by design per the source comment)")
	m := buildTermModel(c)
	// after a read failure the channel is torn down and reported whatever the writer is doing (= R12.4)
	defer ruleChannelTeardown(c, m, "R14.6")
	defer ruleEveryPeerAccepted(c, "R14.7")

	// R14.1
	r.Rule("R14.1", "deadline armed afresh per call: in timednetconn.conn.Read / Write (and wrappedPacketConn.Write) the I/O call on the wrapped connection is dominated, in the same invocation and unconditionally, by "+
		"Set{Read,Write}Deadline(time.Now().Add(<the matching timeout field>)) on the same connection, whose error is returned; New stores its parameters in the like-named fields and both call sites pass (IdleTimeout, WriteTimeout, conn)", 6)
	type dl struct{ pkg, fn, conn, set, io, field string }
	for _, d := range []dl{
		{"pkg/timednetconn", "conn.Read", "recv.wrapped", "SetReadDeadline", "Read", "recv.readTimeout"},
		{"pkg/timednetconn", "conn.Write", "recv.wrapped", "SetWriteDeadline", "Write", "recv.writeTimeout"},
		{"root", "wrappedPacketConn.Write", "recv.pc", "SetWriteDeadline", "WriteTo", "recv.writeTimeout"},
	} {
		fn := c.Fn(d.pkg, d.fn)
		if fn == nil {
			continue
		}
		r.Functions[fnQual(fn)] = true
		var set, io []*ssa.Call
		for _, ci := range callsIn(fn, func(n string, cc *ssa.CallCommon) bool { return cc.IsInvoke() }) {
			cc := ci.Common()
			if ex(cc.Value) != d.conn {
				continue
			}
			if call, ok := ci.(*ssa.Call); ok {
				if cc.Method.Name() == d.set {
					set = append(set, call)
				}
				if cc.Method.Name() == d.io {
					io = append(io, call)
				}
			}
		}
		var probs []string
		if len(io) != 1 {
			probs = append(probs, fmt.Sprintf("%d %s calls on the wrapped connection", len(io), d.io))
		}
		if len(set) != 1 {
			probs = append(probs, fmt.Sprintf("%d %s calls (the deadline must be armed exactly once per call)", len(set), d.set))
		}
		if len(io) == 1 && len(set) == 1 {
			if !instrDominates(set[0], io[0]) {
				probs = append(probs, d.set+" does not dominate the "+d.io+": some calls run under a stale or missing deadline (a connection that keeps receiving is closed / an idle one never expires)")
			}
			want := "(time.Time).Add(time.Now()," + d.field + ")"
			if got := ex(set[0].Call.Args[0]); got != want {
				probs = append(probs, "deadline is "+got+", expected "+want)
			}
			if !errReturned(fn, set[0]) {
				probs = append(probs, "the error of "+d.set+" is not returned")
			}
			// the io call must be on the nil edge
			ok := false
			for _, iff := range ifsIn(fn) {
				if _, fb, hit := succWhen(iff, "("+ex(set[0])+" != nil)"); hit && edgeMustPass(fn, edge{iff.Block(), fb}, io[0].Block()) {
					ok = true
				}
			}
			if !ok {
				probs = append(probs, "the I/O is attempted although arming the deadline failed")
			}
		}
		r.Check(len(probs) == 0, "R14.1", d.fn, c.Pos(fn.Pos()), d.set+"(now+"+d.field+") → "+d.io, strings.Join(probs, "; "))
	}
	if nw := c.Fn("pkg/timednetconn", "New"); nw != nil {
		ok := false
		for _, a := range litAllocs(nw, "timednetconn.conn") {
			lf := litFields(a)
			ok = exOrNil(lf["readTimeout"]) == "arg0" && exOrNil(lf["writeTimeout"]) == "arg1" && exOrNil(lf["wrapped"]) == "arg2"
		}
		r.Check(ok, "R14.1", "timednetconn.New", c.Pos(nw.Pos()), "(readTimeout, writeTimeout, wrapped) stored in the like-named fields", "timednetconn.New swaps or drops its parameters")
		n := 0
		for _, cs := range c.callersOf(nw) {
			n++
			a := cs.Call.Common().Args
			okA := ex(a[0]) == "recv.node.IdleTimeout" && ex(a[1]) == "recv.node.WriteTimeout"
			r.Check(okA, "R14.1", fnLocalName(cs.Fn)+" timednetconn.New arguments", c.Pos(cs.Call.Pos()), "idle timeout is the read deadline, write timeout the write deadline",
				"timednetconn.New is called with ("+ex(a[0])+", "+ex(a[1])+"), expected (node.IdleTimeout, node.WriteTimeout)")
		}
		if n < 2 {
			r.Broken("R14.1", "timednetconn.New call sites", fmt.Sprintf("%d call sites, expected server and client", n))
		}
	}
	if pv := c.Fn("root", "endpointUDPBroadcast.provide"); pv != nil {
		ok := false
		for _, a := range litAllocs(pv, "gomavlib.wrappedPacketConn") {
			lf := litFields(a)
			ok = exOrNil(lf["pc"]) == "recv.pc" && exOrNil(lf["writeTimeout"]) == "recv.node.WriteTimeout" && exOrNil(lf["broadcastAddr"]) == "recv.broadcastAddr"
		}
		r.Check(ok, "R14.1", "endpointUDPBroadcast.provide plumbing", c.Pos(pv.Pos()), "wrappedPacketConn{pc, node.WriteTimeout, broadcastAddr}", "the broadcast channel is not built from the endpoint's socket, the node's write timeout and the broadcast address")
	}

	// R14.2
	r.Rule("R10.3", "(shared with C10) Channel.run: exactly one close event after both workers ended, carrying the error received from the reader", 2)
	r.Rule("R10.4", "(shared with C10) runReader returns the transport's read error unchanged and reports every other failure as a parse error event", 3)
	if chRun := c.Fn("root", "Channel.run"); chRun != nil {
		checkCloseEvent(c, chRun)
	}
	if rd := c.Fn("root", "Channel.runReader"); rd != nil {
		checkReaderLoop(c, rd, "R10.4")
	}

	// R14.3
	r.Rule("R14.3", "reconnect loop (endpointClient.provide and endpointSerial.provide, each checked independently): no delay only before the very first connection attempt; on every later call and after every failed connect() a select "+
		"{time.After(reconnectPeriod), <-ctx.Done → errTerminated} is passed before the next connect(); the loop ends only by returning the connection just established or errTerminated on the ctx.Done case; reconnectPeriod is 2 s", 3)
	for _, name := range []string{"endpointClient.provide", "endpointSerial.provide"} {
		fn := c.Fn("root", name)
		if fn == nil {
			continue
		}
		r.Functions[fnQual(fn)] = true
		tname := strings.TrimSuffix(name, ".provide")
		conns := callsNamed(fn, "(gomavlib."+tname+").connect")
		if len(conns) == 0 {
			// connect() written out in the loop: the attempt is the call that yields the connection returned on success
			seen := map[ssa.Instruction]bool{}
			for _, ret := range retInstrs(fn) {
				if len(ret.Results) != 3 || !isNilConst(ret.Results[2]) {
					continue
				}
				if e, ok := ret.Results[1].(*ssa.Extract); ok && e.Index == 0 {
					if call, ok := e.Tuple.(*ssa.Call); ok && !seen[call] {
						seen[call] = true
						conns = append(conns, call)
					}
				}
			}
		}
		if len(conns) == 0 || len(conns) > 3 {
			r.Fail("R14.3", name, c.Pos(fn.Pos()), fmt.Sprintf("%d connect() calls", len(conns)))
			continue
		}
		// several attempt sites (a first attempt followed by a retry loop) are one reconnect loop: every condition below
		// is stated for "an attempt", whichever site makes it
		isAttempt := func(in ssa.Instruction) bool {
			for _, k := range conns {
				if in == ssa.Instruction(k) {
					return true
				}
			}
			return false
		}
		conn := conns[0].(*ssa.Call)
		var probs []string
		isDelay := func(in ssa.Instruction) bool {
			s, ok := in.(*ssa.Select)
			if !ok || !s.Blocking {
				return false
			}
			for _, st := range s.States {
				if cs := ex(st.Chan); st.Dir == types.RecvOnly && (cs == "time.After(gomavlib.reconnectPeriod)" || cs == "time.NewTimer(gomavlib.reconnectPeriod).C") {
					return true
				}
			}
			return false
		}
		// reachWithout: is `conn` reachable from the start of block b without passing a delay select?
		reachWithout := func(b *ssa.BasicBlock) bool {
			seen := map[*ssa.BasicBlock]bool{b: true}
			st := []*ssa.BasicBlock{b}
			for len(st) > 0 {
				x := st[len(st)-1]
				st = st[:len(st)-1]
				stopped := false
				for _, in := range x.Instrs {
					if isDelay(in) {
						stopped = true
						break
					}
					if isAttempt(in) {
						return true
					}
				}
				if stopped {
					continue
				}
				for _, sc := range x.Succs {
					if !seen[sc] {
						seen[sc] = true
						st = append(st, sc)
					}
				}
			}
			return false
		}
		// first flag
		var firstIf *ssa.If
		var later, first *ssa.BasicBlock
		for _, iff := range ifsIn(fn) {
			if tb, fb, hit := succWhen(iff, "recv.first"); hit {
				firstIf, later, first = iff, tb, fb
			}
		}
		if firstIf == nil {
			probs = append(probs, "no `first` test: either the first attempt is delayed or reconnections are not")
		} else {
			if reachWithout(later) {
				probs = append(probs, "a later call reaches connect() without waiting reconnectPeriod")
			}
			// on the first call the flag is set before connecting
			isSet := func(in ssa.Instruction) bool {
				st, ok := in.(*ssa.Store)
				return ok && ex(st.Addr) == "&recv.first" && ex(st.Val) == "true"
			}
			unset := false
			if len(first.Instrs) > 0 {
				if isSet(first.Instrs[0]) {
					unset = false
				} else if _, ok := pathExistsAvoiding(first.Instrs[0], isAttempt, isSet); ok || isAttempt(first.Instrs[0]) {
					unset = true
				}
			}
			if unset {
				probs = append(probs, "the first-call flag is never set: every reconnection happens without delay")
			}
			// and the first call itself is not delayed: connect reachable from the first-call edge without a delay
			if !reachWithout(first) {
				probs = append(probs, "the very first connection attempt is delayed")
			}
		}
		// after a failed attempt: the test of its error (directly, or of the variable that joins the errors of all sites)
		errOf := map[ssa.Value]bool{}
		valOf := map[ssa.Value]bool{}
		for _, k := range conns {
			for _, rf := range *k.(*ssa.Call).Referrers() {
				if e, ok := rf.(*ssa.Extract); ok {
					if e.Index == 1 {
						errOf[e] = true
					} else if e.Index == 0 {
						valOf[e] = true
					}
				}
			}
		}
		joins := func(v ssa.Value, set map[ssa.Value]bool) bool {
			if set[v] {
				return true
			}
			p, ok := v.(*ssa.Phi)
			if !ok {
				return false
			}
			for _, e := range p.Edges {
				if !set[e] {
					return false
				}
			}
			return len(p.Edges) > 0
		}
		type guard struct {
			iff               *ssa.If
			failed, succeeded *ssa.BasicBlock
		}
		var guards []guard
		for _, iff := range ifsIn(fn) {
			b, ok := iff.Cond.(*ssa.BinOp)
			if !ok || !isNilConst(b.Y) || !joins(b.X, errOf) {
				continue
			}
			switch b.Op {
			case token.NEQ:
				guards = append(guards, guard{iff, iff.Block().Succs[0], iff.Block().Succs[1]})
			case token.EQL:
				guards = append(guards, guard{iff, iff.Block().Succs[1], iff.Block().Succs[0]})
			}
		}
		if len(guards) == 0 {
			probs = append(probs, "the connect error is not tested")
		}
		for _, g := range guards {
			if reachWithout(g.failed) {
				probs = append(probs, "after a failed connection attempt the next attempt is made without waiting reconnectPeriod (busy loop)")
			}
			again := false
			for _, k := range conns {
				if reachFrom(g.failed, nil, nil)[k.Block()] || g.failed == k.Block() {
					again = true
				}
			}
			if !again {
				probs = append(probs, "after a failed connection attempt no further attempt is made")
			}
		}
		// returns
		for _, ret := range retInstrs(fn) {
			if len(ret.Results) != 3 {
				continue
			}
			e := ex(ret.Results[2])
			switch {
			case e == "nil":
				if !joins(ret.Results[1], valOf) {
					probs = append(probs, "success return does not hand out the connection just established")
				}
				okEdge := len(guards) == 0
				for _, g := range guards {
					if edgeMustPass(fn, edge{g.iff.Block(), g.succeeded}, ret.Block()) {
						okEdge = true
					}
				}
				if !okEdge {
					probs = append(probs, "success return reachable although connect failed")
				}
			case e == "gomavlib.errTerminated":
				// must be the ctx.Done case of a select
				okCase := false
				for _, in := range allInstrs(fn) {
					s, ok := in.(*ssa.Select)
					if !ok {
						continue
					}
					for i, st := range s.States {
						if k, _ := m.classify(st.Chan); k == "ctx" || k == "term" {
							if cb := selectCaseBlock(s, i); cb != nil && (cb == ret.Block() || reachFrom(cb, nil, nil)[ret.Block()]) && edgeMustPassBlock(fn, cb, ret.Block()) {
								okCase = true
							}
						}
					}
				}
				if !okCase {
					probs = append(probs, "errTerminated is returned at "+c.Pos(ret.Pos())+" although the endpoint was not closed (not on a ctx.Done case): the provider stops for good and the endpoint never reconnects")
				}
			default:
				probs = append(probs, "provide returns the error "+e+" (the provider panics on anything but errTerminated)")
			}
		}
		_ = conn
		r.Check(len(probs) == 0, "R14.3", name, c.Pos(fn.Pos()), "first attempt immediate, later attempts after reconnectPeriod, exits only with a connection or on close", strings.Join(probs, "; "))
		// connect(): errors are the dial/open error, never errTerminated
		if cf := c.FnOpt("root", tname+".connect"); cf != nil {
			bad := false
			for k := range returnSet(cf, 1) {
				if strings.Contains(k, "errTerminated") {
					bad = true
				}
			}
			r.Check(!bad, "R14.3", tname+".connect errors", c.Pos(cf.Pos()), "connect reports the dial/open error", "connect() can return errTerminated for a mere connection failure: the reconnect loop would stop")
		}
	}
	if ini := c.InitFn("root"); ini != nil {
		ok := false
		for _, in := range allInstrs(ini) {
			if st, isSt := in.(*ssa.Store); isSt && ex(st.Addr) == "&gomavlib.reconnectPeriod" {
				ok = ex(st.Val) == "2000000000"
			}
		}
		nOther := 0
		for _, fn := range rootFns(c) {
			for _, in := range allInstrs(fn) {
				if st, isSt := in.(*ssa.Store); isSt && ex(st.Addr) == "&gomavlib.reconnectPeriod" {
					nOther++
				}
			}
		}
		r.Check(ok && nOther == 0, "R14.3", "reconnectPeriod", "-", "2 s, never reassigned", "reconnectPeriod is not 2 s / is reassigned at run time")
	}

	// R14.4
	r.Rule("R14.4", "one channel at a time: in channelProvider.run, on the true edge of endpoint.oneChannelAtAtime() the next provide() is reachable only through a receive from the done signal of the channel just created (or the function returns on terminate); "+
		"ch.done is closed only by Channel.run's deferred close (after the close event); client, serial, custom and broadcast endpoints answer true, the server false", 7)
	if run := c.Fn("root", "channelProvider.run"); run != nil {
		r.Functions[fnQual(run)] = true
		var one *ssa.If
		var oneYes *ssa.BasicBlock
		for _, iff := range ifsIn(run) {
			if tb, _, hit := succWhen(iff, "(gomavlib.Endpoint).oneChannelAtAtime(recv.endpoint)"); hit {
				one, oneYes = iff, tb
			}
		}
		pvs := callsIn(run, func(n string, cc *ssa.CallCommon) bool { return cc.IsInvoke() && cc.Method.Name() == "provide" })
		if one == nil || len(pvs) != 1 {
			r.Fail("R14.4", "channelProvider.run wait", c.Pos(run.Pos()), "no oneChannelAtAtime() test / provide call in the provider loop: client endpoints can have two channels open at once")
		} else {
			var lit *ssa.Alloc
			for _, a := range litAllocs(run, "gomavlib.Channel") {
				lit = a
			}
			okWait := false
			for _, in := range allInstrs(run) {
				sel, isSel := in.(*ssa.Select)
				if !isSel || !sel.Blocking || lit == nil {
					continue
				}
				for i, st := range sel.States {
					if st.Dir == types.RecvOnly && ex(st.Chan) == strings.TrimPrefix(ex(lit), "&")+".done" {
						cb := selectCaseBlock(sel, i)
						// from the true edge, provide reachable only via this case block
						if cb != nil {
							reach := reachFrom(oneYes, nil, map[*ssa.BasicBlock]bool{cb: true})
							if !reach[pvs[0].Block()] {
								okWait = true
							}
						}
					}
				}
			}
			r.Check(okWait, "R14.4", "channelProvider.run wait", c.Pos(one.Pos()), "next provide() only after <-ch.done of the channel just created", "with a one-channel-at-a-time endpoint the next provide() is reachable without waiting for the previous channel's done signal: two channels can be open at once")
			// channel literal plumbing + newChannel
			if lit != nil {
				lf := litFields(lit)
				p := ex(pvs[0].(*ssa.Call))
				okL := exOrNil(lf["node"]) == "recv.node" && exOrNil(lf["endpoint"]) == "recv.endpoint" && exOrNil(lf["label"]) == p+"#0" && exOrNil(lf["rwc"]) == p+"#1"
				nReg := 0
				for _, nc := range callsNamed(run, "(gomavlib.Node).newChannel") {
					if ex(nc.Common().Args[1]) == ex(lit) {
						nReg++
					}
				}
				for _, in := range allInstrs(run) {
					// newChannel in line: the hand-over select to the node loop
					if sel, isSel := in.(*ssa.Select); isSel && sel.Blocking {
						for _, st := range sel.States {
							if st.Dir == types.SendOnly && strings.HasSuffix(ex(st.Chan), ".chNewChannel") && ex(st.Send) == ex(lit) {
								nReg++
							}
						}
					}
				}
				okL = okL && nReg == 1
				r.Check(okL, "R14.4", "channelProvider.run channel construction", c.Pos(lit.Pos()), "Channel{node, endpoint, label, rwc from provide()} registered with newChannel", "the channel is not built from what provide() returned / not registered with the node")
			}
			// error handling: only errTerminated breaks
			okErr := false
			for _, iff := range ifsIn(run) {
				if _, _, _, hit := succWhenFunc(iff, func(cs string) bool {
					return strings.HasPrefix(cs, "errors.Is(") && strings.HasSuffix(cs, ",gomavlib.errTerminated)")
				}); hit {
					okErr = true
				}
			}
			r.Check(okErr, "R14.4", "channelProvider.run termination", c.Pos(run.Pos()), "loop ends only on errTerminated", "the provider loop does not distinguish errTerminated")
		}
	}
	doneF := c.Field("root", "Channel", "done")
	if doneF != nil {
		sites := m.closeSite[doneF]
		ok := len(sites) == 1 && fnLocalName(sites[0].Parent()) == "Channel.run"
		if ok {
			_, ok = sites[0].(*ssa.Defer)
		}
		r.Check(ok, "R14.4", "Channel.done close site", "-", "closed only by Channel.run's deferred close", "ch.done must be closed exactly once, by a defer in Channel.run (after the close event)")
	}
	for _, e := range []struct {
		t    string
		want string
	}{{"endpointClient", "true"}, {"endpointSerial", "true"}, {"endpointCustom", "true"}, {"endpointUDPBroadcast", "true"}, {"endpointServer", "false"}} {
		fn := c.Fn("root", e.t+".oneChannelAtAtime")
		if fn == nil {
			continue
		}
		rs := returnSet(fn, 0)
		r.Check(len(rs) == 1 && rs[e.want], "R14.4", e.t+".oneChannelAtAtime", c.Pos(fn.Pos()), "== "+e.want, fmt.Sprintf("%s.oneChannelAtAtime returns %v, expected %s", e.t, keysOf(rs), e.want))
	}

	// R14.5
	r.Rule("R14.5", "one channel per peer: endpointServer.provide performs one Accept per call and returns the accepted connection (wrapped with the deadlines); on an Accept error it waits for termination and returns errTerminated", 1)
	if pv := c.Fn("root", "endpointServer.provide"); pv != nil {
		r.Functions[fnQual(pv)] = true
		acc := callsIn(pv, func(n string, cc *ssa.CallCommon) bool { return cc.IsInvoke() && cc.Method.Name() == "Accept" })
		var probs []string
		if len(acc) != 1 || inLoop(acc[0].Block()) || ex(acc[0].Common().Value) != "recv.listener" {
			probs = append(probs, "not exactly one Accept on the endpoint's listener per call")
		} else {
			a := ex(acc[0].(*ssa.Call))
			for _, ret := range retInstrs(pv) {
				if len(ret.Results) != 3 {
					continue
				}
				if isNilConst(ret.Results[2]) {
					if got := ex(ret.Results[1]); !strings.HasPrefix(got, "timednetconn.New(") || !strings.HasSuffix(got, ","+a+"#0)") {
						probs = append(probs, "the channel's transport is "+got+", not the accepted connection wrapped with deadlines")
					}
				} else if ex(ret.Results[2]) != "gomavlib.errTerminated" {
					probs = append(probs, "provide returns "+ex(ret.Results[2]))
				}
			}
		}
		r.Check(len(probs) == 0, "R14.5", "endpointServer.provide", c.Pos(pv.Pos()), "one accepted peer → one channel", strings.Join(probs, "; "))
	}
}

// blockHas: block b contains an instruction satisfying pred before `before` (if before is in b) / anywhere.
func blockHas(b *ssa.BasicBlock, pred func(ssa.Instruction) bool, before ssa.Instruction) bool {
	for _, in := range b.Instrs {
		if in == before {
			return false
		}
		if pred(in) {
			return true
		}
	}
	return false
}

// edgeMustPassBlock: every path from entry to target passes block via.
func edgeMustPassBlock(fn *ssa.Function, via, target *ssa.BasicBlock) bool {
	if via == target {
		return true
	}
	return !reachFrom(fn.Blocks[0], nil, map[*ssa.BasicBlock]bool{via: true})[target]
}

// ruleEveryPeerAccepted (R14.7): a server endpoint gives every peer its own channel. The listeners are created
// without a filter on who may connect: the UDP listener is udp.Listen, or a udp.ListenConfig whose AcceptFilter is
// unset (a filter on the first datagram refuses peers whose datagrams are not frame-aligned, e.g. serial-to-UDP
// bridges), and every connection returned by Accept is handed on (no error-free path of provide drops it).
func ruleEveryPeerAccepted(c *Ctx, rule string) {
	r := c.R
	r.Rule(rule, "server endpoints give every peer a channel: the UDP listener is created without an accept filter (udp.Listen, or udp.ListenConfig with AcceptFilter unset) and endpointServer.provide returns the connection Accept yielded", 2)
	ini := c.Fn("root", "endpointServer.initialize")
	prov := c.Fn("root", "endpointServer.provide")
	if ini == nil || prov == nil {
		return
	}
	r.Functions[fnQual(ini)] = true
	r.Functions[fnQual(prov)] = true
	n, bad := 0, ""
	for _, fn := range append([]*ssa.Function{ini}, ini.AnonFuncs...) {
		for _, ci := range callsIn(fn, func(nm string, _ *ssa.CallCommon) bool {
			return nm == "udp.Listen" || nm == "(udp.ListenConfig).Listen"
		}) {
			n++
			if calleeName(ci.Common()) == "(udp.ListenConfig).Listen" {
				a := underlyingAlloc(ci.Common().Args[0])
				if a == nil {
					bad = "the UDP listener is created from a configuration the rule cannot read at " + c.Pos(ci.Pos())
					continue
				}
				if v := litFields(a)["AcceptFilter"]; v != nil && !isNilConst(v) {
					bad = "the UDP listener at " + c.Pos(ci.Pos()) + " has an AcceptFilter: a peer whose first datagram does not pass it never gets a channel (datagram boundaries need not be frame boundaries)"
				}
			}
		}
	}
	if n == 0 {
		bad = "no UDP listener creation (udp.Listen / udp.ListenConfig.Listen) found in endpointServer.initialize"
	}
	r.Check(bad == "", rule, "endpointServer UDP listener", c.Pos(ini.Pos()), "no accept filter", bad)
	// provide: the accepted connection is what is returned with a nil error
	okRet, nRet := true, 0
	for _, ret := range retInstrs(prov) {
		if len(ret.Results) != 3 || !isNilConst(ret.Results[2]) {
			continue
		}
		nRet++
		if !strings.Contains(ex(ret.Results[1]), ".Accept(") {
			okRet = false
		}
	}
	r.Check(okRet && nRet > 0, rule, "endpointServer.provide hands on what Accept yields", c.Pos(prov.Pos()), "the accepted connection (wrapped with the timeouts) is returned", "endpointServer.provide does not return the connection obtained from Accept on its successful path")
}
