package main

import (
	"fmt"
	"go/token"
	"go/types"
	"sort"
	"strings"

	"golang.org/x/tools/go/ssa"
)

func init() {
	register("C16", []string{".", "./pkg/dialects/minimal", "./pkg/dialects/common"}, runC16)
}

// skipGuards: for an initialize() function, the set of If-conditions (with polarity) whose edge leads only to
// `return errSkip`.
func skipGuards(fn *ssa.Function) map[string]bool {
	out := map[string]bool{}
	onlySkip := func(b *ssa.BasicBlock) bool {
		ret, ok := b.Instrs[len(b.Instrs)-1].(*ssa.Return)
		return ok && len(ret.Results) == 1 && ex(ret.Results[0]) == "gomavlib.errSkip"
	}
	for _, iff := range ifsIn(fn) {
		for v, idx := range condVariants(iff.Cond) {
			if onlySkip(iff.Block().Succs[idx]) {
				out[v] = true
			}
		}
	}
	return out
}

// setUintTable: FieldByName(name).SetUint(value) calls of fn: name -> value rendering, plus the object rendering.
func setUintTable(fn *ssa.Function) (map[string]string, map[string]string) {
	vals, objs := map[string]string{}, map[string]string{}
	for _, ci := range callsNamed(fn, "(reflect.Value).SetUint") {
		a := ci.Common().Args
		fb, ok := a[0].(*ssa.Call)
		if !ok || calleeName(&fb.Call) != "(reflect.Value).FieldByName" {
			continue
		}
		name := strings.Trim(ex(fb.Call.Args[1]), "\"")
		vals[name] = ex(a[1])
		objs[name] = ex(fb.Call.Args[0])
	}
	return vals, objs
}

func structFieldKinds(c *Ctx, pkg, typ string) map[string]string {
	out := map[string]string{}
	o := c.Obj(pkg, typ)
	if o == nil {
		return out
	}
	st, ok := o.Type().Underlying().(*types.Struct)
	if !ok {
		return out
	}
	for i := 0; i < st.NumFields(); i++ {
		out[st.Field(i).Name()] = typeStr(st.Field(i).Type().Underlying())
	}
	return out
}

func runC16(c *Ctx) {
	r := c.R
	defer ruleLoopNonBlocking(c, "R16.5")
	defer ruleHeartbeatPacing(c, "R16.7")
	defer borrowRules(c, "C14", runC14, map[string]string{"R14.4": "R16.6"}, "the rate-limit table is keyed by the channel object: a reconnection must be a new channel, or the first heartbeat on it is taken for a repeat")
	r.NotDecided = append(r.NotDecided,
		"spacing of heartbeats by the period and the 30 s window in real time",
		"counts of requests over arrival histories (R16.3 decides the per-arrival decision, not the history)")
	hbI := c.Fn("root", "nodeHeartbeat.initialize")
	hbR := c.Fn("root", "nodeHeartbeat.run")
	srI := c.Fn("root", "nodeStreamRequest.initialize")
	oef := c.Fn("root", "nodeStreamRequest.onEventFrame")
	ini := c.Fn("root", "Node.Initialize")
	if hbI == nil || hbR == nil || srI == nil || oef == nil || ini == nil {
		return
	}
	for _, f := range []*ssa.Function{hbI, hbR, srI, oef} {
		r.Functions[fnQual(f)] = true
	}

	// R16.1
	r.Rule("R16.1", "enablement: nodeHeartbeat.initialize returns errSkip when heartbeats are disabled, no dialect is set, the dialect has no message with id 0, or that message's codec fails / has CRC_EXTRA ≠ 50; "+
		"nodeStreamRequest.initialize likewise when not enabled and additionally for REQUEST_DATA_STREAM (id 66, CRC_EXTRA 148); Node.Initialize drops a module that returned errSkip and starts only non-nil modules; "+
		"runReader calls the stream-request hook only when the module exists", 14)
	for _, k := range []struct{ name, val string }{{"heartbeatID", "0"}, {"heartbeatCRC", "50"}, {"requestDataStreamID", "66"}, {"requestDataStreamCRC", "148"}, {"streamRequestPeriod", "30000000000"}} {
		if o := c.Obj("root", k.name); o != nil {
			if cst, ok := o.(*types.Const); ok {
				r.Check(cst.Val().ExactString() == k.val, "R16.1", k.name, c.Pos(o.Pos()), "== "+k.val, k.name+" evaluates to "+cst.Val().ExactString()+", the standard value is "+k.val)
			}
		}
	}
	hg := skipGuards(hbI)
	for _, g := range []struct{ cond, what string }{
		{"recv.node.HeartbeatDisable", "heartbeats disabled"},
		{"(recv.node.Dialect == nil)", "no dialect"},
		{"(recv.msgHeartbeat == nil)", "dialect without a message with id 0"},
		{"((message.ReadWriter).Initialize(&lit:message.ReadWriter) != nil)", "heartbeat codec cannot be built"},
		{"((message.ReadWriter).CRCExtra(&lit:message.ReadWriter) != 50)", "id-0 message is not the standard HEARTBEAT (CRC_EXTRA 50)"},
	} {
		r.Check(hg[g.cond], "R16.1", "nodeHeartbeat.initialize skip: "+g.what, c.Pos(hbI.Pos()), "→ errSkip", "the heartbeat module is not skipped when: "+g.what+" (heartbeats would be sent / the ticker would panic on a non-standard message)")
	}
	sg := skipGuards(srI)
	for _, g := range []struct{ cond, what string }{
		{"!recv.node.StreamRequestEnable", "stream requests not enabled"},
		{"(recv.node.Dialect == nil)", "no dialect"},
		{"(recv.msgHeartbeat == nil)", "no heartbeat in the dialect"},
		{"(recv.msgRequestDataStream == nil)", "no REQUEST_DATA_STREAM in the dialect"},
		{"((message.ReadWriter).CRCExtra(&lit:message.ReadWriter) != 50)", "non-standard heartbeat"},
		{"((message.ReadWriter).CRCExtra(&lit:message.ReadWriter) != 148)", "non-standard REQUEST_DATA_STREAM (CRC_EXTRA 148)"},
	} {
		r.Check(sg[g.cond], "R16.1", "nodeStreamRequest.initialize skip: "+g.what, c.Pos(srI.Pos()), "→ errSkip", "the stream-request module is not skipped when: "+g.what)
	}
	// the message finders compare GetID with the right constants
	for _, f := range []struct {
		fn   *ssa.Function
		want []string
	}{{hbI, []string{"0"}}, {srI, []string{"0", "66"}}} {
		var got []string
		for _, cl := range c.AllFns {
			if cl.Parent() != f.fn && cl != f.fn {
				continue // the finder is a closure of the initialiser, or a loop written out in it
			}
			for _, iff := range ifsIn(cl) {
				s := ex(iff.Cond)
				if strings.HasPrefix(s, "((message.Message).GetID(") && strings.Contains(s, " == ") {
					got = append(got, strings.TrimSuffix(s[strings.LastIndex(s, " == ")+4:], ")"))
				}
			}
		}
		sort.Strings(got)
		r.Check(strings.Join(got, ",") == strings.Join(f.want, ","), "R16.1", fnLocalName(f.fn)+" message lookup ids", c.Pos(f.fn.Pos()), "looks up ids "+strings.Join(got, ","), fmt.Sprintf("standard messages are looked up by ids %v, expected %v", got, f.want))
	}
	// Node.Initialize: errSkip → nil; go only under != nil
	for _, mod := range []string{"nodeHeartbeat", "nodeStreamRequest"} {
		okNil := false
		for _, st := range storesTo(ini, func(a string) bool { return a == "&recv."+mod }) {
			if isNilConst(st.Val) {
				for _, iff := range ifsIn(ini) {
					if tb, _, _, hit := succWhenFunc(iff, func(cs string) bool { return strings.HasPrefix(cs, "errors.Is((gomavlib."+mod+").initialize(") }); hit && edgeMustPass(ini, edge{iff.Block(), tb}, st.Block()) {
						okNil = true
					}
				}
			}
		}
		okGo := false
		for _, g := range goStmts(ini) {
			if _, n := goTarget(g); n == "(gomavlib."+mod+").run" {
				for _, iff := range ifsIn(ini) {
					if tb, _, hit := succWhen(iff, "(recv."+mod+" != nil)"); hit && edgeMustPass(ini, edge{iff.Block(), tb}, g.Block()) {
						okGo = true
					}
				}
			}
		}
		r.Check(okNil && okGo, "R16.1", "Node.Initialize "+mod+" enablement", c.Pos(ini.Pos()), "errSkip → module dropped; run() started only for a kept module",
			fmt.Sprintf("module %s: dropped on errSkip: %v; run() started only when non-nil: %v", mod, okNil, okGo))
	}
	if rd := c.Fn("root", "Channel.runReader"); rd != nil {
		ok := false
		for _, ci := range callsNamed(rd, "(gomavlib.nodeStreamRequest).onEventFrame") {
			for _, iff := range ifsIn(rd) {
				if tb, _, hit := succWhen(iff, "(recv.node.nodeStreamRequest != nil)"); hit && edgeMustPass(rd, edge{iff.Block(), tb}, ci.Block()) {
					ok = true
				}
			}
		}
		r.Check(ok, "R16.1", "runReader stream-request hook guard", c.Pos(rd.Pos()), "hook called only when the module exists", "onEventFrame is called without testing that the stream-request module exists")
		// … and whenever it exists: every condition that guards the hook is the outcome of the read or the existence of
		// the module (which frames trigger requests is decided inside onEventFrame — R16.3 — not by the caller)
		var extra []string
		reads := callsNamed(rd, "(frame.Reader).Read")
		for _, ci := range callsNamed(rd, "(gomavlib.nodeStreamRequest).onEventFrame") {
			for _, iff := range ifsIn(rd) {
				for idx := 0; idx < 2; idx++ {
					if iff.Block().Succs[0] == iff.Block().Succs[1] || !edgeMustPass(rd, edge{iff.Block(), iff.Block().Succs[idx]}, ci.Block()) {
						continue
					}
					cs := ex(iff.Cond)
					okGuard := strings.Contains(cs, ".nodeStreamRequest")
					for _, rdc := range reads {
						if strings.Contains(cs, ex(rdc.(*ssa.Call))+"#1") {
							okGuard = true // the read's own error result
						}
					}
					if !okGuard {
						extra = append(extra, cs+" ("+c.Pos(iff.Pos())+")")
					}
				}
			}
		}
		r.Check(len(extra) == 0, "R16.1", "runReader stream-request hook reachability", c.Pos(rd.Pos()), "every frame read reaches the hook when the module exists",
			"the stream-request hook is additionally guarded by "+strings.Join(extra, ", ")+": heartbeats of some senders never reach the module, which the property does not allow to depend on anything but (id 0, ArduPilot, 30 s)")
	}

	// R16.2
	r.Rule("R16.2", "heartbeat content: Type ← HeartbeatSystemType, Autopilot ← HeartbeatAutopilotType, BaseMode ← 0, CustomMode ← 0, SystemStatus ← 4 (active), MavlinkVersion ← Dialect.Version, each name an unsigned field of the standard "+
		"HEARTBEAT struct, set on a fresh instance of the dialect's own heartbeat type and sent to all channels; the ticker uses HeartbeatPeriod; defaults: period 5 s, system type 6, request frequency 4", 5)
	vals, objs := setUintTable(hbR)
	if len(vals) == 0 {
		// built once at initialisation and kept in the module (its content depends on the configuration only; every send
		// encodes it afresh): the same content rule applies to what initialize builds
		vals, objs = setUintTable(hbI)
	}
	want := map[string]string{"Type": "uint64(recv.node.HeartbeatSystemType)", "Autopilot": "uint64(recv.node.HeartbeatAutopilotType)", "BaseMode": "0", "CustomMode": "0", "SystemStatus": "4", "MavlinkVersion": "uint64(recv.node.Dialect.Version)"}
	kinds := structFieldKinds(c, "pkg/dialects/minimal", "MessageHeartbeat")
	var probs []string
	for n, w := range want {
		if vals[n] != w {
			probs = append(probs, fmt.Sprintf("%s ← %s (expected %s)", n, orStr(vals[n], "<never set>"), w))
		}
	}
	for n := range vals {
		if _, ok := want[n]; !ok {
			probs = append(probs, "unexpected field "+n+" set")
		}
		k, ok := kinds[n]
		if !ok {
			probs = append(probs, "the standard HEARTBEAT has no field "+n+" (FieldByName returns the zero Value: panic at the first tick)")
		} else if !strings.HasPrefix(k, "uint") {
			probs = append(probs, "field "+n+" is "+k+", SetUint panics")
		}
		if objs[n] != "(reflect.Value).Elem(reflect.New((reflect.Type).Elem(reflect.TypeOf(recv.msgHeartbeat))))" {
			probs = append(probs, "field "+n+" is set on "+objs[n])
		}
	}
	sort.Strings(probs)
	r.Check(len(probs) == 0, "R16.2", "nodeHeartbeat.run content", c.Pos(hbR.Pos()), "six fields per the configuration", strings.Join(probs, "; "))
	sends := callsNamed(hbR, "(gomavlib.Node).WriteMessageAll")
	okSend := len(sends) == 1 && strings.HasPrefix(ex(sends[0].Common().Args[1]), "(reflect.Value).Interface(reflect.New((reflect.Type).Elem(reflect.TypeOf(recv.msgHeartbeat))))")
	r.Check(okSend, "R16.2", "nodeHeartbeat.run send", c.Pos(hbR.Pos()), "the built message goes to WriteMessageAll", "the heartbeat built is not the message handed to WriteMessageAll (exactly once per tick)")
	tk := callsNamed(hbR, "time.NewTicker")
	r.Check(len(tk) == 1 && ex(tk[0].Common().Args[0]) == "recv.node.HeartbeatPeriod", "R16.2", "nodeHeartbeat.run period", c.Pos(hbR.Pos()), "ticker period = HeartbeatPeriod", "the heartbeat ticker does not use node.HeartbeatPeriod")
	// one send per tick: the send is in the ticker case of the loop select
	if len(sends) == 1 {
		okCase := false
		for _, in := range allInstrs(hbR) {
			if s, ok := in.(*ssa.Select); ok {
				for i, st := range s.States {
					if strings.HasSuffix(ex(st.Chan), ".C") {
						if cb := selectCaseBlock(s, i); cb != nil && (cb == sends[0].Block() || reachFrom(cb, nil, map[*ssa.BasicBlock]bool{s.Block(): true})[sends[0].Block()]) {
							okCase = true
						}
					}
				}
			}
		}
		r.Check(okCase, "R16.2", "nodeHeartbeat.run tick", c.Pos(hbR.Pos()), "one heartbeat per tick", "the heartbeat is not sent in the ticker case of the loop")
	}
	defaults := map[string]string{"&recv.HeartbeatPeriod": "5000000000", "&recv.HeartbeatSystemType": "6", "&recv.StreamRequestFrequency": "4"}
	for addr, w := range defaults {
		ok := false
		for _, st := range storesTo(ini, func(a string) bool { return a == addr }) {
			if ex(st.Val) == w {
				for _, iff := range ifsIn(ini) {
					if tb, _, hit := succWhen(iff, "("+strings.TrimPrefix(addr, "&")+" == 0)"); hit && tb == st.Block() {
						ok = true
					}
				}
			}
		}
		r.Check(ok, "R16.2", "Node.Initialize default "+strings.TrimPrefix(addr, "&recv."), c.Pos(ini.Pos()), "zero value → "+w, "default of "+strings.TrimPrefix(addr, "&recv.")+" is not "+w+" when unset")
	}

	// R16.3
	r.Rule("R16.3", "request trigger: onEventFrame returns early unless the message id is 0 and its Autopilot field is 3 (ArduPilot); the rate-limit key contains the channel, the system id and the component id of the sender; "+
		"a request is made iff the key is absent or now − last ≥ streamRequestPeriod (30 s), and the table is updated on exactly those paths, under the mutex", 3)
	early := map[string]bool{}
	earlyPass := map[string]edge{} // filter condition → the edge on which the filter lets the frame pass
	for _, iff := range ifsIn(oef) {
		for v, idx := range condVariants(iff.Cond) {
			tb := iff.Block().Succs[idx]
			if ret, ok := tb.Instrs[len(tb.Instrs)-1].(*ssa.Return); ok && len(ret.Results) == 0 && len(tb.Instrs) == 1 {
				early[v] = true
				earlyPass[v] = edge{iff.Block(), iff.Block().Succs[1-idx]}
			}
		}
	}
	okID := early["((message.Message).GetID((gomavlib.EventFrame).Message(arg0)) != 0)"]
	okAP := false
	for k := range early {
		if strings.Contains(k, "\"Autopilot\"") && strings.HasSuffix(k, " != 3)") && strings.Contains(k, "(gomavlib.EventFrame).Message(arg0)") {
			okAP = true
		}
	}
	r.Check(okID && okAP, "R16.3", "onEventFrame filter", c.Pos(oef.Pos()), "only HEARTBEAT (id 0) from autopilot 3", fmt.Sprintf("the trigger filter is wrong (returns early unless id == 0: %v; unless Autopilot == 3: %v): other messages / autopilots would trigger requests", okID, okAP))
	// key literal
	keyOK := false
	gotKey := ""
	for _, in := range allInstrs(oef) {
		if a, ok := in.(*ssa.Alloc); ok && typeStr(a.Type().(*types.Pointer).Elem()) == "gomavlib.streamNode" {
			lf := litFields(a)
			gotKey = fmt.Sprintf("Channel=%s SystemID=%s ComponentID=%s", exOrNil(lf["Channel"]), exOrNil(lf["SystemID"]), exOrNil(lf["ComponentID"]))
			keyOK = exOrNil(lf["Channel"]) == "arg0.Channel" && exOrNil(lf["SystemID"]) == "(gomavlib.EventFrame).SystemID(arg0)" && exOrNil(lf["ComponentID"]) == "(gomavlib.EventFrame).ComponentID(arg0)"
			if st, ok := a.Type().(*types.Pointer).Elem().Underlying().(*types.Struct); ok && st.NumFields() != 3 {
				keyOK = false
			}
		}
	}
	r.Check(keyOK, "R16.3", "onEventFrame rate-limit key", c.Pos(oef.Pos()), gotKey, "the rate-limit key must be exactly (channel, system id, component id) of the sender; got "+orStr(gotKey, "no streamNode key")+": senders are conflated or never limited")
	// the rate-limit section: a function (closure or immediately-invoked helper) called from onEventFrame that
	// takes the mutex; its decision is either a captured flag set to true or a `return true`
	var lim *ssa.Function
	var limCall ssa.Value
	for _, in := range allInstrs(oef) {
		call, ok := in.(*ssa.Call)
		if !ok {
			continue
		}
		var f *ssa.Function
		if mc, ok := call.Call.Value.(*ssa.MakeClosure); ok {
			f = mc.Fn.(*ssa.Function)
		} else if sf := call.Call.StaticCallee(); sf != nil && sf.Blocks != nil && inPkg(sf, "gomavlib/v3") {
			f = sf
		}
		if f != nil && len(callsNamed(f, "(sync.Mutex).Lock")) > 0 {
			lim, limCall = f, call
		}
	}
	// the filter comes first: the rate-limit table is consulted (and updated) only for frames that passed both tests —
	// a non-ArduPilot heartbeat must not use up the sender's 30 s slot
	if lim != nil {
		if lc, ok := limCall.(*ssa.Call); ok {
			var notBefore []string
			for v, e := range earlyPass {
				isID := v == "((message.Message).GetID((gomavlib.EventFrame).Message(arg0)) != 0)"
				isAP := strings.Contains(v, "\"Autopilot\"") && strings.HasSuffix(v, " != 3)")
				if (isID || isAP) && !edgeMustPass(oef, e, lc.Block()) {
					notBefore = append(notBefore, v)
				}
			}
			sort.Strings(notBefore)
			r.Check(len(notBefore) == 0, "R16.3", "onEventFrame filter before rate limit", c.Pos(lc.Pos()), "the rate-limit section runs only for ArduPilot heartbeats",
				"the rate-limit table is consulted / updated before the filter "+strings.Join(notBefore, ", ")+" has been passed: a heartbeat that triggers nothing (other autopilot, other message) uses up the sender's 30 s slot and a following ArduPilot heartbeat gets no requests")
		}
	}
	decision := map[string]bool{} // renderings of the condition value that means "request"
	if lim == nil {
		r.Fail("R16.3", "onEventFrame rate limit", c.Pos(oef.Pos()), "no mutex-protected rate-limit section found")
	} else {
		var probs []string
		// lock held over the whole section
		lk := callsNamed(lim, "(sync.Mutex).Lock")
		if len(lk) != 1 || lk[0].Block() != lim.Blocks[0] {
			probs = append(probs, "the mutex is not taken at the start of the rate-limit section")
		}
		var lkp *ssa.Lookup
		for _, in := range allInstrs(lim) {
			if l, ok := in.(*ssa.Lookup); ok && l.CommaOk && strings.HasSuffix(ex(l.X), ".lastRequests") {
				lkp = l
			}
		}
		if lkp == nil {
			probs = append(probs, "no comma-ok lookup of the sender in lastRequests")
		}
		// decision / table-update instructions and the two kinds of "due" edges
		isDecision := func(in ssa.Instruction) bool {
			switch x := in.(type) {
			case *ssa.Store:
				// decision = true stored into a captured flag or into the (defer-spilled) boolean result
				_, isAlloc := x.Addr.(*ssa.Alloc)
				_, isFree := x.Addr.(*ssa.FreeVar)
				return (isAlloc || isFree) && ex(x.Val) == "true"
			case *ssa.Return:
				return len(x.Results) == 1 && ex(x.Results[0]) == "true"
			}
			return false
		}
		isUpdate := func(in ssa.Instruction) bool {
			mu, ok := in.(*ssa.MapUpdate)
			return ok && strings.HasSuffix(ex(mu.Map), ".lastRequests")
		}
		absent, due := map[edge]bool{}, map[edge]bool{}
		for _, iff := range ifsIn(lim) {
			if lkp != nil {
				if _, ab, hit := succWhen(iff, ex(lkp)+"#1"); hit {
					absent[edge{iff.Block(), ab}] = true
				}
			}
			if tb, _, _, hit := succWhenFunc(iff, func(cs string) bool {
				return strings.Contains(cs, "(time.Time).Sub(") && strings.Contains(cs, ".lastRequests[") && strings.HasSuffix(cs, " >= 30000000000)")
			}); hit {
				due[edge{iff.Block(), tb}] = true
			}
		}
		if len(absent) == 0 {
			probs = append(probs, "no branch on `sender unknown` (comma-ok result of the lastRequests lookup)")
		}
		if len(due) == 0 {
			probs = append(probs, "no branch on `now.Sub(lastRequests[sender]) >= 30 s`")
		}
		nPaths := 0
		seenProb := map[string]bool{}
		okEnum := enumPaths(lim.Blocks[0], nil, 2000, func(path []*ssa.BasicBlock) {
			if isPanicBlock(path[len(path)-1]) {
				return
			}
			nPaths++
			viaAbsent, viaDue := false, false
			for i := 0; i+1 < len(path); i++ {
				e := edge{path[i], path[i+1]}
				viaAbsent = viaAbsent || absent[e]
				viaDue = viaDue || due[e]
			}
			dec, upd := 0, 0
			for _, in := range pathInstrs(path) {
				if isDecision(in) {
					dec++
				}
				if isUpdate(in) {
					upd++
				}
			}
			switch {
			case dec > 0 && !viaAbsent && !viaDue:
				seenProb["a request is triggered on a path that is neither `sender unknown` nor `last request ≥ 30 s ago`"] = true
			case dec == 0 && (viaAbsent || viaDue):
				seenProb["no request is triggered although the sender is unknown / its last request is ≥ 30 s old"] = true
			}
			if dec > 0 && upd == 0 {
				seenProb["a request is triggered without recording its time"] = true
			}
			if dec == 0 && upd > 0 {
				seenProb["the time of the last request is refreshed without a request being made (the sender is never asked again)"] = true
			}
		})
		if !okEnum || nPaths == 0 {
			probs = append(probs, "rate-limit section has too many paths to enumerate")
		}
		probs = append(probs, keysOf(seenProb)...)
		r.Check(len(probs) == 0, "R16.3", "onEventFrame rate limit", c.Pos(lim.Pos()), "request iff unknown sender or ≥ 30 s since the last request; table updated on exactly those paths", strings.Join(probs, "; "))
		if lim.Signature.Results().Len() == 1 {
			decision[ex(limCall)] = true
		}
	}
	// the decision flag: a bool local of onEventFrame captured by the limiter closure (whatever its name)
	flagAllocs := map[ssa.Value]bool{}
	for _, in := range allInstrs(oef) {
		if mc, ok := in.(*ssa.MakeClosure); ok && lim != nil && mc.Fn == ssa.Value(lim) {
			for _, b := range mc.Bindings {
				if a, ok := b.(*ssa.Alloc); ok && typeStr(a.Type()) == "*bool" {
					flagAllocs[a] = true
				}
			}
		}
	}
	for _, in := range allInstrs(oef) {
		if u, ok := in.(*ssa.UnOp); ok && u.Op == token.MUL && flagAllocs[u.X] {
			decision[ex(u)] = true
		}
	}
	underDecision := func(b *ssa.BasicBlock) bool {
		for d := range decision {
			if condTrueAt(oef, d, b) {
				return true
			}
		}
		return false
	}

	// R16.4
	r.Rule("R16.4", "request content: the stream list evaluates to [1,2,3,6,10,11,12]; per stream one REQUEST_DATA_STREAM with TargetSystem/TargetComponent ← the sender's ids, ReqStreamId ← the stream, ReqMessageRate ← StreamRequestFrequency, StartStop ← 1 "+
		"(all unsigned fields of the standard struct), sent with WriteMessageTo to the sender's channel only; exactly one EventStreamRequested for that (channel, system, component) per request, none otherwise", 4)
	var streams []string
	var streamBuf *ssa.Alloc
	for _, in := range allInstrs(oef) {
		if st, ok := in.(*ssa.Store); ok {
			if ia, ok := st.Addr.(*ssa.IndexAddr); ok {
				if a, ok := ia.X.(*ssa.Alloc); ok && a.Comment == "slicelit" {
					if _, isC := constInt(st.Val); isC {
						streams = append(streams, ex(st.Val))
						streamBuf = a
					}
				}
			}
		}
	}
	streamSrc := "local:slicelit[:]["
	if streamBuf == nil {
		// the list hoisted into a package-level array / slice that only the package initialiser writes
		for _, in := range allInstrs(oef) {
			var base ssa.Value
			switch x := in.(type) {
			case *ssa.IndexAddr:
				base = x.X
			case *ssa.Index:
				base = x.X
			}
			if u, ok := base.(*ssa.UnOp); ok && u.Op == token.MUL {
				base = u.X
			}
			g, ok := base.(*ssa.Global)
			if !ok || g.Pkg == nil || token.IsExported(g.Name()) {
				continue
			}
			if vals, ok := globalConstElems(g); ok {
				streams = vals
				streamSrc = shortQual(g.Pkg.Pkg) + "." + g.Name() + "["
			}
		}
	}
	r.Check(strings.Join(streams, ",") == "1,2,3,6,10,11,12", "R16.4", "onEventFrame stream list", c.Pos(oef.Pos()), "[1 2 3 6 10 11 12]", fmt.Sprintf("requested streams are %v, the standard set is [1 2 3 6 10 11 12]", streams))
	rvals, robjs := setUintTable(oef)
	rwant := map[string]string{"TargetSystem": "uint64((gomavlib.EventFrame).SystemID(arg0))", "TargetComponent": "uint64((gomavlib.EventFrame).ComponentID(arg0))",
		"ReqMessageRate": "uint64(recv.node.StreamRequestFrequency)", "StartStop": "1"}
	rk := structFieldKinds(c, "pkg/dialects/common", "MessageRequestDataStream")
	probs = nil
	for n, w := range rwant {
		if rvals[n] != w {
			probs = append(probs, fmt.Sprintf("%s ← %s (expected %s)", n, orStr(rvals[n], "<never set>"), w))
		}
	}
	if v := rvals["ReqStreamId"]; !(strings.HasPrefix(v, "uint64("+streamSrc) || strings.HasPrefix(v, streamSrc)) || len(streams) == 0 {
		probs = append(probs, "ReqStreamId ← "+orStr(v, "<never set>")+" (expected the current element of the stream list)")
	}
	for n := range rvals {
		if k, ok := rk[n]; !ok {
			probs = append(probs, "the standard REQUEST_DATA_STREAM has no field "+n)
		} else if !strings.HasPrefix(k, "uint") {
			probs = append(probs, "field "+n+" is "+k)
		}
		if robjs[n] != "(reflect.Value).Elem(reflect.New((reflect.Type).Elem(reflect.TypeOf(recv.msgRequestDataStream))))" {
			probs = append(probs, "field "+n+" set on "+robjs[n])
		}
	}
	if len(rvals) != 5 {
		probs = append(probs, fmt.Sprintf("%d fields set, expected 5", len(rvals)))
	}
	sort.Strings(probs)
	r.Check(len(probs) == 0, "R16.4", "onEventFrame request content", c.Pos(oef.Pos()), "five fields per request", strings.Join(probs, "; "))
	wt := callsNamed(oef, "(gomavlib.Node).WriteMessageTo")
	okTo := len(wt) == 1 && ex(wt[0].Common().Args[1]) == "arg0.Channel" && inLoop(wt[0].Block())
	other := len(callsNamed(oef, "(gomavlib.Node).WriteMessageAll", "(gomavlib.Node).WriteMessageExcept", "(gomavlib.Node).WriteFrameAll", "(gomavlib.Node).WriteFrameTo", "(gomavlib.Node).WriteFrameExcept"))
	r.Check(okTo && other == 0, "R16.4", "onEventFrame request destination", c.Pos(oef.Pos()), "WriteMessageTo(sender's channel), once per stream", "stream requests are not sent with WriteMessageTo to the sender's channel only")
	// event
	pe := callsNamed(oef, "(gomavlib.Node).pushEvent")
	okEv := len(pe) == 1 && !inLoop(pe[0].Block())
	if okEv {
		a := underlyingAlloc(pe[0].Common().Args[1])
		okEv = a != nil && typeStr(a.Type().(*types.Pointer).Elem()) == "gomavlib.EventStreamRequested"
		if okEv {
			lf := litFields(a)
			okEv = exOrNil(lf["Channel"]) == "arg0.Channel" && exOrNil(lf["SystemID"]) == "(gomavlib.EventFrame).SystemID(arg0)" && exOrNil(lf["ComponentID"]) == "(gomavlib.EventFrame).ComponentID(arg0)"
		}
		// under `request`
		okEv = okEv && underDecision(pe[0].Block())
		for _, w := range wt {
			okEv = okEv && underDecision(w.Block())
		}
	}
	r.Check(okEv, "R16.4", "onEventFrame stream-requested event", c.Pos(oef.Pos()), "one EventStreamRequested{channel, system, component} per request", "exactly one EventStreamRequested carrying the sender's (channel, system id, component id) must be pushed per request, and requests/events only when a request was decided")
}

// bcond: conjunction of conditions controlling block b (debug helper reused for a polarity test).
func bcond(fn *ssa.Function, b *ssa.BasicBlock) string {
	var parts []string
	for _, iff := range ifsIn(fn) {
		if edgeMustPass(fn, edge{iff.Block(), iff.Block().Succs[0]}, b) {
			parts = append(parts, ex(iff.Cond))
		}
	}
	return strings.Join(parts, " && ")
}

// globalConstElems: the constant elements of a private package-level array or slice that is written only by the
// package initialiser (element by element from constants) and whose address is not handed out.
func globalConstElems(g *ssa.Global) ([]string, bool) {
	byIdx := map[int64]string{}
	ok := true
	var lit *ssa.Alloc
	elemStores := func(base ssa.Value, refs *[]ssa.Instruction) {
		if refs == nil {
			return
		}
		for _, rf := range *refs {
			ia, isIA := rf.(*ssa.IndexAddr)
			if !isIA || ia.X != base || ia.Referrers() == nil {
				continue
			}
			for _, rr := range *ia.Referrers() {
				if st, isSt := rr.(*ssa.Store); isSt && st.Addr == ssa.Value(ia) {
					k, isK := constInt(ia.Index)
					if _, isC := constInt(st.Val); !isK || !isC || st.Parent().Name() != "init" {
						ok = false
						continue
					}
					byIdx[k] = ex(st.Val)
				}
			}
		}
	}
	fns := append([]*ssa.Function{}, allFnsGlobal...)
	if ini := g.Pkg.Func("init"); ini != nil {
		fns = append(fns, ini) // the synthetic package initialiser is not part of the indexed source functions
	}
	for _, fn := range fns {
		if fn.Pkg != g.Pkg {
			continue
		}
		for _, in := range allInstrs(fn) {
			for _, op := range in.Operands(nil) {
				if *op != ssa.Value(g) {
					continue
				}
				switch x := in.(type) {
				case *ssa.UnOp:
					// load (slice header / whole array): reads only
				case *ssa.IndexAddr:
					if x.Referrers() != nil {
						for _, rr := range *x.Referrers() {
							switch y := rr.(type) {
							case *ssa.Store:
								if y.Addr != ssa.Value(x) || fn.Name() != "init" {
									ok = false
								} else if k, isK := constInt(x.Index); isK {
									if _, isC := constInt(y.Val); isC {
										byIdx[k] = ex(y.Val)
									} else {
										ok = false
									}
								} else {
									ok = false
								}
							case *ssa.UnOp, *ssa.DebugRef:
							default:
								ok = false
							}
						}
					}
				case *ssa.Store:
					if x.Addr != ssa.Value(g) || fn.Name() != "init" {
						ok = false
						continue
					}
					// slice global: g ← slicelit[:]
					if sl, isSl := x.Val.(*ssa.Slice); isSl {
						if a, isA := sl.X.(*ssa.Alloc); isA && lit == nil {
							lit = a
							elemStores(a, a.Referrers())
							continue
						}
					}
					ok = false
				case *ssa.Slice, *ssa.Range, *ssa.DebugRef:
				default:
					ok = false
				}
			}
		}
	}
	if !ok || len(byIdx) == 0 {
		return nil, false
	}
	var out []string
	for i := int64(0); i < int64(len(byIdx)); i++ {
		v, has := byIdx[i]
		if !has {
			return nil, false
		}
		out = append(out, v)
	}
	return out, true
}

// ruleHeartbeatPacing (R16.7): heartbeats are spaced by the configured period whatever else the node is doing. The
// period drives a ticker created once outside any loop; a one-shot timer (time.After / NewTimer / Reset) that is armed
// inside a loop which also waits for other events is re-armed by each of them, so traffic more frequent than the
// period starves the heartbeat. Looked for in the whole root package, so it also holds when the heartbeat is moved
// out of its own goroutine.
func ruleHeartbeatPacing(c *Ctx, rule string) {
	r := c.R
	r.Rule(rule, "heartbeat pacing: HeartbeatPeriod arms a time.NewTicker created outside any loop, or a one-shot timer that is re-armed only in the select case of its own expiry; it is never re-armed by other events of a loop", 1)
	n := 0
	for _, fn := range rootFns(c) {
		for _, ci := range callsIn(fn, func(nm string, cc *ssa.CallCommon) bool {
			switch nm {
			case "time.NewTicker", "time.Tick", "time.After", "time.NewTimer", "(time.Timer).Reset", "(time.Ticker).Reset", "time.AfterFunc":
				for _, a := range cc.Args {
					if strings.HasSuffix(ex(a), ".HeartbeatPeriod") {
						return true
					}
				}
			}
			return false
		}) {
			n++
			nm := calleeName(ci.Common())
			key := fnLocalName(fn) + " " + nm
			looped := inLoop(ci.Block())
			switch {
			case !looped:
				r.OK(rule, key, c.Pos(ci.Pos()), "armed once, outside any loop")
			case nm == "time.NewTicker" || nm == "time.Tick":
				r.Fail(rule, key, c.Pos(ci.Pos()), "a new ticker is created on every iteration of a loop: the period restarts with each iteration")
			default:
				// one-shot timer inside a loop: only in the case body of its own expiry, i.e. every path from the loop's
				// select to this call takes a receive case and no other event of the loop leads here
				others := false
				for _, in := range allInstrs(fn) {
					sel, ok := in.(*ssa.Select)
					if !ok || !inLoop(sel.Block()) || !reachFrom(sel.Block(), nil, nil)[ci.Block()] && sel.Block() != ci.Block() {
						continue
					}
					reach := 0
					for i := range sel.States {
						cb := selectCaseBlock(sel, i)
						if cb != nil && (cb == ci.Block() || pathWithin(cb, ci.Block(), sel.Block())) {
							reach++
						}
					}
					if reach != 1 && len(sel.States) > 1 {
						others = true
					}
				}
				r.Check(!others, rule, key, c.Pos(ci.Pos()), "re-armed only after its own expiry", "the heartbeat timer is re-armed inside a loop that also serves other events (every write, channel open / close postpones the next heartbeat: with traffic more frequent than the period no heartbeat is ever sent)")
			}
		}
	}
	if n == 0 {
		r.Fail(rule, "heartbeat timer", "-", "nothing in the package is paced by HeartbeatPeriod")
	}
}

// pathWithin: to is reachable from from without passing through stop.
func pathWithin(from, to, stop *ssa.BasicBlock) bool {
	if from == to {
		return true
	}
	return reachFrom(from, nil, map[*ssa.BasicBlock]bool{stop: true})[to]
}
