package main

// ruleCodecCaches: process-wide state in the codec packages. The layout of a message (field table, sizes,
// CRC_EXTRA) and the bytes of a payload are functions of the message's struct type and value alone. A package
// variable that code outside the package initialiser writes and the codec reads makes them depend on what was
// initialised or decoded before — unless it is a memo table: every entry written is a function of its key alone
// (or the key is the reflect.Type itself, which determines the layout).

import (
	"fmt"
	"go/token"
	"go/types"
	"sort"
	"strings"

	"golang.org/x/tools/go/ssa"
)

var cachePkgs = []string{"pkg/message", "pkg/dialect", "pkg/x25"}

type cacheWrite struct {
	fn       *ssa.Function
	pos      token.Pos
	key, val ssa.Value // key nil: plain store to the variable (or to a part of it)
}

// globalRoot: the package variable an address / loaded value is derived from (through field / index addressing
// and loads of the variable itself), or nil.
func globalRoot(v ssa.Value) *ssa.Global {
	for i := 0; i < 8 && v != nil; i++ {
		switch x := v.(type) {
		case *ssa.Global:
			return x
		case *ssa.FieldAddr:
			v = x.X
		case *ssa.IndexAddr:
			v = x.X
		case *ssa.UnOp:
			if x.Op != token.MUL {
				return nil
			}
			v = x.X
		case *ssa.ChangeType:
			v = x.X
		default:
			return nil
		}
	}
	return nil
}

var cacheWriteMethods = map[string]bool{"Store": true, "LoadOrStore": true, "Swap": true, "CompareAndSwap": true}
var cacheReadMethods = map[string]bool{"Load": true, "LoadOrStore": true, "Range": true, "LoadAndDelete": true, "Swap": true}

func ruleCodecCaches(c *Ctx, rule string) {
	r := c.R
	r.Rule(rule, "no hidden state in the codec: in pkg/message, pkg/dialect and pkg/x25 every package variable that is written outside the package initialiser and whose content the codec reads is a memo table — "+
		"each value stored is computed from its key alone, or the key is the reflect.Type — so that the layout and bytes of one message never depend on which messages were initialised or processed before", 1)
	writes := map[*ssa.Global][]cacheWrite{}
	reads := map[*ssa.Global][]string{}
	nVars := 0
	for _, pk := range cachePkgs {
		sp := c.SSA[pk]
		if sp == nil {
			continue
		}
		for _, m := range sp.Members {
			if g, ok := m.(*ssa.Global); ok && !strings.HasPrefix(g.Name(), "init$") {
				nVars++
				_ = g
			}
		}
	}
	for _, fn := range c.AllFns {
		if fn.Pkg == nil || fn.Name() == "init" && fn.Parent() == nil {
			continue
		}
		in := false
		for _, pk := range cachePkgs {
			if c.SSA[pk] == fn.Pkg {
				in = true
			}
		}
		if !in {
			continue
		}
		for _, ins := range allInstrs(fn) {
			switch x := ins.(type) {
			case *ssa.Store:
				if g := globalRoot(x.Addr); g != nil {
					writes[g] = append(writes[g], cacheWrite{fn, x.Pos(), nil, x.Val})
				}
			case *ssa.MapUpdate:
				if g := globalRoot(x.Map); g != nil {
					writes[g] = append(writes[g], cacheWrite{fn, x.Pos(), x.Key, x.Value})
				}
			case *ssa.Lookup:
				if g := globalRoot(x.X); g != nil {
					reads[g] = append(reads[g], c.Pos(x.Pos()))
				}
			case *ssa.UnOp:
				if x.Op == token.MUL {
					if g := globalRoot(x.X); g != nil && g != x.X {
						reads[g] = append(reads[g], c.Pos(x.Pos())) // a part of the variable
					} else if g != nil {
						// the variable itself: a data read unless only used to address / look up (counted there)
						if _, isBasic := g.Type().(*types.Pointer).Elem().Underlying().(*types.Basic); isBasic {
							reads[g] = append(reads[g], c.Pos(x.Pos()))
						}
					}
				}
			case *ssa.Range:
				if g := globalRoot(x.X); g != nil {
					reads[g] = append(reads[g], c.Pos(x.Pos()))
				}
			case ssa.CallInstruction:
				cc := x.Common()
				if cc.IsInvoke() || len(cc.Args) == 0 {
					continue
				}
				g := globalRoot(cc.Args[0])
				callee := cc.StaticCallee()
				if g == nil || callee == nil {
					continue
				}
				name := callee.Name()
				if cacheWriteMethods[name] && len(cc.Args) >= 3 {
					writes[g] = append(writes[g], cacheWrite{fn, x.Pos(), peelIface(cc.Args[1]), peelIface(cc.Args[len(cc.Args)-1])})
				}
				if cacheReadMethods[name] {
					reads[g] = append(reads[g], c.Pos(x.Pos()))
				}
				if strings.HasPrefix(name, "Add") || strings.HasPrefix(name, "Store") && len(cc.Args) == 2 {
					// atomic counter / value
					writes[g] = append(writes[g], cacheWrite{fn, x.Pos(), nil, cc.Args[len(cc.Args)-1]})
					if strings.HasPrefix(name, "Add") && x.Value() != nil && x.Value().Referrers() != nil && len(*x.Value().Referrers()) > 0 {
						reads[g] = append(reads[g], c.Pos(x.Pos()))
					}
				}
			}
		}
	}
	var gs []*ssa.Global
	for g := range writes {
		gs = append(gs, g)
	}
	sort.Slice(gs, func(i, j int) bool { return gs[i].String() < gs[j].String() })
	nBad := 0
	for _, g := range gs {
		if len(reads[g]) == 0 {
			continue // written, never read by the codec: carries nothing into a result
		}
		for _, w := range writes[g] {
			key := pkgKey(g.Pkg.Pkg.Path()) + "." + g.Name() + " written in " + fnLocalName(w.fn)
			switch {
			case w.key == nil && funcOfKey(w.val, nil, 0, map[ssa.Value]bool{}):
				r.OK(rule, key, c.Pos(w.pos), "assigned a value built from constants only (lazy initialisation of a fixed table)")
			case w.key == nil:
				nBad++
				r.Fail(rule, key, c.Pos(w.pos), "package variable "+g.Name()+" is assigned at run time ("+ex(w.val)+") and read by the codec ("+reads[g][0]+"): results depend on what was processed before")
			case isReflectType(w.key.Type()):
				r.OK(rule, key, c.Pos(w.pos), "memo table keyed by the reflect.Type")
			case funcOfKey(w.val, w.key, 0, map[ssa.Value]bool{}):
				r.OK(rule, key, c.Pos(w.pos), "memo table: the stored value is computed from the key alone")
			default:
				nBad++
				r.Fail(rule, key, c.Pos(w.pos), fmt.Sprintf("table %s is keyed by %s but the value stored (%s) is not computed from that key alone: the first writer decides the entry for every later message with the same key (read at %s)",
					g.Name(), ex(w.key), clip(ex(w.val), 120), reads[g][0]))
			}
		}
	}
	if nBad == 0 {
		r.OK(rule, "codec package variables", "-", fmt.Sprintf("%d package variables in %s; %d written outside the package initialiser and read by the codec, none holding state that is not a function of its key", nVars, strings.Join(cachePkgs, ", "), len(gs)))
	}
}

func clip(s string, n int) string {
	if len(s) > n {
		return s[:n] + "…"
	}
	return s
}

func peelIface(v ssa.Value) ssa.Value {
	for {
		switch x := v.(type) {
		case *ssa.MakeInterface:
			v = x.X
		case *ssa.ChangeInterface:
			v = x.X
		default:
			return v
		}
	}
}

func isReflectType(t types.Type) bool {
	s := types.TypeString(t, nil)
	return s == "reflect.Type" || s == "*reflect.rtype"
}

// funcOfKey: v is built from the key (same value or same rendering), constants and static calls / operators
// over such values only.
func funcOfKey(v, key ssa.Value, depth int, seen map[ssa.Value]bool) bool {
	if key != nil && (v == key || ex(v) == ex(key)) {
		return true
	}
	if depth > 10 {
		return false
	}
	if seen[v] {
		return true
	}
	seen[v] = true
	switch x := v.(type) {
	case *ssa.Const:
		return true
	case *ssa.Call:
		if x.Call.IsInvoke() || x.Call.StaticCallee() == nil && !isBuiltinCall(&x.Call) {
			return false
		}
		for _, a := range x.Call.Args {
			if !funcOfKey(a, key, depth+1, seen) {
				return false
			}
		}
		return true
	case *ssa.BinOp:
		return funcOfKey(x.X, key, depth+1, seen) && funcOfKey(x.Y, key, depth+1, seen)
	case *ssa.UnOp:
		if x.Op == token.MUL {
			return false
		}
		return funcOfKey(x.X, key, depth+1, seen)
	case *ssa.Convert:
		return funcOfKey(x.X, key, depth+1, seen)
	case *ssa.ChangeType:
		return funcOfKey(x.X, key, depth+1, seen)
	case *ssa.MakeInterface:
		return funcOfKey(x.X, key, depth+1, seen)
	case *ssa.Slice:
		return funcOfKey(x.X, key, depth+1, seen) && (x.Low == nil || funcOfKey(x.Low, key, depth+1, seen)) && (x.High == nil || funcOfKey(x.High, key, depth+1, seen))
	case *ssa.Extract:
		return funcOfKey(x.Tuple, key, depth+1, seen)
	case *ssa.Phi:
		for _, e := range x.Edges {
			if !funcOfKey(e, key, depth+1, seen) {
				return false
			}
		}
		return true
	}
	return false
}

func isBuiltinCall(cc *ssa.CallCommon) bool {
	_, ok := cc.Value.(*ssa.Builtin)
	return ok
}

// ruleCodecNoSharedWrites: one message.ReadWriter (and the dialect.ReadWriter holding them) is shared by every
// channel reader and every writing goroutine of a node. Read and Write — and what they call inside the codec
// packages — therefore never store into the receiver and never write through a slice / map / pointer loaded from
// it: scratch space kept in the shared object makes a frame decoded on one channel carry bytes received on another
// and is a data race.
func ruleCodecNoSharedWrites(c *Ctx, rule, why string) {
	r := c.R
	r.Rule(rule, "the shared codec is read-only after Initialize: message.ReadWriter.Read / Write (and dialect.ReadWriter.GetMessage) neither store into their receiver nor write through memory reached from it (copy destination, element store, map update, "+
		"argument of a function that writes through its parameter) — "+why, 2)
	// summary: parameters a codec function writes through
	writesParam := map[*ssa.Function]map[int]bool{}
	var summarise func(fn *ssa.Function, depth int) map[int]bool
	isWrittenThrough := func(fn *ssa.Function, root ssa.Value, depth int) (string, bool) {
		seen := map[ssa.Value]bool{}
		found, what := false, ""
		var walk func(v ssa.Value)
		walk = func(v ssa.Value) {
			if found || seen[v] || v.Referrers() == nil {
				return
			}
			seen[v] = true
			for _, u := range *v.Referrers() {
				switch x := u.(type) {
				case *ssa.Slice:
					if x.X == v {
						walk(x)
					}
				case *ssa.Phi, *ssa.ChangeType, *ssa.Convert:
					walk(u.(ssa.Value))
				case *ssa.IndexAddr:
					if x.X != v || x.Referrers() == nil {
						continue
					}
					for _, uu := range *x.Referrers() {
						if st, ok := uu.(*ssa.Store); ok && st.Addr == ssa.Value(x) {
							found, what = true, "element store at "+c.Pos(st.Pos())
						}
					}
				case *ssa.FieldAddr:
					if x.X != v || x.Referrers() == nil {
						continue
					}
					for _, uu := range *x.Referrers() {
						if st, ok := uu.(*ssa.Store); ok && st.Addr == ssa.Value(x) {
							found, what = true, "field store at "+c.Pos(st.Pos())
						}
					}
				case *ssa.Store:
					if x.Addr == v {
						found, what = true, "store at "+c.Pos(x.Pos())
					}
				case *ssa.MapUpdate:
					if x.Map == v {
						found, what = true, "map update at "+c.Pos(x.Pos())
					}
				case ssa.CallInstruction:
					cc := x.Common()
					n := calleeName(cc)
					for i, a := range cc.Args {
						if a != v {
							continue
						}
						switch {
						case (n == "copy" || n == "clear") && i == 0:
							found, what = true, n+" at "+c.Pos(x.Pos())
						case strings.HasPrefix(n, "(encoding/binary.littleEndian).Put") || strings.HasPrefix(n, "(encoding/binary.bigEndian).Put") || strings.HasPrefix(n, "(binary.littleEndian).Put") || strings.HasPrefix(n, "(binary.bigEndian).Put"):
							if i == 1 {
								found, what = true, n+" at "+c.Pos(x.Pos())
							}
						case n == "append" && i == 0:
							found, what = true, "append (may write in place) at "+c.Pos(x.Pos())
						default:
							if callee := cc.StaticCallee(); callee != nil && callee.Pkg != nil && strings.HasPrefix(callee.Pkg.Pkg.Path(), modPath) && depth < 4 {
								if summarise(callee, depth+1)[i] {
									found, what = true, fnLocalName(callee)+" (writes through its parameter) at "+c.Pos(x.Pos())
								}
							}
						}
					}
				}
			}
		}
		walk(root)
		return what, found
	}
	summarise = func(fn *ssa.Function, depth int) map[int]bool {
		if m, ok := writesParam[fn]; ok {
			return m
		}
		m := map[int]bool{}
		writesParam[fn] = m
		for i, p := range fn.Params {
			switch p.Type().Underlying().(type) {
			case *types.Slice, *types.Pointer, *types.Map:
				if _, w := isWrittenThrough(fn, p, depth); w {
					m[i] = true
				}
			}
		}
		return m
	}
	for _, e := range []struct{ pk, name string }{{"pkg/message", "ReadWriter.Read"}, {"pkg/message", "ReadWriter.Write"}, {"pkg/dialect", "ReadWriter.GetMessage"}} {
		fn := c.FnOpt(e.pk, e.name)
		if fn == nil {
			if e.pk == "pkg/message" {
				c.Fn(e.pk, e.name) // reports the missing anchor
			}
			continue
		}
		r.Functions[fnQual(fn)] = true
		if len(fn.Params) == 0 {
			continue
		}
		recv := fn.Params[0]
		bad := ""
		// the receiver may have been spilled (closures): see through
		recvVals := []ssa.Value{recv}
		for _, in := range allInstrs(fn) {
			if a, ok := in.(*ssa.Alloc); ok && spilledValue(a) == ssa.Value(recv) {
				for _, u := range *a.Referrers() {
					if ld, ok := u.(*ssa.UnOp); ok && ld.Op == token.MUL {
						recvVals = append(recvVals, ld)
					}
				}
			}
		}
		for _, rv := range recvVals {
			if rv.Referrers() == nil {
				continue
			}
			for _, u := range *rv.Referrers() {
				fa, ok := u.(*ssa.FieldAddr)
				if !ok || fa.X != rv || fa.Referrers() == nil {
					continue
				}
				fname := fa.X.Type().Underlying().(*types.Pointer).Elem().Underlying().(*types.Struct).Field(fa.Field).Name()
				for _, uu := range *fa.Referrers() {
					switch y := uu.(type) {
					case *ssa.Store:
						if y.Addr == ssa.Value(fa) {
							bad = fmt.Sprintf("%s stores into its receiver's field %s at %s", e.name, fname, c.Pos(y.Pos()))
						}
					case *ssa.UnOp:
						if y.Op != token.MUL {
							continue
						}
						switch y.Type().Underlying().(type) {
						case *types.Slice, *types.Map, *types.Pointer:
							if what, w := isWrittenThrough(fn, y, 0); w {
								bad = fmt.Sprintf("%s writes through its receiver's field %s (%s): the buffer is shared by every goroutine that uses this codec", e.name, fname, what)
							}
						}
					}
				}
			}
		}
		r.Check(bad == "", rule, e.name+" leaves the shared codec untouched", c.Pos(fn.Pos()), "no store into / through the receiver", bad)
	}
}
