package main

import (
	"fmt"
	"go/token"
	"go/types"
	"strings"

	"golang.org/x/tools/go/ssa"
)

func init() {
	register("C06", framePkgs, runC06)
	register("C07", framePkgs, runC07)
	register("C09", framePkgs, runC09)
}

func (c *Ctx) InitFn(pkg string) *ssa.Function {
	sp := c.SSA[pkg]
	if sp == nil {
		return nil
	}
	return sp.Func("init")
}

// originator describes a function that fills and emits a frame (streamwriter.writeInner,
// frame.Writer.writeFrameAndFill) or re-validates one (Node.FixFrame).
type originator struct {
	pkg, name string
	key       string // rendering of the signing key
	link      string // rendering of the configured link id ("" for FixFrame)
	sysid     string
	compid    string
	seq       string // counter field rendering
	handover  string // callee name of the hand-over to the transport ("" for FixFrame)
	dialect   string
	fills     bool
}

var originators = []originator{
	{"pkg/streamwriter", "Writer.writeInner", "recv.Key", "recv.SignatureLinkID", "recv.SystemID", "recv.ComponentID", "recv.nextSeqNumber", "(frame.Writer).Write", "recv.FrameWriter.DialectRW", true},
	{"pkg/frame", "Writer.writeFrameAndFill", "recv.OutKey", "recv.OutSignatureLinkID", "recv.OutSystemID", "recv.OutComponentID", "recv.nextSeqNumber", "(frame.Writer).writeFrameInner", "recv.DialectRW", true},
	{"root", "Node.FixFrame", "recv.OutKey", "", "", "", "", "", "recv.dialectRW", false},
}

type frameStore struct {
	st    *ssa.Store
	owner string // frame.V1Frame | frame.V2Frame
	field string
	val   string
}

func frameStoresIn(fn *ssa.Function) []frameStore {
	var out []frameStore
	for _, in := range allInstrs(fn) {
		st, ok := in.(*ssa.Store)
		if !ok {
			continue
		}
		f, _ := fieldOfAddr(st.Addr)
		if f == nil {
			continue
		}
		o := fieldStructName(st.Addr)
		if o == "frame.V1Frame" || o == "frame.V2Frame" {
			out = append(out, frameStore{st, o, f.Name(), ex(st.Val)})
		}
	}
	return out
}

// handoverOf: the instructions by which an originator hands the finished frame over: the call of its hand-over
// callee (first == last) or, where the marshal-and-write helper has been inlined into the originator, the
// marshalTo of the frame (first: what must follow signing and checksumming) and the write of the marshalled
// bytes to the transport (last: what must have succeeded before the sequence counter advances).
func handoverOf(fn *ssa.Function, o originator) (first, last []ssa.CallInstruction) {
	if hs := callsNamed(fn, o.handover); len(hs) > 0 {
		return hs, hs
	}
	first = callsIn(fn, func(_ string, cc *ssa.CallCommon) bool { return cc.IsInvoke() && cc.Method.Name() == "marshalTo" })
	last = callsIn(fn, func(_ string, cc *ssa.CallCommon) bool {
		return cc.IsInvoke() && cc.Method.Name() == "Write" && ex(cc.Value) == "recv.ByteWriter"
	})
	if len(first) == 1 && len(last) == 1 && !instrDominates(first[0], last[0]) {
		return nil, nil
	}
	return first, last
}

// handedFrame renders the frame a hand-over instruction carries.
func handedFrame(h ssa.CallInstruction) string {
	cc := h.Common()
	if cc.IsInvoke() {
		return ex(cc.Value)
	}
	return ex(cc.Args[len(cc.Args)-1])
}

// errValueOf: the error result of a call (the call itself, or the extraction of its error component).
func errValueOf(call *ssa.Call) ssa.Value {
	if typeStr(call.Type()) == "error" {
		return call
	}
	var ev ssa.Value
	if call.Referrers() != nil {
		for _, rf := range *call.Referrers() {
			if e, ok := rf.(*ssa.Extract); ok && typeStr(e.Type()) == "error" {
				ev = e
			}
		}
	}
	return ev
}

func isEncodeCall(n string) bool {
	return strings.HasSuffix(n, ".encodeMessageInFrame") || n == "(message.ReadWriter).Write" || n == "(gomavlib.Node).encodeFrame"
}

var preImageFields = map[string]bool{"IncompatibilityFlag": true, "CompatibilityFlag": true, "SequenceNumber": true, "SystemID": true, "ComponentID": true,
	"Message": true, "Checksum": true, "SignatureLinkID": true, "SignatureTimestamp": true}

// mustPrecede: every feasible path from entry to target passes instruction a. Paths that take
// contradictory outcomes of type tests on the same value (x.(*T) false, later x.(*T) true; or x.(*T1)
// and x.(*T2) both true) are infeasible and ignored.
func mustPrecede(fn *ssa.Function, a, target ssa.Instruction) bool {
	if _, ok := pathFromEntryAvoiding(fn, func(in ssa.Instruction) bool { return in == target }, func(in ssa.Instruction) bool { return in == a }); !ok {
		return true
	}
	violated := false
	tb := target.Block()
	okEnum := enumPaths(fn.Blocks[0], func(b *ssa.BasicBlock) bool { return b == tb }, 20000, func(path []*ssa.BasicBlock) {
		if path[len(path)-1] != tb || violated {
			return
		}
		if !typeTestsConsistent(path) {
			return
		}
		seen := false
		for _, in := range pathInstrs(path) {
			if in == a {
				seen = true
			}
			if in == target {
				break
			}
		}
		if !seen {
			violated = true
		}
	})
	return okEnum && !violated
}

// mustPrecedeAny: every feasible path from entry to target passes at least one of the instructions in as.
func mustPrecedeAny(fn *ssa.Function, as []ssa.Instruction, target ssa.Instruction) bool {
	set := map[ssa.Instruction]bool{}
	for _, a := range as {
		set[a] = true
	}
	if _, ok := pathFromEntryAvoiding(fn, func(in ssa.Instruction) bool { return in == target }, func(in ssa.Instruction) bool { return set[in] }); !ok {
		return true
	}
	violated := false
	tb := target.Block()
	okEnum := enumPaths(fn.Blocks[0], func(b *ssa.BasicBlock) bool { return b == tb }, 20000, func(path []*ssa.BasicBlock) {
		if path[len(path)-1] != tb || violated || !typeTestsConsistent(path) {
			return
		}
		seen := false
		for _, in := range pathInstrs(path) {
			if set[in] {
				seen = true
			}
			if in == target {
				break
			}
		}
		if !seen {
			violated = true
		}
	})
	return okEnum && !violated
}

// typeTestsConsistent: along the block path, comma-ok type assertions on the same operand have
// compatible outcomes.
func typeTestsConsistent(path []*ssa.BasicBlock) bool {
	type key struct {
		x ssa.Value
		t string
	}
	outcome := map[key]bool{}
	pure := map[string]bool{}
	trueType := map[ssa.Value]string{}
	for i := 0; i+1 < len(path); i++ {
		iff := blockIf(path[i])
		if iff == nil {
			continue
		}
		if b, isB := iff.Cond.(*ssa.BinOp); isB && pureFieldCond(b) {
			taken := path[i+1] == path[i].Succs[0]
			ks := ex(b)
			if b.Op == token.NEQ {
				// `x != y` is the negation of `x == y`: one fact, whichever way it is tested
				ks = "(" + ex(b.X) + " == " + ex(b.Y) + ")"
				taken = !taken
			}
			if prev, has := pure[ks]; has && prev != taken {
				return false
			}
			pure[ks] = taken
			continue
		}
		e, ok := iff.Cond.(*ssa.Extract)
		if !ok || e.Index != 1 {
			continue
		}
		ta, ok := e.Tuple.(*ssa.TypeAssert)
		if !ok || !ta.CommaOk {
			continue
		}
		taken := path[i+1] == path[i].Succs[0]
		k := key{ta.X, typeStr(ta.AssertedType)}
		if prev, has := outcome[k]; has && prev != taken {
			return false
		}
		outcome[k] = taken
		// closed world: frame.Frame has unexported methods and exactly two implementations
		if !taken && typeStr(ta.X.Type()) == "frame.Frame" {
			other := "*frame.V1Frame"
			if k.t == other {
				other = "*frame.V2Frame"
			}
			if o, has := outcome[key{ta.X, other}]; has && !o {
				return false
			}
		}
		if taken {
			if t, has := trueType[ta.X]; has && t != k.t {
				return false
			}
			trueType[ta.X] = k.t
		}
	}
	return true
}

// ---------------------------------------------------------------------------------------------
// C06
// ---------------------------------------------------------------------------------------------

var specSig = []string{"run(arg0)", "const:253", "B(len(MSG.Payload),0)", "V(recv.IncompatibilityFlag)", "V(recv.CompatibilityFlag)", "V(recv.SequenceNumber)", "V(recv.SystemID)", "V(recv.ComponentID)",
	"B(MSG.ID,0)", "B(MSG.ID,1)", "B(MSG.ID,2)", "run(MSG.Payload)", "B(recv.Checksum,0)", "B(recv.Checksum,1)", "V(recv.SignatureLinkID)",
	"B(recv.SignatureTimestamp,0)", "B(recv.SignatureTimestamp,1)", "B(recv.SignatureTimestamp,2)", "B(recv.SignatureTimestamp,3)", "B(recv.SignatureTimestamp,4)", "B(recv.SignatureTimestamp,5)"}

func runC06(c *Ctx) {
	r := c.R
	defer borrowRules(c, "C01", runC01inner, map[string]string{"R1.6": "R6.6"}, "a signed v2 frame with a 255-byte payload is 280 bytes long: a shorter emit buffer cuts the signature")
	defer func() {
		r.Rule("R6.5", "what is signed is what is written (= R8.1): frame.Writer.Write, which the signing originators hand their finished frame to, modifies or re-encodes a frame only when its message is not yet raw; "+
			"a frame that already carries its encoded payload, checksum and signature is marshalled as it is", 1)
		ruleRawPassthrough(c, "R6.5")
	}()
	r.NotDecided = append(r.NotDecided,
		"unforgeability (SHA-256 is trusted)",
		"'altered in any bit' as an enumeration: it follows from R6.1 (every wire byte is in the pre-image) + R6.2, which is what is checked")
	// R6.1
	r.Rule("R6.1", "bytes fed to SHA-256 by V2Frame.GenerateSignature are key[32], then the v2 wire bytes from the 0xFD marker through the checksum in wire order, then link id and the 48-bit little-endian timestamp; "+
		"the hash is crypto/sha256.New() and the signature is the first 6 bytes of its Sum", 2)
	if fn := c.Fn("pkg/frame", "V2Frame.GenerateSignature"); fn != nil {
		r.Functions[fnQual(fn)] = true
		seq, h, undec := hashInput(c, fn)
		if len(undec) > 0 {
			r.Broken("R6.1", "V2Frame.GenerateSignature", "hash-input idiom not understood: "+strings.Join(undec, "; "))
		} else {
			ok := eqSeq(seq, specSig) && ex(h) == "sha256.New()"
			r.Check(ok, "R6.1", "V2Frame.GenerateSignature pre-image", c.Pos(fn.Pos()), fmt.Sprintf("%d symbolic bytes in spec order over sha256.New()", len(seq)),
				fmt.Sprintf("signature pre-image differs from the spec: got %v over %s; spec %v", seq, ex(h), specSig))
			// result: first 6 bytes of Sum(nil)
			okRes := false
			for _, ci := range callsNamed(fn, "copy") {
				a := ci.Common().Args
				if sl, isSl := a[1].(*ssa.Slice); isSl && sl.Low == nil && sl.High != nil {
					if k, isK := constInt(sl.High); isK && k == 6 {
						if sum, isC := sl.X.(*ssa.Call); isC && sum.Call.IsInvoke() && sum.Call.Method.Name() == "Sum" && sum.Call.Value == h && emptyPrefix(sum.Call.Args[0]) {
							// destination is the returned signature
							for _, ret := range retInstrs(fn) {
								if len(ret.Results) == 1 && strings.HasPrefix(ex(a[0]), strings.TrimPrefix(ex(ret.Results[0]), "&")) {
									okRes = true
								}
							}
						}
					}
				}
			}
			// the same, with the sum taken into a local array first: h.Sum(sum[:0]); copy(sig[:], sum[:6])
			for _, ci := range callsNamed(fn, "copy") {
				a := ci.Common().Args
				sl, isSl := a[1].(*ssa.Slice)
				if !isSl || sl.Low != nil || sl.High == nil {
					continue
				}
				if k, isK := constInt(sl.High); !isK || k != 6 {
					continue
				}
				arr, isA := sl.X.(*ssa.Alloc)
				if !isA {
					continue
				}
				for _, in := range allInstrs(fn) {
					sum, isC := in.(*ssa.Call)
					if !isC || !sum.Call.IsInvoke() || sum.Call.Method.Name() != "Sum" || sum.Call.Value != h {
						continue
					}
					if pre, isPre := sum.Call.Args[0].(*ssa.Slice); isPre && pre.X == ssa.Value(arr) && emptyPrefix(pre) && instrDominates(sum, ci.(ssa.Instruction)) {
						for _, ret := range retInstrs(fn) {
							if len(ret.Results) == 1 && strings.HasPrefix(ex(a[0]), strings.TrimPrefix(ex(ret.Results[0]), "&")) {
								okRes = true
							}
						}
					}
				}
			}
			r.Check(okRes, "R6.1", "V2Frame.GenerateSignature result", c.Pos(fn.Pos()), "first 6 bytes (48 bits) of the SHA-256 sum", "the signature is not the first 6 bytes of h.Sum(nil) of the same hash")
		}
	}
	if o := c.Obj("pkg/frame", "V2Key"); o != nil {
		r.Check(typeStr(o.Type().Underlying()) == "[32]byte", "R6.1", "V2Key size", c.Pos(o.Pos()), "[32]byte", "V2Key must be 32 bytes")
	}

	// R6.2
	r.Rule("R6.2", "Reader.Read with an incoming key: delivery (the dialect stage and every success return) is reachable from the `InKey != nil` edge only through, in order, the ok edge of the *V2Frame type test, "+
		"the non-nil Signature edge, and the equal edge of a whole-array comparison between *GenerateSignature(InKey) and the frame's own *Signature ([6]byte values); each failing edge returns a ReadError", 4)
	rf := collectReaderFacts(c)
	if rf != nil {
		r.Functions[fnQual(rf.fn)] = true
		if rf.inKeyIf == nil {
			r.Fail("R6.2", "Reader.Read InKey test", c.Pos(rf.fn.Pos()), "no `r.InKey != nil` test in Reader.Read: signatures are never required")
		} else {
			start := rf.inKeyIf.Block().Succs[rf.keyIdx]
			succReach := func(cut edge) string {
				reach := reachFrom(start, map[edge]bool{cut: true}, nil)
				for _, ret := range retInstrs(rf.fn) {
					if len(ret.Results) == 2 && isNilConst(ret.Results[1]) && reach[ret.Block()] {
						return "a success return is reachable"
					}
				}
				if rf.decode != nil && reach[rf.decode.Block()] {
					return "the decode stage is reachable"
				}
				return ""
			}
			type gate struct {
				name string
				iff  *ssa.If
				pass int
				miss string
			}
			gates := []gate{
				{"v2 type test", rf.v2If, rf.v2Idx, "no `f.(*V2Frame)` test under the incoming key: v1 frames bypass signing"},
				{"signature present", rf.sigNilIf, rf.sigHereIdx, "no `Signature == nil` test: unsigned v2 frames would dereference a nil signature or bypass the check"},
				{"signature comparison", rf.sigIf, rf.sigOKIdx, "no whole-array comparison `*GenerateSignature(InKey) != *Signature`: frames are accepted without a valid signature"},
			}
			for _, g := range gates {
				key := "Reader.Read " + g.name
				if g.iff == nil {
					r.Fail("R6.2", key, c.Pos(rf.inKeyIf.Pos()), g.miss)
					continue
				}
				w := succReach(edge{g.iff.Block(), g.iff.Block().Succs[g.pass]})
				// the failing edge leads only to returns of (no frame, a ReadError)
				fb := g.iff.Block().Succs[1-g.pass]
				okFail := true
				nRet := 0
				for blk := range reachFrom(fb, nil, nil) {
					ret, isRet := blk.Instrs[len(blk.Instrs)-1].(*ssa.Return)
					if !isRet {
						continue
					}
					nRet++
					if len(ret.Results) != 2 || !isNilConst(ret.Results[0]) || isNilConst(ret.Results[1]) {
						okFail = false
					}
				}
				if fret, isRet := fb.Instrs[len(fb.Instrs)-1].(*ssa.Return); isRet && !strings.Contains(ex(fret.Results[1]), "frame.newError") {
					okFail = false
				}
				okFail = okFail && nRet > 0
				inRegion := reachFrom(start, nil, nil)[g.iff.Block()] || g.iff.Block() == start
				r.Check(w == "" && okFail && inRegion, "R6.2", key, c.Pos(g.iff.Pos()), "delivery only through the pass edge; the failing edge returns a ReadError",
					fmt.Sprintf("with an incoming key, %s without passing the %s (failing edge returns ReadError: %v)", orStr(w, "delivery is not gated"), g.name, okFail))
			}
			// order: type test dominates the comparison
			if rf.v2If != nil && rf.sigIf != nil && rf.sigNilIf != nil {
				ok := instrDominates(rf.v2If, rf.sigNilIf) && instrDominates(rf.sigNilIf, rf.sigIf)
				r.Check(ok, "R6.2", "Reader.Read gate order", c.Pos(rf.sigIf.Pos()), "type test → presence → comparison", "signature gates are not evaluated in the order type test → presence → comparison")
			}
			// signature of the frame being parsed
			if rf.v2 != nil && rf.sigIf != nil {
				cnd := rf.sigIf.Cond
				for {
					u, isU := cnd.(*ssa.UnOp)
					if !isU || u.Op != token.NOT {
						break
					}
					cnd = u.X
				}
				b := cnd.(*ssa.BinOp)
				okSame := strings.Contains(ex(b.X), ex(rf.v2)) && strings.Contains(ex(b.Y), ex(rf.v2))
				if call, isCall := b.X.(*ssa.Call); isCall && len(call.Call.Args) == 2 {
					okSame = strings.Contains(ex(call.Call.Args[0]), ex(rf.v2)) && strings.Contains(ex(call.Call.Args[1]), ex(rf.v2))
				}
				r.Check(okSame, "R6.2", "Reader.Read signature operands", c.Pos(rf.sigIf.Pos()), "both operands derive from the frame being parsed", "the signature comparison does not compare the generated and the carried signature of the frame being parsed")
			}
		}
	}

	// R6.3
	r.Rule("R6.3", "sign last: in streamwriter.writeInner, frame.Writer.writeFrameAndFill and Node.FixFrame the GenerateSignature call is under `key != nil`, uses the configured key, its result is stored into Signature, "+
		"and no field of the signature pre-image is stored and no re-encoding happens after it; the two writers additionally set the signed flag (|= 0x01), the link's link id, a timestamp and the checksum on every path before it", 3)
	for _, o := range originators {
		fn := c.Fn(o.pkg, o.name)
		if fn == nil {
			continue
		}
		r.Functions[fnQual(fn)] = true
		key := o.name + " signing"
		sigs := callsNamed(fn, "(frame.V2Frame).GenerateSignature")
		if len(sigs) != 1 {
			r.Fail("R6.3", key, c.Pos(fn.Pos()), fmt.Sprintf("%d GenerateSignature calls, expected exactly one: frames written with an outgoing key are not signed", len(sigs)))
			continue
		}
		S := sigs[0].(*ssa.Call)
		var probs []string
		if ex(S.Call.Args[1]) != o.key {
			probs = append(probs, "signs with "+ex(S.Call.Args[1])+" instead of the configured key "+o.key)
		}
		guarded := false
		for _, iff := range ifsIn(fn) {
			if tb, _, hit := succWhen(iff, "("+o.key+" != nil)"); hit && edgeMustPass(fn, edge{iff.Block(), tb}, S.Block()) {
				guarded = true
			}
		}
		if !guarded {
			probs = append(probs, "signing is not under `"+o.key+" != nil`")
		}
		// nothing but the key, the frame version and earlier failures decides whether the frame is signed: every
		// branch that can bypass the signing on the way to a successful return tests one of those
		for _, iff := range ifsIn(fn) {
			sb := iff.Block().Succs
			r0 := sb[0] == S.Block() || reachFrom(sb[0], nil, nil)[S.Block()]
			r1 := sb[1] == S.Block() || reachFrom(sb[1], nil, nil)[S.Block()]
			if r0 == r1 || iff.Block() == S.Block() {
				continue
			}
			other := sb[0]
			if r0 {
				other = sb[1]
			}
			// the bypassing side: does it reach a successful return?
			succeeds := false
			for b := range reachFrom(other, nil, map[*ssa.BasicBlock]bool{S.Block(): true}) {
				if ret, isRet := b.Instrs[len(b.Instrs)-1].(*ssa.Return); isRet && (len(ret.Results) == 0 || isNilConst(ret.Results[len(ret.Results)-1])) {
					succeeds = true
				}
			}
			if !succeeds {
				continue
			}
			cs := ex(iff.Cond)
			if cs == "("+o.key+" != nil)" || cs == "("+o.key+" == nil)" {
				continue
			}
			if inner, _ := stripNot(iff.Cond); inner != nil {
				if e, isE := inner.(*ssa.Extract); isE && e.Index == 1 {
					if ta, isTA := e.Tuple.(*ssa.TypeAssert); isTA && strings.Contains(typeStr(ta.AssertedType), "frame.V") {
						continue // the frame version
					}
				}
			}
			probs = append(probs, "whether the frame is signed also depends on `"+cs+"` ("+c.Pos(iff.Pos())+"): with an outgoing key configured a v2 frame can leave with a signature that was not computed for its present content and key")
		}
		stored := false
		fs := frameStoresIn(fn)
		for _, s := range fs {
			if s.field == "Signature" && s.st.Val == ssa.Value(S) && s.owner == "frame.V2Frame" {
				stored = true
			}
			if s.owner == "frame.V2Frame" && preImageFields[s.field] && reachInstr(S, s.st) {
				probs = append(probs, "field "+s.field+" of the signed pre-image is stored after the signature was computed ("+c.Pos(s.st.Pos())+")")
			}
		}
		if !stored {
			probs = append(probs, "the computed signature is not stored into the frame's Signature")
		}
		for _, ci := range callsIn(fn, func(n string, _ *ssa.CallCommon) bool { return isEncodeCall(n) }) {
			if reachInstr(S, ci) {
				probs = append(probs, "the message is re-encoded after signing")
			}
		}
		// signature must be of the frame that is written
		if o.fills {
			need := map[string]string{"IncompatibilityFlag": "| 1)", "SignatureLinkID": o.link, "SignatureTimestamp": "time.Since(", "Checksum": "GenerateChecksum("}
			for _, f := range []string{"IncompatibilityFlag", "SignatureLinkID", "SignatureTimestamp", "Checksum"} {
				ok := false
				for _, s := range fs {
					if s.owner != "frame.V2Frame" || s.field != f {
						continue
					}
					match := strings.Contains(s.val, need[f])
					if f == "IncompatibilityFlag" {
						match = isSignedFlagValue(s.val)
					}
					if f == "SignatureLinkID" {
						match = s.val == o.link
					}
					if match && mustPrecede(fn, s.st, S) {
						ok = true
					}
				}
				if !ok {
					probs = append(probs, "on some path the signature is computed without "+f+" having been set from "+strings.Trim(need[f], "(|) "))
				}
			}
			// signed flag set iff key
			for _, s := range fs {
				if s.field == "IncompatibilityFlag" && isSignedFlagValue(s.val) {
					g := false
					for _, iff := range ifsIn(fn) {
						if tb, _, hit := succWhen(iff, "("+o.key+" != nil)"); hit && edgeMustPass(fn, edge{iff.Block(), tb}, s.st.Block()) {
							g = true
						}
					}
					if !g {
						probs = append(probs, "the signed flag is set without an outgoing key")
					}
				}
			}
			// hand-over after signing
			hs, _ := handoverOf(fn, o)
			if len(hs) != 1 || !reachInstr(S, hs[0]) || reachInstr(hs[0], S) {
				probs = append(probs, "the frame is not handed to "+o.handover+" after signing")
			} else if handedFrame(hs[0]) != "arg0" {
				probs = append(probs, "a different frame than the signed one is written")
			}
		}
		r.Check(len(probs) == 0, "R6.3", key, c.Pos(S.Pos()), "flag, link id, timestamp, checksum → signature → write", strings.Join(probs, "; "))
	}

	// R6.4
	ruleKeyPlumbing(c, "R6.4")
}

func orStr(a, b string) string {
	if a != "" {
		return a
	}
	return b
}

// ruleKeyPlumbing: configuration forwarded field by field.
func ruleKeyPlumbing(c *Ctx, rule string) {
	r := c.R
	r.Rule(rule, "configuration plumbing: Channel.initialize builds frame.ReadWriter{InKey: node.InKey, DialectRW, transport} and streamwriter.Writer{Key: node.OutKey, SignatureLinkID: the channel's link id (however obtained), SystemID, ComponentID, Version}; "+
		"frame.ReadWriter.Initialize / NewReader / NewWriter / NewReadWriter / NewNode forward every configuration field to the like-named field", 6)
	type lit struct {
		pkg, fn, typ string
		want         map[string]string
	}
	lits := []lit{
		{"root", "Channel.initialize", "frame.ReadWriter", map[string]string{"ByteReadWriter": "recv.rwc", "DialectRW": "recv.node.dialectRW", "InKey": "recv.node.InKey"}},
		{"root", "Channel.initialize", "streamwriter.Writer", map[string]string{"FrameWriter": "recv.frameWriter.Writer", "SystemID": "recv.node.OutSystemID", "ComponentID": "recv.node.OutComponentID",
			"SignatureLinkID": "<any>", "Key": "recv.node.OutKey"}},
		{"pkg/frame", "NewReader", "frame.Reader", map[string]string{"ByteReader": "arg0.Reader", "DialectRW": "arg0.DialectRW", "InKey": "arg0.InKey"}},
		{"pkg/frame", "NewWriter", "frame.Writer", map[string]string{"ByteWriter": "arg0.Writer", "DialectRW": "arg0.DialectRW", "OutVersion": "arg0.OutVersion", "OutSystemID": "arg0.OutSystemID",
			"OutComponentID": "arg0.OutComponentID", "OutSignatureLinkID": "arg0.OutSignatureLinkID", "OutKey": "arg0.OutKey"}},
		{"pkg/frame", "NewReadWriter", "frame.ReadWriter", map[string]string{"ByteReadWriter": "arg0.ReadWriter", "DialectRW": "arg0.DialectRW", "InKey": "arg0.InKey", "OutVersion": "arg0.OutVersion",
			"OutSystemID": "arg0.OutSystemID", "OutComponentID": "arg0.OutComponentID", "OutSignatureLinkID": "arg0.OutSignatureLinkID", "OutKey": "arg0.OutKey"}},
		{"root", "NewNode", "gomavlib.Node", map[string]string{"Dialect": "arg0.Dialect", "InKey": "arg0.InKey", "OutVersion": "arg0.OutVersion", "OutSystemID": "arg0.OutSystemID",
			"OutComponentID": "arg0.OutComponentID", "OutKey": "arg0.OutKey", "Endpoints": "arg0.Endpoints"}},
	}
	for _, l := range lits {
		fn := c.Fn(l.pkg, l.fn)
		if fn == nil {
			continue
		}
		r.Functions[fnQual(fn)] = true
		as := litAllocs(fn, l.typ)
		key := l.fn + " " + l.typ + " literal"
		if len(as) != 1 {
			r.Broken(rule, key, fmt.Sprintf("%d literals of %s found (construction idiom changed)", len(as), l.typ))
			continue
		}
		lf := litFields(as[0])
		var probs []string
		for f, w := range l.want {
			if w == "<any>" {
				// how the channel obtains its link id (random, counter, configuration) is not part of any property;
				// that the writer stamps the link id it was given is R6.3
				if lf[f] == nil {
					probs = append(probs, f+" is not set")
				}
				continue
			}
			if g := exOrNil(lf[f]); g != w {
				probs = append(probs, f+" ← "+g+" (expected "+w+")")
			}
		}
		sortStrings(probs)
		r.Check(len(probs) == 0, rule, key, c.Pos(as[0].Pos()), fmt.Sprintf("%d fields forwarded", len(l.want)), "configuration not forwarded: "+strings.Join(probs, "; "))
	}
	// ReadWriter.Initialize: via the deprecated constructors or direct literals; either way every field must arrive
	if fn := c.Fn("pkg/frame", "ReadWriter.Initialize"); fn != nil {
		r.Functions[fnQual(fn)] = true
		var probs []string
		check := func(typ string, want map[string]string) {
			as := litAllocs(fn, typ)
			if len(as) != 1 {
				probs = append(probs, fmt.Sprintf("%d %s literals", len(as), typ))
				return
			}
			lf := litFields(as[0])
			for f, w := range want {
				if g := exOrNil(lf[f]); g != w {
					probs = append(probs, typ+"."+f+" ← "+g+" (expected "+w+")")
				}
			}
		}
		if len(litAllocs(fn, "frame.ReaderConf")) > 0 {
			check("frame.ReaderConf", map[string]string{"Reader": "recv.ByteReadWriter", "DialectRW": "recv.DialectRW", "InKey": "recv.InKey"})
		} else {
			check("frame.Reader", map[string]string{"ByteReader": "recv.ByteReadWriter", "DialectRW": "recv.DialectRW", "InKey": "recv.InKey"})
		}
		wwant := map[string]string{"DialectRW": "recv.DialectRW", "OutVersion": "recv.OutVersion", "OutSystemID": "recv.OutSystemID", "OutComponentID": "recv.OutComponentID",
			"OutSignatureLinkID": "recv.OutSignatureLinkID", "OutKey": "recv.OutKey"}
		if len(litAllocs(fn, "frame.WriterConf")) > 0 {
			wwant["Writer"] = "recv.ByteReadWriter"
			check("frame.WriterConf", wwant)
		} else {
			wwant["ByteWriter"] = "recv.ByteReadWriter"
			check("frame.Writer", wwant)
		}
		sortStrings(probs)
		r.Check(len(probs) == 0, rule, "ReadWriter.Initialize forwarding", c.Pos(fn.Pos()), "reader and writer receive every configuration field", "configuration not forwarded: "+strings.Join(probs, "; "))
	}
	// version mapping of Channel.initialize: node.OutVersion == V2 → streamwriter.V2, anything else → V1
	if ini := c.FnOpt("root", "Channel.initialize"); ini != nil {
		ok, got := false, "no streamwriter.Writer literal"
		for _, a := range litAllocs(ini, "streamwriter.Writer") {
			if v := litFields(a)["Version"]; v != nil {
				ok, got = versionMappingOK(c, ini, v)
			} else {
				got = "Version field not set"
			}
		}
		r.Check(ok, rule, "Channel.initialize version mapping", c.Pos(ini.Pos()), "OutVersion == V2 → streamwriter.V2 else V1", "the node's OutVersion is not mapped to the stream writer's version (V2 → V2, anything else → V1): "+got)
	}
}

// versionMappingOK recognises the value  (node.OutVersion == 2) ? 2 : 1  computed by a closure, a helper
// function or an if/else in place.
func versionMappingOK(c *Ctx, fn *ssa.Function, v ssa.Value) (bool, string) {
	const src = "recv.node.OutVersion"
	twoWay := func(f *ssa.Function, x string) bool {
		for _, iff := range ifsIn(f) {
			tb, fb, hit := succWhen(iff, "("+x+" == 2)")
			if !hit {
				continue
			}
			rt, ok1 := tb.Instrs[len(tb.Instrs)-1].(*ssa.Return)
			rf, ok2 := fb.Instrs[len(fb.Instrs)-1].(*ssa.Return)
			if ok1 && ok2 && len(rt.Results) == 1 && ex(rt.Results[0]) == "2" && ex(rf.Results[0]) == "1" && len(retInstrs(f)) == 2 {
				return true
			}
		}
		return false
	}
	switch x := peel(v).(type) {
	case *ssa.Call:
		var f *ssa.Function
		if mc, ok := x.Call.Value.(*ssa.MakeClosure); ok {
			f = mc.Fn.(*ssa.Function)
		} else {
			f = x.Call.StaticCallee()
		}
		if f == nil || f.Blocks == nil {
			return false, ex(v)
		}
		if len(x.Call.Args) == 0 {
			return twoWay(f, src), ex(v)
		}
		if len(x.Call.Args) == 1 && ex(x.Call.Args[0]) == src {
			return twoWay(f, "arg0"), ex(v)
		}
		return false, ex(v)
	case *ssa.Phi:
		if len(x.Edges) != 2 {
			return false, ex(v)
		}
		ok := true
		holdsOnEdge := func(want string, pred *ssa.BasicBlock) bool {
			if condTrueAt(fn, want, pred) {
				return true
			}
			if iff := blockIf(pred); iff != nil {
				if tb, _, hit := succWhen(iff, want); hit && tb == x.Block() {
					return true
				}
			}
			return false
		}
		for i, e := range x.Edges {
			k, isK := constInt(e)
			pred := x.Block().Preds[i]
			switch {
			case isK && k == 2:
				if !holdsOnEdge("("+src+" == 2)", pred) {
					ok = false
				}
			case isK && k == 1:
				if !holdsOnEdge("("+src+" != 2)", pred) {
					ok = false
				}
			default:
				ok = false
			}
		}
		return ok, ex(v)
	}
	return false, ex(v)
}

// ---------------------------------------------------------------------------------------------
// C07
// ---------------------------------------------------------------------------------------------

func runC07(c *Ctx) {
	r := c.R
	r.NotDecided = append(r.NotDecided,
		"'never decrease on a link': time.Since of a wall-clock reference follows the wall clock; whether it steps back is an environment fact",
		"accept/refuse decisions over enumerated timestamp histories as executions")
	rf := collectReaderFacts(c)
	if rf == nil {
		return
	}
	fn := rf.fn
	r.Functions[fnQual(fn)] = true
	curF := c.Field("pkg/frame", "Reader", "curReadSignatureTime")

	// the refusal: the If whose true edge returns the "too old" ReadError. Identified structurally: an ordering
	// comparison involving SignatureTimestamp and curReadSignatureTime whose one edge returns an error.
	var winIf *ssa.If
	refuseIdx := 0
	for _, iff := range ifsIn(fn) {
		b, ok := iff.Cond.(*ssa.BinOp)
		if !ok {
			continue
		}
		switch b.Op {
		case token.LSS, token.GTR, token.LEQ, token.GEQ:
		default:
			continue
		}
		s := ex(b)
		if !strings.Contains(s, "SignatureTimestamp") || !strings.Contains(s, "curReadSignatureTime") {
			continue
		}
		// the refusal may sit on either side (`if old { refuse }` or `if fresh { accept } else { refuse }`)
		for si, tb := range iff.Block().Succs {
			if ret, ok := tb.Instrs[len(tb.Instrs)-1].(*ssa.Return); ok && len(ret.Results) == 2 && !isNilConst(ret.Results[1]) {
				winIf, refuseIdx = iff, si
			}
		}
	}
	r.Rule("R7.1", "window arithmetic cannot wrap: in Reader.Read no ordering comparison consumes the result of an unsigned subtraction unless a dominating guard establishes minuend ≥ subtrahend "+
		"(accepted forms: `ts + C < cur` on 48-bit operands, or `cur > C' && ts < cur - C` with C' ≥ C)", 1)
	r.Rule("R7.2", "the refusal test is strict (a frame exactly 1,000,000 ticks older is accepted), its constant evaluates to 1,000,000 ticks of 10 µs, it compares the verified frame's timestamp with the remembered maximum, "+
		"and it is reachable only after the signature comparison passed", 1)
	if winIf == nil {
		r.Fail("R7.2", "Reader.Read window test", c.Pos(fn.Pos()), "no comparison between the frame's SignatureTimestamp and the remembered maximum that refuses old frames: replayed frames are accepted")
	} else {
		b := winIf.Cond.(*ssa.BinOp)
		if refuseIdx == 1 {
			// refusal on the false edge: the refusal condition is the negated comparison
			nb := *b
			nb.Op = map[token.Token]token.Token{token.LSS: token.GEQ, token.GEQ: token.LSS, token.GTR: token.LEQ, token.LEQ: token.GTR}[b.Op]
			b = &nb
		}
		// R7.1: unsigned SUB feeding the comparison
		bad71 := ""
		var subs []*ssa.BinOp
		var findSub func(v ssa.Value, d int)
		findSub = func(v ssa.Value, d int) {
			if d > 4 {
				return
			}
			if bo, ok := v.(*ssa.BinOp); ok {
				if bo.Op == token.SUB {
					subs = append(subs, bo)
				}
				findSub(bo.X, d+1)
				findSub(bo.Y, d+1)
			}
			if cv, ok := v.(*ssa.Convert); ok {
				findSub(cv.X, d+1)
			}
		}
		findSub(b.X, 0)
		findSub(b.Y, 0)
		for _, sb := range subs {
			k, isK := constInt(sb.Y)
			guard := false
			for _, iff := range ifsIn(fn) {
				g, ok := iff.Cond.(*ssa.BinOp)
				if !ok || ex(g.X) != ex(sb.X) {
					continue
				}
				gk, isGK := constInt(g.Y)
				if !isGK || !isK {
					continue
				}
				if ((g.Op == token.GTR && gk >= k-1) || (g.Op == token.GEQ && gk >= k)) && edgeMustPass(fn, edge{iff.Block(), iff.Block().Succs[0]}, sb.Block()) {
					guard = true
				}
			}
			if !guard {
				bad71 = fmt.Sprintf("%s is computed in unsigned arithmetic and is not guarded by `%s >= %s`: for a remembered maximum below the constant it wraps around and in-window (even newer) frames are refused", ex(sb), ex(sb.X), ex(sb.Y))
			}
		}
		r.Check(bad71 == "", "R7.1", "Reader.Read window subtraction", c.Pos(winIf.Pos()), fmt.Sprintf("%d unsigned subtractions feed the window comparison, all guarded", len(subs)), bad71)
		// R7.2: normalise to  ts + K < cur   /  ts < cur - K
		ts, cur, K, strict := windowShape(b)
		var probs []string
		if !strict {
			probs = append(probs, "the refusal comparison is not strict: a frame exactly at the window edge is refused")
		}
		if K != 1000000 {
			probs = append(probs, fmt.Sprintf("window constant evaluates to %d ticks, the property states 1,000,000 (10 s)", K))
		}
		if !strings.HasSuffix(ts, ".SignatureTimestamp") || (rf.v2 != nil && !strings.Contains(ts, ex(rf.v2))) {
			probs = append(probs, "left operand is not the parsed frame's SignatureTimestamp: "+ts)
		}
		if cur != "recv.curReadSignatureTime" {
			probs = append(probs, "right operand is not the reader's remembered maximum: "+cur)
		}
		if rf.sigIf == nil || !edgeMustPass(fn, edge{rf.sigIf.Block(), rf.sigIf.Block().Succs[rf.sigOKIdx]}, winIf.Block()) {
			probs = append(probs, "the window test is reachable without the signature comparison having passed")
		}
		r.Check(len(probs) == 0, "R7.2", "Reader.Read window test", c.Pos(winIf.Pos()), "ts + 1000000 < cur (strict), after signature verification", strings.Join(probs, "; "))
	}

	// R7.3 monotone memory
	r.Rule("R7.3", "the remembered maximum is stored at exactly one site in the package, in Reader.Read; the stored value is the verified frame's timestamp; the store is on the true edge of `ts > cur` and is reachable only "+
		"through the pass edges of the signature comparison and of the window test (a refused or unauthenticated frame never moves the window)", 1)
	if curF != nil {
		stores := c.fieldStoresAll(curF)
		var probs []string
		if len(stores) != 1 || stores[0].Fn != fn {
			probs = append(probs, fmt.Sprintf("%d store sites of the remembered maximum (expected one, in Reader.Read)", len(stores)))
		} else {
			st := stores[0].Store
			v := ex(st.Val)
			if !strings.HasSuffix(v, ".SignatureTimestamp") || (rf.v2 != nil && !strings.Contains(v, ex(rf.v2))) {
				probs = append(probs, "stored value is not the parsed frame's timestamp: "+v)
			}
			mono := false
			for _, iff := range ifsIn(fn) {
				if g, ok := iff.Cond.(*ssa.BinOp); ok {
					gs := ex(g)
					if (g.Op == token.GTR && gs == "("+v+" > recv.curReadSignatureTime)") || (g.Op == token.LSS && gs == "(recv.curReadSignatureTime < "+v+")") ||
						(g.Op == token.GEQ && gs == "("+v+" >= recv.curReadSignatureTime)") || (g.Op == token.LEQ && gs == "(recv.curReadSignatureTime <= "+v+")") { // storing an equal value leaves the maximum as it is
						if edgeMustPass(fn, edge{iff.Block(), iff.Block().Succs[0]}, st.Block()) {
							mono = true
						}
					}
				}
			}
			if !mono {
				probs = append(probs, "the store is not on the true edge of `ts > cur`: the remembered maximum can decrease")
			}
			if rf.sigIf == nil || !edgeMustPass(fn, edge{rf.sigIf.Block(), rf.sigIf.Block().Succs[rf.sigOKIdx]}, st.Block()) {
				probs = append(probs, "the window moves before the signature was verified")
			}
			if winIf != nil {
				// the store must not be reachable through the refusal edge, and must come after the window test
				if reachFrom(winIf.Block().Succs[refuseIdx], nil, nil)[st.Block()] && !reachFrom(winIf.Block().Succs[1-refuseIdx], nil, nil)[st.Block()] {
					probs = append(probs, "the window moves on the refusal edge")
				}
				if reachInstr(st, winIf) {
					probs = append(probs, "the window is updated before the window test of the same frame")
				}
			}
		}
		pos := "-"
		if len(stores) > 0 {
			pos = c.Pos(stores[0].Store.Pos())
		}
		r.Check(len(probs) == 0, "R7.3", "Reader.curReadSignatureTime update", pos, "single, verified, monotone update", strings.Join(probs, "; "))
	}

	// R7.4 writer units
	r.Rule("R7.4", "both signing writers compute the timestamp as uint64(time.Since(ref)) / 10000 (nanoseconds → 10 µs ticks) with ref = time.Date(2015, January, 1, 0,0,0,0, time.UTC), a package variable stored only by its initialiser", 4)
	for _, o := range originators {
		if !o.fills {
			continue
		}
		w := c.Fn(o.pkg, o.name)
		if w == nil {
			continue
		}
		pk := strings.TrimPrefix(o.pkg, "pkg/")
		want := "(uint64(time.Since(" + pk + ".signatureReferenceDate)) / 10000)"
		got := ""
		for _, s := range frameStoresIn(w) {
			if s.field == "SignatureTimestamp" {
				got = s.val
			}
		}
		r.Check(got == want, "R7.4", o.name+" timestamp", c.Pos(w.Pos()), got, "timestamp is computed as "+orStr(got, "<never>")+", expected "+want)
		ini := c.InitFn(o.pkg)
		okRef := false
		gotRef := ""
		if ini != nil {
			for _, in := range allInstrs(ini) {
				if st, ok := in.(*ssa.Store); ok && ex(st.Addr) == "&"+pk+".signatureReferenceDate" {
					gotRef = ex(st.Val)
					okRef = gotRef == "time.Date(2015,1,1,0,0,0,0,time.UTC)"
				}
			}
		}
		nOther := 0
		for _, f := range c.AllFns {
			for _, in := range allInstrs(f) {
				if st, ok := in.(*ssa.Store); ok && ex(st.Addr) == "&"+pk+".signatureReferenceDate" {
					nOther++
				}
			}
		}
		r.Check(okRef && nOther == 0, "R7.4", pk+".signatureReferenceDate", "-", gotRef, fmt.Sprintf("reference date is %s (expected time.Date(2015,1,1,0,0,0,0,time.UTC)); stores outside the initialiser: %d", orStr(gotRef, "<not found>"), nOther))
	}
}

// windowShape normalises the refusal comparison. Returns renderings of ts and cur, the constant and
// whether the comparison is strict, for the forms  ts+K < cur | cur > ts+K | ts < cur-K | cur-K > ts.
func windowShape(b *ssa.BinOp) (ts, cur string, K int64, strict bool) {
	l, rgt := b.X, b.Y
	switch b.Op {
	case token.LSS:
		strict = true
	case token.GTR:
		strict = true
		l, rgt = rgt, l
	case token.LEQ:
	case token.GEQ:
		l, rgt = rgt, l
	}
	// now: l (<|<=) r
	if a, ok := l.(*ssa.BinOp); ok && a.Op == token.ADD {
		if k, isK := constInt(a.Y); isK {
			return ex(a.X), ex(rgt), k, strict
		}
		if k, isK := constInt(a.X); isK {
			return ex(a.Y), ex(rgt), k, strict
		}
	}
	if s, ok := rgt.(*ssa.BinOp); ok && s.Op == token.SUB {
		if k, isK := constInt(s.Y); isK {
			return ex(l), ex(s.X), k, strict
		}
	}
	return ex(l), ex(rgt), -1, strict
}

// ---------------------------------------------------------------------------------------------
// C09
// ---------------------------------------------------------------------------------------------

func runC09(c *Ctx) {
	r := c.R
	defer borrowRules(c, "C01", runC01inner, map[string]string{"R1.6": "R9.6"}, "the checksum stamped by the originator is correct only for the payload that is then marshalled unchanged and whole")
	defer ruleKeyPlumbing(c, "R9.7")
	defer ruleCodecNoSharedWrites(c, "R9.8", "C09: the checksum of an originated frame is computed with the codec looked up for its own message id, whatever other goroutines look up at the same time")
	defer borrowRules(c, "C02", runC02, map[string]string{"R2.1": "R9.9"}, "the checksum stamped on an originated frame is correct only if the hash covers every header byte, including all three bytes of a v2 message id")
	r.NotDecided = append(r.NotDecided,
		"the emitted sequence over long histories as an observation (the modulo-256 wrap is the uint8 type's)",
		"frame.Writer.WriteMessage's deprecated path has no initialisation-time validation; the statement's refusal clause is anchored at streamwriter.Writer / Node")
	// R9.1
	r.Rule("R9.1", "initialisation validation in both siblings (streamwriter.Writer.Initialize, Node.Initialize): version == 0 → error, system id < 1 → error, component id < 1 → set to 1, key != nil && version != V2 → error; "+
		"no success return is reachable from a failing edge; in Node.Initialize they precede every goroutine start", 8)
	for _, s := range []struct{ pkg, fn, ver, sys, comp, key string }{
		{"pkg/streamwriter", "Writer.Initialize", "recv.Version", "recv.SystemID", "recv.ComponentID", "recv.Key"},
		{"root", "Node.Initialize", "recv.OutVersion", "recv.OutSystemID", "recv.OutComponentID", "recv.OutKey"},
	} {
		fn := c.Fn(s.pkg, s.fn)
		if fn == nil {
			continue
		}
		r.Functions[fnQual(fn)] = true
		errorsOnly := func(b *ssa.BasicBlock) bool {
			for blk := range reachFrom(b, nil, nil) {
				if ret, ok := blk.Instrs[len(blk.Instrs)-1].(*ssa.Return); ok && len(ret.Results) == 1 && isNilConst(ret.Results[0]) {
					return false
				}
			}
			return true
		}
		firstGo := func(iff *ssa.If) bool {
			for _, in := range allInstrs(fn) {
				if _, ok := in.(*ssa.Go); ok && (reachInstr(in, iff) || !reachInstr(iff, in)) {
					return false
				}
			}
			return true
		}
		// find: the If testing one of the given conditions (in any equivalent spelling) and the successor taken
		// when it holds
		find := func(conds ...string) (*ssa.If, *ssa.BasicBlock) {
			for _, iff := range ifsIn(fn) {
				for _, cs := range conds {
					if tb, _, hit := succWhen(iff, cs); hit {
						return iff, tb
					}
				}
			}
			return nil, nil
		}
		// version
		if iff, tb := find("("+s.ver+" == 0)", "("+s.ver+" < 1)"); iff != nil {
			r.Check(errorsOnly(tb) && firstGo(iff), "R9.1", s.fn+" version check", c.Pos(iff.Pos()), "missing version refused", "a missing protocol version does not lead to an error return")
		} else {
			r.Fail("R9.1", s.fn+" version check", c.Pos(fn.Pos()), "no `version == 0 → error` check")
		}
		if iff, tb := find("("+s.sys+" < 1)", "("+s.sys+" == 0)"); iff != nil {
			r.Check(errorsOnly(tb) && firstGo(iff), "R9.1", s.fn+" system id check", c.Pos(iff.Pos()), "zero system id refused", "a zero system id does not lead to an error return")
		} else {
			r.Fail("R9.1", s.fn+" system id check", c.Pos(fn.Pos()), "no `system id < 1 → error` check")
		}
		if iff, tb := find("("+s.comp+" < 1)", "("+s.comp+" == 0)"); iff != nil {
			ok := false
			for _, in := range tb.Instrs {
				if st, isSt := in.(*ssa.Store); isSt && ex(st.Addr) == "&"+s.comp && ex(st.Val) == "1" {
					ok = true
				}
			}
			r.Check(ok, "R9.1", s.fn+" component default", c.Pos(iff.Pos()), "unset component id defaults to 1", "an unset component id is not defaulted to 1")
		} else {
			r.Fail("R9.1", s.fn+" component default", c.Pos(fn.Pos()), "no `component id < 1 → 1` default")
		}
		// some test `version != 2` inside the `key != nil` region whose true edge only reports an error
		// (other tests of the version, e.g. a range validation, may exist besides it)
		k1, k1t := find("(" + s.key + " != nil)")
		ok := false
		pos := c.Pos(fn.Pos())
		for _, k2 := range ifsIn(fn) {
			k2t, _, hit := succWhen(k2, "("+s.ver+" != 2)")
			if !hit || k1 == nil {
				continue
			}
			if edgeMustPass(fn, edge{k1.Block(), k1t}, k2.Block()) && errorsOnly(k2t) && firstGo(k2) {
				ok = true
				pos = c.Pos(k2.Pos())
			}
		}
		r.Check(ok, "R9.1", s.fn+" key requires v2", pos, "outgoing key with version 1 refused", "an outgoing key combined with a version other than 2 is not refused at initialisation")
	}

	// R9.2 identity fill + R9.3 counter + R9.4 checksum, per originator
	r.Rule("R9.2", "identity fill in streamwriter.writeInner (and deprecated writeFrameAndFill) for both frame kinds: SequenceNumber ← the link counter, SystemID / ComponentID ← the configured ids; v2: CompatibilityFlag ← 0, "+
		"IncompatibilityFlag ← 0 (|1 only under a key); all of them before the checksum is computed; Writer.Write / WriteMessage choose *V1Frame exactly for version 1", 4)
	r.Rule("R9.3", "gapless counter: the per-link sequence counter is incremented at exactly one site per writer, by one, in the function that fills it in, and only on the success edge of the hand-over of the frame "+
		"to the transport writer: a write refused before I/O (dialect missing, id not in dialect, v1 id > 255) or failed must not burn a number", 2)
	r.Rule("R9.4", "checksum ← GenerateChecksum(mp.CRCExtra()) with mp looked up by the id of the frame being written, computed after the message was encoded and before signing and hand-over, for both frame kinds", 4)
	for _, o := range originators {
		fn := c.Fn(o.pkg, o.name)
		if fn == nil {
			continue
		}
		r.Functions[fnQual(fn)] = true
		fs := frameStoresIn(fn)
		// R9.4
		for _, owner := range []string{"frame.V1Frame", "frame.V2Frame"} {
			var cs *frameStore
			for i := range fs {
				if fs[i].owner == owner && fs[i].field == "Checksum" {
					cs = &fs[i]
				}
			}
			key := o.name + " " + owner + " checksum"
			if cs == nil {
				r.Fail("R9.4", key, c.Pos(fn.Pos()), "the checksum of an originated "+owner+" is never computed")
				continue
			}
			var probs []string
			call, isCall := cs.st.Val.(*ssa.Call)
			if !isCall || !strings.HasSuffix(calleeName(&call.Call), ".GenerateChecksum") {
				probs = append(probs, "checksum is not the result of GenerateChecksum: "+cs.val)
			} else {
				ce, isCE := call.Call.Args[1].(*ssa.Call)
				if !isCE || calleeName(&ce.Call) != "(message.ReadWriter).CRCExtra" {
					probs = append(probs, "CRC_EXTRA argument is "+ex(call.Call.Args[1]))
				} else if mp := ex(ce.Call.Args[0]); mp != "(dialect.ReadWriter).GetMessage("+o.dialect+",(message.Message).GetID((frame.Frame).GetMessage(arg0)))" {
					probs = append(probs, "CRC_EXTRA comes from "+mp+", not from the codec of the frame's own message id")
				}
				if !strings.Contains(ex(call.Call.Args[0]), "arg0.(*"+owner+")") {
					probs = append(probs, "checksum computed over another frame")
				}
			}
			for _, ci := range callsIn(fn, func(n string, _ *ssa.CallCommon) bool { return isEncodeCall(n) }) {
				if reachInstr(cs.st, ci) {
					probs = append(probs, "the message is (re-)encoded after the checksum was computed")
				}
			}
			if o.handover != "" {
				hs, _ := handoverOf(fn, o)
				for _, h := range hs {
					if !reachInstr(cs.st, h) {
						probs = append(probs, "checksum computed after the hand-over")
					}
				}
			}
			r.Check(len(probs) == 0, "R9.4", key, c.Pos(cs.st.Pos()), "GenerateChecksum(CRCExtra of the frame's own codec), after encoding", strings.Join(probs, "; "))
		}
		// on every feasible path to the hand-over a checksum has been computed (an originated frame never leaves with
		// the zero value or a stale checksum, whatever its message looked like when it was handed in)
		if o.handover != "" {
			var sums []ssa.Instruction
			for i := range fs {
				if fs[i].field == "Checksum" {
					sums = append(sums, fs[i].st)
				}
			}
			hs, _ := handoverOf(fn, o)
			okAll := len(hs) > 0
			for _, h := range hs {
				if !mustPrecedeAny(fn, sums, h) {
					okAll = false
				}
			}
			r.Check(okAll, "R9.4", o.name+" checksum on every path", c.Pos(fn.Pos()), "every path to the hand-over computes the checksum",
				"a path reaches the hand-over without the checksum having been computed (e.g. a message that is already raw skips it): the originated frame leaves with checksum 0 or a stale one")
		}
		if !o.fills {
			continue
		}
		// R9.2
		for _, owner := range []string{"frame.V1Frame", "frame.V2Frame"} {
			want := map[string]string{"SequenceNumber": o.seq, "SystemID": o.sysid, "ComponentID": o.compid}
			if owner == "frame.V2Frame" {
				want["CompatibilityFlag"] = "0"
				want["IncompatibilityFlag"] = "0"
			}
			var probs []string
			for f, w := range want {
				found := false
				for _, s := range fs {
					if s.owner == owner && s.field == f && s.val == w {
						found = true
						// before checksum
						for _, s2 := range fs {
							if s2.owner == owner && s2.field == "Checksum" && reachInstr(s2.st, s.st) {
								probs = append(probs, f+" is stored after the checksum was computed")
							}
						}
					}
				}
				if !found {
					probs = append(probs, f+" is not set from "+w)
				}
			}
			for _, s := range fs {
				if s.owner == owner && want[s.field] != "" && s.val != want[s.field] && !(s.field == "IncompatibilityFlag" && isSignedFlagValue(s.val) && condTrueAt(fn, "("+o.key+" != nil)", s.st.Block())) {
					probs = append(probs, s.field+" is also set from "+s.val)
				}
			}
			sortStrings(probs)
			r.Check(len(probs) == 0, "R9.2", o.name+" "+owner+" identity", c.Pos(fn.Pos()), fmt.Sprintf("%d header fields filled from the link configuration", len(want)), strings.Join(probs, "; "))
		}
		// R9.3
		seqField := c.Field(o.pkg, "Writer", "nextSeqNumber")
		if seqField != nil {
			stores := c.fieldStoresAll(seqField)
			key := o.name + " sequence counter"
			if len(stores) != 1 || stores[0].Fn != fn {
				var where []string
				for _, s := range stores {
					where = append(where, fnLocalName(s.Fn))
				}
				r.Fail("R9.3", key, c.Pos(fn.Pos()), fmt.Sprintf("the sequence counter is written at %d sites %v, expected exactly one in %s", len(stores), where, o.name))
			} else {
				st := stores[0].Store
				var probs []string
				if ex(st.Val) != "("+o.seq+" + 1)" {
					probs = append(probs, "the counter is updated to "+ex(st.Val)+" instead of counter+1")
				}
				if inLoop(st.Block()) {
					probs = append(probs, "increment inside a loop")
				}
				_, hs := handoverOf(fn, o)
				if len(hs) != 1 {
					probs = append(probs, fmt.Sprintf("%d hand-over calls", len(hs)))
				} else {
					h := hs[0].(*ssa.Call)
					herr := errValueOf(h)
					okEdge := false
					for _, iff := range ifsIn(fn) {
						b, isB := iff.Cond.(*ssa.BinOp)
						if !isB || herr == nil || !nilOnlyVia(b.X, herr) || !isNilConst(b.Y) {
							continue
						}
						if b.Op == token.NEQ && edgeMustPass(fn, edge{iff.Block(), iff.Block().Succs[1]}, st.Block()) {
							okEdge = true
						}
						if b.Op == token.EQL && edgeMustPass(fn, edge{iff.Block(), iff.Block().Succs[0]}, st.Block()) {
							okEdge = true
						}
					}
					if !okEdge {
						// describe the failing history
						var ret ssa.Instruction
						if in, found := pathExistsAvoiding(st, func(in ssa.Instruction) bool {
							rt, isR := in.(*ssa.Return)
							return isR && len(rt.Results) == 1 && !isNilConst(rt.Results[0]) && rt.Results[0] != herr
						}, func(in ssa.Instruction) bool { return in == ssa.Instruction(h) }); found {
							ret = in
						}
						if ret != nil {
							probs = append(probs, "the counter is advanced before the frame is accepted: the error return at "+c.Pos(ret.Pos())+" is reachable after the increment without any I/O, so a refused write leaves a gap in the sequence numbers")
						} else {
							probs = append(probs, "the counter is not advanced on the success edge of the hand-over: a write that fails (before or during I/O) burns a sequence number")
						}
					}
				}
				r.Check(len(probs) == 0, "R9.3", key, c.Pos(st.Pos()), "incremented once, only after the hand-over succeeded", strings.Join(probs, "; "))
			}
		}
	}
	// version dispatch
	for _, w := range []struct{ pkg, fn, ver, callee string }{
		{"pkg/streamwriter", "Writer.Write", "recv.Version", "(streamwriter.Writer).writeInner"},
		{"pkg/frame", "Writer.WriteMessage", "recv.OutVersion", "(frame.Writer).writeFrameAndFill"},
	} {
		fn := c.Fn(w.pkg, w.fn)
		if fn == nil {
			continue
		}
		ok := false
		for _, iff := range ifsIn(fn) {
			v1b, v2b, hit := succWhen(iff, "("+w.ver+" == 1)")
			if !hit {
				continue
			}
			kind := func(b *ssa.BasicBlock) string {
				for _, in := range b.Instrs {
					if call, isC := in.(*ssa.Call); isC && calleeName(&call.Call) == w.callee {
						a := call.Call.Args[len(call.Call.Args)-1]
						s := ex(a)
						if al := underlyingAlloc(a); al != nil {
							if v := litFields(al)["Message"]; v == nil || ex(v) != "arg0" {
								return "?"
							}
						}
						return s
					}
				}
				return ""
			}
			if kind(v1b) == "&lit:frame.V1Frame" && kind(v2b) == "&lit:frame.V2Frame" {
				ok = true
			}
			// single hand-over of a frame variable assigned in the two branches
			for _, ci := range callsNamed(fn, w.callee) {
				a := ci.Common().Args[len(ci.Common().Args)-1]
				p, isPhi := peel(a).(*ssa.Phi)
				if !isPhi || len(p.Edges) != 2 {
					continue
				}
				good := 0
				for i, e := range p.Edges {
					al := underlyingAlloc(peel(e))
					if al == nil {
						continue
					}
					if v := litFields(al)["Message"]; v == nil || ex(v) != "arg0" {
						continue
					}
					pred := p.Block().Preds[i]
					side := func(b *ssa.BasicBlock) bool {
						return pred == b || (b != p.Block() && edgeMustPass(fn, edge{iff.Block(), b}, pred)) || (pred == iff.Block() && b == p.Block())
					}
					t := typeStr(al.Type().(*types.Pointer).Elem())
					if (t == "frame.V1Frame" && side(v1b)) || (t == "frame.V2Frame" && side(v2b)) {
						good++
					}
				}
				if good == 2 {
					ok = true
				}
			}
		}
		r.Check(ok, "R9.2", w.fn+" version dispatch", c.Pos(fn.Pos()), "version 1 → *V1Frame{Message: msg}, otherwise *V2Frame{Message: msg}", "the configured version does not select the frame kind (V1 → V1Frame, else V2Frame) wrapping the caller's message")
	}
	// counter and frame field are both uint8 (wrap modulo 256)
	for _, f := range []struct{ pkg, typ, field string }{{"pkg/streamwriter", "Writer", "nextSeqNumber"}, {"pkg/frame", "V1Frame", "SequenceNumber"}, {"pkg/frame", "V2Frame", "SequenceNumber"}} {
		if fv := c.Field(f.pkg, f.typ, f.field); fv != nil {
			r.Check(intWidth(fv.Type()) == 1, "R9.3", f.typ+"."+f.field+" width", c.Pos(fv.Pos()), "uint8 (wraps modulo 256)", "sequence number field is not 8 bits wide")
		}
	}
	// R9.5
	r.Rule("R9.5", "version 1 output omits extension fields and refuses big ids: Node.encodeMessage encodes with isV2 = (OutVersion == V2); every other encode site derives isV2 from a *V2Frame type test of the frame being encoded; "+
		"the v1 writer's id gate is R1.4", 4)
	nSites := 0
	for _, fn := range c.AllFns {
		for _, ci := range callsNamed(fn, "(message.ReadWriter).Write") {
			nSites++
			a := ci.Common().Args
			isv2 := ex(a[2])
			key := fnLocalName(fn) + " mp.Write isV2"
			ok := false
			switch {
			case fnLocalName(fn) == "Node.encodeMessage":
				ok = isv2 == "(recv.OutVersion == 2)"
			default:
				fr := versionOfFrame(fn, ci, a[2])
				ok = fr != "" && strings.Contains(ex(a[1]), fr)
			}
			r.Check(ok, "R9.5", key, c.Pos(ci.Pos()), "isV2 = "+isv2, "the protocol version passed to the message encoder ("+isv2+") is not derived from the frame being encoded / the configured output version")
		}
	}
	// Node.encodeMessage delegating to encodeFrame through a temporary frame: the frame kind must follow OutVersion
	if em := c.FnOpt("root", "Node.encodeMessage"); em != nil && len(callsNamed(em, "(message.ReadWriter).Write")) == 0 {
		nSites++
		kinds := map[string]bool{}
		for _, ci := range callsNamed(em, "(gomavlib.Node).encodeFrame") {
			var walk func(v ssa.Value, d int)
			walk = func(v ssa.Value, d int) {
				if d > 4 {
					return
				}
				switch x := v.(type) {
				case *ssa.MakeInterface:
					walk(x.X, d+1)
				case *ssa.Phi:
					for _, e := range x.Edges {
						walk(e, d+1)
					}
				case *ssa.Alloc:
					kinds[typeStr(x.Type().(*types.Pointer).Elem())] = true
				}
			}
			walk(ci.Common().Args[1], 0)
		}
		byVersion := false
		for _, iff := range ifsIn(em) {
			if _, _, hit := succWhen(iff, "(recv.OutVersion == 2)"); hit {
				byVersion = true
			}
			if _, _, hit := succWhen(iff, "(recv.OutVersion == 1)"); hit {
				byVersion = true
			}
		}
		ok := kinds["frame.V1Frame"] && kinds["frame.V2Frame"] && byVersion
		r.Check(ok, "R9.5", "Node.encodeMessage mp.Write isV2", c.Pos(em.Pos()), "temporary frame kind selected by OutVersion",
			fmt.Sprintf("originated messages are encoded through a temporary frame of kind %v that does not follow the configured OutVersion: a version-1 node emits extension fields / zero-truncated payloads inside v1 frames", keysOf(kinds)))
	}
	if nSites < 4 {
		r.Broken("R9.5", "mp.Write sites", fmt.Sprintf("only %d encode sites found", nSites))
	}
	ruleVersionGate(c)
}

// pureFieldCond: a comparison between a field of a parameter-rooted object and a constant / nil, where
// that field is never stored in the function: two evaluations in one invocation agree.
func pureFieldCond(b *ssa.BinOp) bool {
	var fieldSide ssa.Value
	switch {
	case isConstOrNil(b.Y):
		fieldSide = b.X
	case isConstOrNil(b.X):
		fieldSide = b.Y
	default:
		return false
	}
	f := loadedField(fieldSide)
	if f == nil || !strings.HasPrefix(ex(fieldSide), "recv.") {
		return false
	}
	for _, in := range allInstrs(b.Parent()) {
		if st, ok := in.(*ssa.Store); ok {
			if g, _ := fieldOfAddr(st.Addr); g == f {
				return false
			}
		}
	}
	return true
}

func isConstOrNil(v ssa.Value) bool {
	_, ok := v.(*ssa.Const)
	return ok
}

// isSignedFlagValue: the value stored into IncompatibilityFlag has the signed bit (0x01) set: `x | 1` or the
// constant 1 (V2FlagSigned).
func isSignedFlagValue(v string) bool { return strings.HasSuffix(v, "| 1)") || v == "1" }

// emptyPrefix: the argument of hash.Sum(b) contributes no bytes: nil or a slice x[:0].
func emptyPrefix(v ssa.Value) bool {
	if isNilConst(v) {
		return true
	}
	if sl, ok := v.(*ssa.Slice); ok && sl.Low == nil && sl.High != nil {
		if k, isK := constInt(sl.High); isK && k == 0 {
			return true
		}
	}
	return false
}

// versionOfFrame: isv2 — the protocol-version argument of an mp.Write call — is derived from the type of the frame
// whose message is being encoded: either the comma-ok result of F.(*frame.V2Frame), or a constant inside the branch
// of a type test / type switch on F that fixes the frame kind (true under F.(*V2Frame), false under F.(*V1Frame)).
// Returns the rendering of F, "" if the provenance is not of that form.
func versionOfFrame(fn *ssa.Function, call ssa.CallInstruction, isv2 ssa.Value) string {
	s := ex(isv2)
	if strings.HasSuffix(s, ".(*frame.V2Frame)?#1") {
		return strings.TrimSuffix(s, ".(*frame.V2Frame)?#1")
	}
	c, ok := isv2.(*ssa.Const)
	if !ok {
		return ""
	}
	want := "*frame.V1Frame"
	if s == "true" {
		want = "*frame.V2Frame"
	} else if s != "false" {
		return ""
	}
	_ = c
	for _, iff := range ifsIn(fn) {
		for v, idx := range condVariants(iff.Cond) {
			if !strings.HasSuffix(v, ".("+want+")?#1") || strings.HasPrefix(v, "!") {
				continue
			}
			if edgeMustPass(fn, edge{iff.Block(), iff.Block().Succs[idx]}, call.Block()) {
				return strings.TrimSuffix(v, ".("+want+")?#1")
			}
		}
	}
	return ""
}
