package main

import (
	"fmt"
	"go/token"
	"go/types"
	"strings"

	"golang.org/x/tools/go/ssa"
)

func init() { register("C02", []string{"./pkg/frame", "./pkg/x25", "./pkg/message"}, runC02) }

var specCRCv1 = []string{"B(len(MSG.Payload),0)", "V(recv.SequenceNumber)", "V(recv.SystemID)", "V(recv.ComponentID)", "B(MSG.ID,0)", "run(MSG.Payload)", "V(arg0)"}
var specCRCv2 = []string{"B(len(MSG.Payload),0)", "V(recv.IncompatibilityFlag)", "V(recv.CompatibilityFlag)", "V(recv.SequenceNumber)", "V(recv.SystemID)", "V(recv.ComponentID)",
	"B(MSG.ID,0)", "B(MSG.ID,1)", "B(MSG.ID,2)", "run(MSG.Payload)", "V(arg0)"}

// hashInput runs the byte interpreter over fn and returns the single hash stream it feeds (and the hash object).
func hashInput(c *Ctx, fn *ssa.Function) ([]string, ssa.Value, []string) {
	bi := newBufInterp(c, fn, func(v ssa.Value) bool { return strings.HasSuffix(normMsg(ex(v)), "MSG.Payload") }, normMsg)
	bi.run()
	if len(bi.emits) != 1 {
		return nil, nil, append(bi.undec, fmt.Sprintf("%d hash objects fed", len(bi.emits)))
	}
	for h, cs := range bi.emits {
		for _, cl := range cs {
			if cl.cond != "" {
				bi.undec = append(bi.undec, "hash input under condition "+cl.cond)
			}
		}
		return seqOf(cs), h, bi.undec
	}
	return nil, nil, bi.undec
}

func eqSeq(a, b []string) bool {
	if len(a) != len(b) {
		return false
	}
	for i := range a {
		if a[i] != b[i] {
			return false
		}
	}
	return true
}

// readerFacts collects the values of Reader.Read the gate rules talk about.
type readerFacts struct {
	fn       *ssa.Function
	frame    ssa.Value // the frame being parsed (receiver of unmarshal)
	unm      *ssa.Call // unmarshal call
	mp       ssa.Value // DialectRW.GetMessage(...) result
	mpIf     *ssa.If   // if mp != nil
	decode   *ssa.Call // mp.Read(...)
	sumIf    *ssa.If   // checksum comparison
	sumTrue  bool      // polarity: true edge = mismatch
	inKeyIf  *ssa.If   // r.InKey != nil
	sigIf    *ssa.If   // signature comparison
	v2       *ssa.TypeAssert
	v2If     *ssa.If
	sigNilIf *ssa.If
	// polarity: index of the successor on which the fact holds
	mpIdx      int // mp != nil
	keyIdx     int // InKey != nil
	v2Idx      int // the frame is a *V2Frame
	sigOKIdx   int // the signatures are equal
	sigHereIdx int // the frame carries a signature (Signature != nil)
}

func collectReaderFacts(c *Ctx) *readerFacts {
	fn := c.Fn("pkg/frame", "Reader.Read")
	if fn == nil {
		return nil
	}
	rf := &readerFacts{fn: fn}
	for _, ci := range callsIn(fn, func(n string, cc *ssa.CallCommon) bool { return cc.IsInvoke() && cc.Method.Name() == "unmarshal" }) {
		rf.unm = ci.(*ssa.Call)
		rf.frame = ci.Common().Value
	}
	for _, ci := range callsNamed(fn, "(dialect.ReadWriter).GetMessage") {
		rf.mp = ci.(*ssa.Call)
	}
	for _, ci := range callsNamed(fn, "(message.ReadWriter).Read") {
		rf.decode = ci.(*ssa.Call)
	}
	rf.sigOKIdx, rf.sigHereIdx = 1, 1
	for _, iff := range ifsIn(fn) {
		cond, neg := iff.Cond, 0
		for {
			u, isU := cond.(*ssa.UnOp)
			if !isU || u.Op != token.NOT {
				break
			}
			cond, neg = u.X, 1-neg
		}
		b, ok := cond.(*ssa.BinOp)
		if !ok {
			if e, isE := cond.(*ssa.Extract); isE && e.Index == 1 {
				if ta, isTA := e.Tuple.(*ssa.TypeAssert); isTA && sameFrame(ta.X, rf.frame) && typeStr(ta.AssertedType) == "*frame.V2Frame" && rf.v2If == nil {
					rf.v2, rf.v2If, rf.v2Idx = ta, iff, neg
				}
			}
			continue
		}
		if b.Op != token.NEQ && b.Op != token.EQL {
			continue
		}
		// index of the successor on which `X != Y` holds
		neIdx := neg
		if b.Op == token.EQL {
			neIdx = 1 - neg
		}
		x, y := b.X, b.Y
		if isNilConst(x) {
			x, y = y, x
		}
		if x == rf.mp && isNilConst(y) {
			rf.mpIf, rf.mpIdx = iff, neIdx
		}
		if ex(x) == "recv.InKey" && isNilConst(y) {
			rf.inKeyIf, rf.keyIdx = iff, neIdx
		}
		if isChecksumPair(b.X, b.Y, rf) {
			rf.sumIf = iff
			rf.sumTrue = neIdx == 0
		}
		if isSigPair(b.X, b.Y) {
			rf.sigIf, rf.sigOKIdx = iff, 1-neIdx
		}
		// constant-time form: subtle.ConstantTimeCompare(gen[:], carried[:]) != 1
		if k, isK := constInt(b.Y); isK && k == 1 && isSigCompareCall(b.X) {
			rf.sigIf, rf.sigOKIdx = iff, 1-neIdx
		}
		if strings.HasSuffix(ex(x), ".Signature") && isNilConst(y) {
			rf.sigNilIf, rf.sigHereIdx = iff, neIdx
		}
	}
	return rf
}

// sameFrame: a and b denote the frame being parsed (identical values, or identical renderings when a helper's
// parameter was substituted).
func sameFrame(a, b ssa.Value) bool {
	return a == b || (a != nil && b != nil && ex(a) == ex(b))
}

func isGenChecksum(v ssa.Value, rf *readerFacts) bool {
	call, ok := v.(*ssa.Call)
	if !ok || !call.Call.IsInvoke() || call.Call.Method.Name() != "GenerateChecksum" || !sameFrame(call.Call.Value, rf.frame) {
		return false
	}
	ce, ok := call.Call.Args[0].(*ssa.Call)
	return ok && calleeName(&ce.Call) == "(message.ReadWriter).CRCExtra" && (ce.Call.Args[0] == rf.mp || ex(ce.Call.Args[0]) == ex(rf.mp))
}

func isGetChecksum(v ssa.Value, rf *readerFacts) bool {
	call, ok := v.(*ssa.Call)
	return ok && call.Call.IsInvoke() && call.Call.Method.Name() == "GetChecksum" && sameFrame(call.Call.Value, rf.frame)
}

func isChecksumPair(x, y ssa.Value, rf *readerFacts) bool {
	return (isGenChecksum(x, rf) && isGetChecksum(y, rf)) || (isGenChecksum(y, rf) && isGetChecksum(x, rf))
}

// sigGenerated / sigCarried: pointers to the signature computed with the incoming key / carried by the frame.
func sigGenerated(v ssa.Value) bool {
	c, ok := v.(*ssa.Call)
	return ok && calleeName(&c.Call) == "(frame.V2Frame).GenerateSignature" && ex(c.Call.Args[1]) == "recv.InKey"
}

func sigCarried(v ssa.Value) bool {
	u, ok := v.(*ssa.UnOp)
	if !ok {
		return false
	}
	f, _ := fieldOfAddr(u.X)
	return f != nil && f.Name() == "Signature"
}

func isSigPair(x, y ssa.Value) bool {
	lx, ok1 := x.(*ssa.UnOp)
	ly, ok2 := y.(*ssa.UnOp)
	if !ok1 || !ok2 || lx.Op != token.MUL || ly.Op != token.MUL {
		return false
	}
	arr, ok := lx.Type().Underlying().(*types.Array)
	if !ok || arr.Len() != 6 {
		return false
	}
	return (sigGenerated(lx.X) && sigCarried(ly.X)) || (sigGenerated(ly.X) && sigCarried(lx.X))
}

// isSigCompareCall: subtle.ConstantTimeCompare(generated[:], carried[:]) over the whole 6-byte arrays.
func isSigCompareCall(v ssa.Value) bool {
	c, ok := v.(*ssa.Call)
	if !ok || calleeName(&c.Call) != "subtle.ConstantTimeCompare" || len(c.Call.Args) != 2 {
		return false
	}
	whole := func(a ssa.Value) ssa.Value {
		sl, ok := a.(*ssa.Slice)
		if !ok || sl.Low != nil || sl.High != nil {
			return nil
		}
		if pt, ok := sl.X.Type().Underlying().(*types.Pointer); ok {
			if arr, ok := pt.Elem().Underlying().(*types.Array); ok && arr.Len() == 6 {
				return sl.X
			}
		}
		return nil
	}
	a, b := whole(c.Call.Args[0]), whole(c.Call.Args[1])
	if a == nil || b == nil {
		return false
	}
	return (sigGenerated(a) && sigCarried(b)) || (sigGenerated(b) && sigCarried(a))
}

func runC02(c *Ctx) {
	r := c.R
	defer rulePeekLifetime(c, "R2.6", "C02: the id that selects CRC_EXTRA and the payload that is checksummed must be the received ones")
	r.NotDecided = append(r.NotDecided,
		"that X25.Write's arithmetic equals CRC-16/MCRF4XX for all 2^24 (state, byte) pairs: a value identity with no code-shape witness short of freezing the expression",
		"delivery of every valid frame as an observed behaviour")

	// R2.1
	r.Rule("R2.1", "bytes fed to the X.25 hash by V1Frame/V2Frame.GenerateChecksum are, in wire order, length, [incompat, compat,] seq, sysid, compid, id (LE 8/24 bit), payload, then the CRC_EXTRA parameter and nothing else; "+
		"the hash is a fresh x25.New() and the result is its Sum16", 2)
	for _, v := range []struct {
		fn   string
		spec []string
	}{{"V1Frame.GenerateChecksum", specCRCv1}, {"V2Frame.GenerateChecksum", specCRCv2}} {
		fn := c.Fn("pkg/frame", v.fn)
		if fn == nil {
			continue
		}
		r.Functions[fnQual(fn)] = true
		seq, h, undec := hashInput(c, fn)
		if len(undec) > 0 {
			r.Broken("R2.1", v.fn, "hash-input idiom not understood: "+strings.Join(undec, "; "))
			continue
		}
		ok := eqSeq(seq, v.spec) && ex(h) == "x25.New()"
		okRet := false
		for _, ret := range retInstrs(fn) {
			if len(ret.Results) == 1 {
				if call, isC := ret.Results[0].(*ssa.Call); isC && calleeName(&call.Call) == "(x25.X25).Sum16" && call.Call.Args[0] == h {
					okRet = true
				}
			}
		}
		r.Check(ok && okRet, "R2.1", v.fn+" pre-image", c.Pos(fn.Pos()), fmt.Sprintf("%d symbolic bytes in spec order, Sum16 of a fresh X25", len(seq)),
			fmt.Sprintf("checksum pre-image differs from the spec: got %v, spec %v (hash %s, returns Sum16 of it: %v)", seq, v.spec, ex(h), okRet))
	}

	// R2.2 the gate
	r.Rule("R2.2", "Reader.Read: when the dialect knows the message id (mp != nil, mp looked up with the id of this very frame), decoding (mp.Read), every store into the frame and the success return are reachable only through the "+
		"pass edge of a comparison between f.GenerateChecksum(mp.CRCExtra()) and f.GetChecksum() (unconverted 16-bit values of this frame); the mismatch edge returns a ReadError", 4)
	rf := collectReaderFacts(c)
	if rf == nil {
		return
	}
	r.Functions[fnQual(rf.fn)] = true
	if rf.unm == nil || rf.mp == nil || rf.mpIf == nil {
		r.Broken("R2.2", "Reader.Read dialect lookup", "unmarshal call / DialectRW.GetMessage lookup / `mp != nil` test not found")
		return
	}
	// mp looked up by this frame's id
	idArg := rf.mp.(*ssa.Call).Call.Args[1]
	okID := false
	if call, ok := idArg.(*ssa.Call); ok && call.Call.IsInvoke() && call.Call.Method.Name() == "GetID" {
		if gm, ok := call.Call.Value.(*ssa.Call); ok && gm.Call.IsInvoke() && gm.Call.Method.Name() == "GetMessage" && gm.Call.Value == rf.frame {
			okID = true
		}
	}
	r.Check(okID, "R2.2", "Reader.Read codec lookup", c.Pos(rf.mp.Pos()), "codec looked up by the frame's own message id", "the codec (and hence CRC_EXTRA) is not looked up with the id of the frame being validated")
	if rf.sumIf == nil {
		r.Fail("R2.2", "Reader.Read checksum comparison", c.Pos(rf.mpIf.Pos()), "no comparison between f.GenerateChecksum(mp.CRCExtra()) and f.GetChecksum() found: frames are delivered without checksum validation")
	} else {
		passIdx, failIdx := 1, 0
		if !rf.sumTrue {
			passIdx, failIdx = 0, 1
		}
		passEdge := edge{rf.sumIf.Block(), rf.sumIf.Block().Succs[passIdx]}
		fb := rf.sumIf.Block().Succs[failIdx]
		okFail := false
		if ret, ok := fb.Instrs[len(fb.Instrs)-1].(*ssa.Return); ok && len(ret.Results) == 2 && isNilConst(ret.Results[0]) && !isNilConst(ret.Results[1]) {
			okFail = strings.Contains(ex(ret.Results[1]), "frame.newError")
		}
		r.Check(okFail, "R2.2", "Reader.Read checksum mismatch edge", c.Pos(rf.sumIf.Pos()), "mismatch returns a ReadError and no frame", "the mismatch edge of the checksum comparison does not return (nil, ReadError)")
		// with the pass edge cut, from the mp != nil true successor nothing below may be reachable
		start := rf.mpIf.Block().Succs[rf.mpIdx]
		reach := reachFrom(start, map[edge]bool{passEdge: true}, nil)
		bad := ""
		if rf.decode != nil && reach[rf.decode.Block()] {
			bad = "the payload is decoded (mp.Read) on a path that bypasses the checksum comparison"
		}
		for _, ret := range retInstrs(rf.fn) {
			if len(ret.Results) == 2 && isNilConst(ret.Results[1]) && reach[ret.Block()] {
				bad = "a frame whose id is in the dialect reaches the success return without passing the checksum comparison"
			}
		}
		r.Check(bad == "", "R2.2", "Reader.Read checksum gate", c.Pos(rf.sumIf.Pos()), "decode and delivery only through the pass edge", bad)
		if rf.decode == nil {
			r.Fail("R2.2", "Reader.Read decode", c.Pos(rf.fn.Pos()), "no mp.Read decode call found")
		} else {
			r.Check(rf.decode.Call.Args[0] == rf.mp, "R2.2", "Reader.Read decode codec", c.Pos(rf.decode.Pos()), "decoded with the codec that supplied CRC_EXTRA", "the message is decoded with a different codec than the one whose CRC_EXTRA validated it")
		}
		// no store into the frame / raw message before validation
		badStore := ""
		for _, in := range allInstrs(rf.fn) {
			st, ok := in.(*ssa.Store)
			if !ok {
				continue
			}
			f, _ := fieldOfAddr(st.Addr)
			if f == nil {
				continue
			}
			owner := fieldStructName(st.Addr)
			if owner != "frame.V1Frame" && owner != "frame.V2Frame" && owner != "message.MessageRaw" {
				continue
			}
			if !edgeMustPass(rf.fn, passEdge, st.Block()) {
				badStore = owner + "." + f.Name() + " at " + c.Pos(st.Pos())
			}
		}
		r.Check(badStore == "", "R2.2", "Reader.Read stores before validation", c.Pos(rf.sumIf.Pos()), "the parsed frame is not modified before its checksum has been validated",
			"the frame is modified before the checksum comparison ("+badStore+"): the carried checksum / payload that is compared is no longer the one received")
	}

	// R2.3 x25 framing constants
	r.Rule("R2.3", "x25: Reset stores 0xFFFF, New returns a value on which Reset was called, Sum16 returns the register with no further arithmetic (no final xor), Sum appends low byte then high byte", 4)
	if fn := c.Fn("pkg/x25", "X25.Reset"); fn != nil {
		ok := false
		for _, st := range storesTo(fn, func(a string) bool { return a == "&recv.crc" }) {
			if k, isC := constInt(st.Val); isC && k == 0xFFFF {
				ok = true
			}
		}
		r.Check(ok, "R2.3", "X25.Reset", c.Pos(fn.Pos()), "crc ← 0xFFFF", "X25.Reset must set the register to 0xFFFF")
	}
	if fn := c.Fn("pkg/x25", "New"); fn != nil {
		cs := callsNamed(fn, "(x25.X25).Reset")
		ok := len(cs) == 1
		if ok {
			for _, ret := range retInstrs(fn) {
				if len(ret.Results) == 1 && ret.Results[0] != cs[0].Common().Args[0] {
					ok = false
				}
			}
		}
		if !ok && len(cs) == 0 {
			// the initial register written in the literal: &X25{crc: 0xFFFF}
			ok = len(retInstrs(fn)) > 0
			for _, ret := range retInstrs(fn) {
				a := underlyingAlloc(ret.Results[0])
				if a == nil {
					ok = false
					continue
				}
				k, isC := constInt(litFields(a)["crc"])
				if litFields(a)["crc"] == nil || !isC || k != 0xFFFF {
					ok = false
				}
			}
		}
		r.Check(ok, "R2.3", "x25.New", c.Pos(fn.Pos()), "returns a reset hash", "x25.New must return the object it called Reset on (or a literal whose register is 0xFFFF)")
	}
	if fn := c.Fn("pkg/x25", "X25.Sum16"); fn != nil {
		rets := retInstrs(fn)
		ok := len(rets) == 1 && ex(rets[0].Results[0]) == "recv.crc"
		r.Check(ok, "R2.3", "X25.Sum16", c.Pos(fn.Pos()), "returns crc unchanged", "X25.Sum16 must return the register unchanged (no final xor)")
	}
	if fn := c.Fn("pkg/x25", "X25.Sum"); fn != nil {
		ok := false
		for _, ci := range callsNamed(fn, "append") {
			a := ci.Common().Args
			if len(a) == 2 && ex(a[0]) == "arg0" {
				if sl, isSl := a[1].(*ssa.Slice); isSl {
					if al, isA := sl.X.(*ssa.Alloc); isA {
						bi := newBufInterp(c, fn, nil, nil)
						bi.run()
						l := layoutOf(bi.cells[al])
						ok = len(l) == 2 && l[0] == "0:B(recv.crc,0)" && l[1] == "1:B(recv.crc,1)"
					}
				}
			}
		}
		// the same two bytes through encoding/binary
		for _, ci := range callsNamed(fn, "(binary.littleEndian).AppendUint16") {
			if a := ci.Common().Args; len(a) == 3 && ex(a[1]) == "arg0" && ex(a[2]) == "recv.crc" {
				if rets := retInstrs(fn); len(rets) == 1 && rets[0].Results[0] == ci.Value() {
					ok = true
				}
			}
		}
		r.Check(ok, "R2.3", "X25.Sum", c.Pos(fn.Pos()), "appends low byte then high byte", "X25.Sum must append the register little-endian")
	}

	// R2.4 rejection inventory
	ruleRejections(c, rf, "R2.4")
	// R2.5: the CRC_EXTRA seed itself (shared with C03's R3.4)
	ruleCRCExtraPreimage(c, "R2.5")
}

func fieldStructName(addr ssa.Value) string {
	fa, ok := addr.(*ssa.FieldAddr)
	if !ok {
		return ""
	}
	return typeStr(fa.X.Type().Underlying().(*types.Pointer).Elem())
}

// ruleRejections: every non-fatal rejection of Reader.Read is one of the known kinds; a new rejection would
// drop well-formed frames.
func ruleRejections(c *Ctx, rf *readerFacts, rule string) {
	r := c.R
	r.Rule(rule, "rejection inventory: every ReadError return of Reader.Read is guarded by one of the known conditions (unknown marker, unmarshal error, not v2 / no signature / wrong signature / too old under an incoming key, "+
		"checksum mismatch, decode error) and unmarshal rejects only on transport errors or unknown incompatibility flags; any other rejection would drop well-formed frames", 8)
	fn := rf.fn
	kinds := map[string]int{}
	// one rejection = one site where a ReadError is created (however the returns are merged afterwards)
	for _, ret := range callsNamed(fn, "frame.newError") {
		b := ret.Block()
		kind := ""
		// the guard: nearest If for which this block needs a specific edge
		for _, iff := range ifsIn(fn) {
			t := edgeMustPass(fn, edge{iff.Block(), iff.Block().Succs[0]}, b)
			f := edgeMustPass(fn, edge{iff.Block(), iff.Block().Succs[1]}, b)
			if !t && !f {
				continue
			}
			// only the closest guard decides: the one whose successor is b or leads only to b
			if iff.Block().Succs[0] != b && iff.Block().Succs[1] != b {
				continue
			}
			switch {
			case iff == rf.sumIf:
				kind = "checksum"
			case iff == rf.sigIf:
				kind = "wrong-signature"
			case iff == rf.sigNilIf:
				kind = "no-signature"
			case iff == rf.v2If && ((rf.v2Idx == 0 && f) || (rf.v2Idx == 1 && t)):
				kind = "not-v2"
			default:
				cs := ex(iff.Cond)
				switch {
				case rf.unm != nil && cs == "("+ex(rf.unm)+" != nil)":
					kind = "unmarshal"
				case rf.decode != nil && strings.HasPrefix(cs, "("+ex(rf.decode)+"#1 != nil"):
					kind = "decode"
				case strings.Contains(cs, "ReadByte") && strings.Contains(cs, "== 25"):
					kind = "marker"
				case strings.Contains(cs, "SignatureTimestamp") && strings.Contains(cs, "curReadSignatureTime"):
					kind = "too-old"
				}
			}
		}
		if kind == "" {
			// the marker rejection in guard form: reached exactly when the marker is neither 0xFE nor 0xFD
			for _, rb := range callsNamed(fn, "(bufio.Reader).ReadByte") {
				if rb.Value() == nil || rb.Value().Referrers() == nil {
					continue
				}
				for _, u := range *rb.Value().Referrers() {
					if e, isE := u.(*ssa.Extract); isE && e.Index == 0 && excludedOnAllPaths(fn, e, b, 254, 253) {
						kind = "marker"
					}
				}
			}
		}
		if kind == "" {
			r.Fail(rule, "Reader.Read rejection at unknown guard", c.Pos(ret.Pos()), "a frame is rejected under a condition that is not one of the known rejection kinds: well-formed frames can be dropped here")
			continue
		}
		kinds[kind]++
		r.OK(rule, "Reader.Read rejection "+kind, c.Pos(ret.Pos()), "known rejection kind")
	}
	for _, k := range []string{"marker", "unmarshal", "checksum", "decode"} {
		if kinds[k] == 0 {
			r.Fail(rule, "Reader.Read rejection "+k, c.Pos(fn.Pos()), "expected rejection kind '"+k+"' not found in Reader.Read")
		}
	}
	// unmarshal's own rejections
	for _, name := range []string{"V1Frame.unmarshal", "V2Frame.unmarshal"} {
		um := c.Fn("pkg/frame", name)
		if um == nil {
			continue
		}
		bad := ""
		for _, ret := range retInstrs(um) {
			if len(ret.Results) != 1 || isNilConst(ret.Results[0]) {
				continue
			}
			if transportError(ret.Results[0], 0) {
				continue // transport / truncation error
			}
			// every error value that can be returned here is a transport error or the explicit rejection of unknown
			// incompatibility flags (created under the flag test), however the returns are merged
			var leaves []ssa.Value
			seenL := map[ssa.Value]bool{}
			var collect func(v ssa.Value)
			collect = func(v ssa.Value) {
				if seenL[v] {
					return
				}
				seenL[v] = true
				if p, isPhi := v.(*ssa.Phi); isPhi {
					for _, e := range p.Edges {
						collect(e)
					}
					return
				}
				leaves = append(leaves, v)
			}
			collect(ret.Results[0])
			for _, lf := range leaves {
				if isNilConst(lf) || transportError(lf, 0) {
					continue
				}
				okFlag := false
				var at *ssa.BasicBlock
				if in, isIn := lf.(ssa.Instruction); isIn {
					at = in.Block()
				}
				for _, iff := range ifsIn(um) {
					if !strings.Contains(ex(iff.Cond), "IncompatibilityFlag") || name != "V2Frame.unmarshal" {
						continue
					}
					for idx := 0; idx < 2; idx++ {
						tb := iff.Block().Succs[idx]
						if tb == ret.Block() || (at != nil && (tb == at || edgeMustPass(um, edge{iff.Block(), tb}, at))) {
							okFlag = true
						}
					}
				}
				if !okFlag {
					bad = c.Pos(ret.Pos())
				}
			}
		}
		r.Check(bad == "", rule, name+" rejections", c.Pos(um.Pos()), "rejects only truncated input"+map[bool]string{true: " or unknown incompatibility flags", false: ""}[name == "V2Frame.unmarshal"],
			"unmarshal rejects a frame at "+bad+" under a condition the spec does not name")
	}
}

// transportError: v is (a phi / interface wrapping of) the error result of a stream-consuming call
// (peekAndDiscard, Peek, io.ReadFull, ReadByte), possibly nil on some edges.
func transportError(v ssa.Value, depth int) bool {
	if depth > 6 {
		return false
	}
	switch x := v.(type) {
	case *ssa.Extract:
		if call, ok := x.Tuple.(*ssa.Call); ok {
			switch calleeName(&call.Call) {
			case "frame.peekAndDiscard", "io.ReadFull", "(bufio.Reader).Peek", "(bufio.Reader).ReadByte", "(bufio.Reader).Discard":
				return true
			}
		}
	case *ssa.Phi:
		any := false
		for _, e := range x.Edges {
			if isNilConst(e) {
				continue
			}
			if !transportError(e, depth+1) {
				return false
			}
			any = true
		}
		return any
	case *ssa.MakeInterface:
		return transportError(x.X, depth+1)
	case *ssa.ChangeInterface:
		return transportError(x.X, depth+1)
	case *ssa.Call:
		// a transport error wrapped with context (fmt.Errorf("…: %w", err) or a repo helper)
		if returnsError(x) {
			for _, a := range argsDeep(&x.Call) {
				if typeStr(a.Type()) == "error" && transportError(a, depth+1) {
					return true
				}
			}
		}
	}
	return false
}
