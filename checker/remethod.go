package main

// Method ↔ function normalisation (robustness against "turn a private method into a plain function").
//
// A maintainer may rewrite `func (n *Node) encodeFrame(fr)` as `func encodeFrame(dialectRW, fr)` (passing the
// receiver's fields it uses) or as `func pushEvent(n *Node, evt)`. Behaviour is unchanged, but every rule anchored at
// the method, or recognising calls to it, would dangle. When a reference METHOD T.M is missing from a package and a
// plain function M that is new to the package exists whose trailing parameters are the method's, and at EVERY call
// site the leading arguments are the same receiver expression R (of type *T) or fields R.f of it — consistently the
// same fields — the method is re-introduced as a one-line wrapper `func (r *T) M(args) { return M(r.f…, args) }`
// and the call sites are rewritten to R.M(args). The see-through inliner then folds the new function into the
// wrapper, which gives back the reference shape. Purely syntactic, resolved through go/types; nothing is executed.

import (
	"fmt"
	"go/ast"
	"go/parser"
	"go/token"
	"go/types"
	"reflect"
	"sort"
	"strings"
)

func remethodise(c *Ctx) (map[string]bool, []string) {
	changed := map[string]bool{}
	var notes []string
	var keys []string
	for k := range c.Pkgs {
		keys = append(keys, k)
	}
	sort.Strings(keys)
	for _, pk := range keys {
		if strings.HasPrefix(pk, "pkg/dialects") || strings.HasPrefix(pk, "examples") || strings.HasPrefix(pk, "cmd") {
			continue
		}
		p := c.Pkgs[pk]
		funcs, _ := declaredMembers(pk, p.Types)
		var missing []string
		for k := range knownSigs {
			if strings.HasPrefix(k, pk+":") && strings.Contains(strings.TrimPrefix(k, pk+":"), ".") {
				if _, ok := funcs[k]; !ok {
					missing = append(missing, k)
				}
			}
		}
		sort.Strings(missing)
		for _, mk := range missing {
			tname, mname, _ := strings.Cut(strings.TrimPrefix(mk, pk+":"), ".")
			fkey := pk + ":" + mname
			if _, isRef := knownSigs[fkey]; isRef {
				continue // a plain function of that name exists on the reference tree as well
			}
			fobj, _ := p.Types.Scope().Lookup(mname).(*types.Func)
			tobj, _ := p.Types.Scope().Lookup(tname).(*types.TypeName)
			if fobj == nil || tobj == nil {
				continue
			}
			// the declaration
			var decl *ast.FuncDecl
			var file *ast.File
			for _, f := range p.Syntax {
				for _, d := range f.Decls {
					if fd, ok := d.(*ast.FuncDecl); ok && fd.Recv == nil && p.TypesInfo.Defs[fd.Name] == types.Object(fobj) {
						decl, file = fd, f
					}
				}
			}
			if decl == nil || decl.Type.TypeParams != nil {
				continue
			}
			// the method's own parameter count, from the reference signature
			refT, err := parser.ParseExpr(knownSigs[mk])
			if err != nil {
				continue
			}
			rft, ok := refT.(*ast.FuncType)
			if !ok {
				continue
			}
			nRef := 0
			for _, f := range rft.Params.List {
				if len(f.Names) == 0 {
					nRef++
				} else {
					nRef += len(f.Names)
				}
			}
			type prm struct {
				name string
				typ  ast.Expr
			}
			var ps []prm
			variadic := false
			for _, f := range decl.Type.Params.List {
				if _, isV := f.Type.(*ast.Ellipsis); isV {
					variadic = true
				}
				if len(f.Names) == 0 {
					ps = append(ps, prm{"_", f.Type})
				}
				for _, n := range f.Names {
					ps = append(ps, prm{n.Name, f.Type})
				}
			}
			k := len(ps) - nRef
			if variadic || k < 1 {
				continue
			}
			// every use of the function is a call whose k leading arguments are R / R.field for one receiver expression
			var calls []*ast.CallExpr
			usesAsValue := false
			callFun := map[*ast.Ident]bool{}
			for _, f := range p.Syntax {
				ast.Inspect(f, func(n ast.Node) bool {
					if ce, ok := n.(*ast.CallExpr); ok {
						if id, ok := ce.Fun.(*ast.Ident); ok && p.TypesInfo.Uses[id] == types.Object(fobj) {
							calls = append(calls, ce)
							callFun[id] = true
						}
					}
					return true
				})
			}
			for id, o := range p.TypesInfo.Uses {
				if o == types.Object(fobj) && !callFun[id] {
					usesAsValue = true
				}
			}
			if usesAsValue || len(calls) == 0 {
				continue
			}
			sels := make([]string, k) // "" = the receiver itself
			okAll := true
			recvOf := map[*ast.CallExpr]ast.Expr{}
			for ci, ce := range calls {
				if len(ce.Args) != len(ps) || ce.Ellipsis != token.NoPos {
					okAll = false
					break
				}
				var R ast.Expr
				for i := 0; i < k; i++ {
					a := ce.Args[i]
					var base ast.Expr
					sel := ""
					if isRecvOfType(p.TypesInfo, a, tobj) {
						base = a
					} else if se, ok := a.(*ast.SelectorExpr); ok && isRecvOfType(p.TypesInfo, se.X, tobj) {
						base, sel = se.X, se.Sel.Name
					} else {
						okAll = false
						break
					}
					if !pureExpr(base) || (R != nil && types.ExprString(R) != types.ExprString(base)) {
						okAll = false
						break
					}
					R = base
					if ci == 0 {
						sels[i] = sel
					} else if sels[i] != sel {
						okAll = false
						break
					}
				}
				if !okAll {
					break
				}
				recvOf[ce] = R
			}
			if !okAll {
				continue
			}
			// wrapper source
			var params, fwd []string
			for i := 0; i < k; i++ {
				if sels[i] == "" {
					fwd = append(fwd, "zzrecv")
				} else {
					fwd = append(fwd, "zzrecv."+sels[i])
				}
			}
			for i := k; i < len(ps); i++ {
				nm := ps[i].name
				if nm == "_" {
					nm = fmt.Sprintf("zzp%d", i)
				}
				params = append(params, nm+" "+types.ExprString(ps[i].typ))
				fwd = append(fwd, nm)
			}
			results, ret := "", ""
			if decl.Type.Results != nil && len(decl.Type.Results.List) > 0 {
				var rs []string
				for _, f := range decl.Type.Results.List {
					n := len(f.Names)
					if n == 0 {
						n = 1
					}
					for j := 0; j < n; j++ {
						rs = append(rs, types.ExprString(f.Type))
					}
				}
				results = " (" + strings.Join(rs, ", ") + ")"
				ret = "return "
			}
			// the plain function gets a name of its own, so that nothing but the wrapper refers to it
			fname := "zzfn" + strings.ToUpper(mname[:1]) + mname[1:]
			src := fmt.Sprintf("package %s\nfunc (zzrecv *%s) %s(%s)%s {\n\t%s%s(%s)\n}\n", p.Types.Name(), tname, mname, strings.Join(params, ", "), results, ret, fname, strings.Join(fwd, ", "))
			wf, err := parser.ParseFile(c.Fset, fmt.Sprintf("zzremethod_%s_%s.go", strings.ReplaceAll(pk, "/", "_"), mname), src, 0)
			if err != nil || len(wf.Decls) != 1 {
				continue
			}
			// the type checker resolves the language version of every node through the file its position lies in:
			// give the wrapper positions inside the file that declares the function
			rebase(wf.Decls[0], decl.End())
			file.Decls = append(file.Decls, wf.Decls[0])
			for _, ce := range calls {
				ce.Fun = &ast.SelectorExpr{X: recvOf[ce], Sel: &ast.Ident{Name: mname, NamePos: ce.Fun.Pos()}}
				ce.Args = ce.Args[k:]
			}
			// (recursive calls inside the function body were rewritten above like every other call site)
			decl.Name.Name = fname
			changed[pk] = true
			notes = append(notes, fmt.Sprintf("re-introduced method %s as a wrapper of the new plain function %s (%d call sites rewritten to method calls)", mk, fkey, len(calls)))
		}
	}
	return changed, notes
}

func isRecvOfType(info *types.Info, e ast.Expr, tn *types.TypeName) bool {
	t := info.TypeOf(e)
	if t == nil {
		return false
	}
	p, ok := t.(*types.Pointer)
	if !ok {
		return false
	}
	n, ok := p.Elem().(*types.Named)
	return ok && n.Obj() == tn
}

// pureExpr: an identifier or a chain of field selections on one (evaluating it twice has no effect).
func pureExpr(e ast.Expr) bool {
	switch x := e.(type) {
	case *ast.Ident:
		return true
	case *ast.SelectorExpr:
		return pureExpr(x.X)
	case *ast.ParenExpr:
		return pureExpr(x.X)
	}
	return false
}

// rebase sets every position recorded in the syntax tree below n to pos.
func rebase(n ast.Node, pos token.Pos) {
	posT := reflect.TypeOf(token.NoPos)
	ast.Inspect(n, func(x ast.Node) bool {
		if x == nil {
			return false
		}
		v := reflect.ValueOf(x)
		if v.Kind() == reflect.Ptr {
			v = v.Elem()
		}
		if v.Kind() != reflect.Struct {
			return true
		}
		for i := 0; i < v.NumField(); i++ {
			f := v.Field(i)
			if f.Type() == posT && f.CanSet() && f.Int() != 0 {
				f.SetInt(int64(pos))
			}
		}
		return true
	})
}
