package main

// Method ↔ function normalisation (robustness against "turn a private method into a plain function").
//
// A maintainer may rewrite `func (n *Node) encodeFrame(fr)` as `func encodeFrame(dialectRW, fr)` (passing the
// receiver's fields it uses) or as `func pushEvent(n *Node, evt)`. Behaviour is unchanged, but every rule anchored at
// the method, or recognising calls to it, would dangle. When a reference METHOD T.M is missing from a package and a
// plain function M that is new to the package exists whose trailing parameters are the method's, and at EVERY call
// site the leading arguments are the same receiver expression R (of type *T) or fields R.f of it — consistently the
// same fields — the method is re-introduced as a one-line wrapper `func (r *T) M(args) { return M(r.f…, args) }`
// and the call sites are rewritten to R.M(args). The see-through inliner then folds the new function into the
// wrapper, which gives back the reference shape. Purely syntactic, resolved through go/types; nothing is executed.

import (
	"fmt"
	"go/ast"
	"go/parser"
	"go/printer"
	"go/token"
	"go/types"
	"reflect"
	"sort"
	"strings"
)

func remethodise(c *Ctx) (map[string]bool, []string) {
	changed := map[string]bool{}
	var notes []string
	var keys []string
	for k := range c.Pkgs {
		keys = append(keys, k)
	}
	sort.Strings(keys)
	for _, pk := range keys {
		if strings.HasPrefix(pk, "pkg/dialects") || strings.HasPrefix(pk, "examples") || strings.HasPrefix(pk, "cmd") {
			continue
		}
		p := c.Pkgs[pk]
		funcs, _ := declaredMembers(pk, p.Types)
		curBodies := bodyFingerprints(pk, p.Syntax)
		var missing []string
		for k := range knownSigs {
			if strings.HasPrefix(k, pk+":") && strings.Contains(strings.TrimPrefix(k, pk+":"), ".") {
				if _, ok := funcs[k]; !ok {
					missing = append(missing, k)
				}
			}
		}
		sort.Strings(missing)
		for _, mk := range missing {
			tname, mname, _ := strings.Cut(strings.TrimPrefix(mk, pk+":"), ".")
			fkey := pk + ":" + mname
			fobj, _ := p.Types.Scope().Lookup(mname).(*types.Func)
			if _, isRef := knownSigs[fkey]; isRef {
				fobj = nil // a plain function of that name exists on the reference tree as well
			}
			tobj, _ := p.Types.Scope().Lookup(tname).(*types.TypeName)
			if tobj == nil {
				continue
			}
			if fobj == nil {
				// renamed on the way: the new plain function whose body selects and calls what the method's did
				best, bestScore, tie := "", 0, false
				for k := range funcs {
					if _, isRef := knownSigs[k]; isRef || strings.Contains(strings.TrimPrefix(k, pk+":"), ".") {
						continue
					}
					// fields of the receiver that the method selected are now selected at the call sites and passed in
					cb := curBodies[k]
					if co, _ := p.Types.Scope().Lookup(strings.TrimPrefix(k, pk+":")).(*types.Func); co != nil {
						for _, f := range p.Syntax {
							ast.Inspect(f, func(n ast.Node) bool {
								if ce, ok := n.(*ast.CallExpr); ok {
									if id, ok := ce.Fun.(*ast.Ident); ok && p.TypesInfo.Uses[id] == types.Object(co) {
										for _, a := range ce.Args {
											ast.Inspect(a, func(m ast.Node) bool {
												if se, ok := m.(*ast.SelectorExpr); ok {
													cb += " " + se.Sel.Name
												}
												return true
											})
										}
									}
								}
								return true
							})
						}
					}
					sc := jaccardPermille(knownBodies[mk], cb)
					if s0 := jaccardPermille(knownBodies[mk], curBodies[k]); s0 > sc {
						sc = s0 // the receiver itself was passed: nothing moved to the call sites
					}
					if sc > bestScore {
						best, bestScore, tie = k, sc, false
					} else if sc == bestScore {
						tie = true
					}
				}
				if best == "" || tie || bestScore < 600 {
					continue
				}
				fobj, _ = p.Types.Scope().Lookup(strings.TrimPrefix(best, pk+":")).(*types.Func)
				if fobj == nil {
					continue
				}
				fkey = best
			}
			// the declaration
			var decl *ast.FuncDecl
			var file *ast.File
			for _, f := range p.Syntax {
				for _, d := range f.Decls {
					if fd, ok := d.(*ast.FuncDecl); ok && fd.Recv == nil && p.TypesInfo.Defs[fd.Name] == types.Object(fobj) {
						decl, file = fd, f
					}
				}
			}
			if decl == nil || decl.Type.TypeParams != nil {
				continue
			}
			// the method's own parameter count, from the reference signature
			refT, err := parser.ParseExpr(knownSigs[mk])
			if err != nil {
				continue
			}
			rft, ok := refT.(*ast.FuncType)
			if !ok {
				continue
			}
			nRef := 0
			for _, f := range rft.Params.List {
				if len(f.Names) == 0 {
					nRef++
				} else {
					nRef += len(f.Names)
				}
			}
			type prm struct {
				name string
				typ  ast.Expr
			}
			var ps []prm
			variadic := false
			for _, f := range decl.Type.Params.List {
				if _, isV := f.Type.(*ast.Ellipsis); isV {
					variadic = true
				}
				if len(f.Names) == 0 {
					ps = append(ps, prm{"_", f.Type})
				}
				for _, n := range f.Names {
					ps = append(ps, prm{n.Name, f.Type})
				}
			}
			k := len(ps) - nRef
			if variadic || k < 1 {
				continue
			}
			// every use of the function is a call whose k leading arguments are R / R.field for one receiver expression
			var calls []*ast.CallExpr
			usesAsValue := false
			callFun := map[*ast.Ident]bool{}
			for _, f := range p.Syntax {
				ast.Inspect(f, func(n ast.Node) bool {
					if ce, ok := n.(*ast.CallExpr); ok {
						if id, ok := ce.Fun.(*ast.Ident); ok && p.TypesInfo.Uses[id] == types.Object(fobj) {
							calls = append(calls, ce)
							callFun[id] = true
						}
					}
					return true
				})
			}
			for id, o := range p.TypesInfo.Uses {
				if o == types.Object(fobj) && !callFun[id] {
					usesAsValue = true
				}
			}
			if usesAsValue || len(calls) == 0 {
				continue
			}
			sels := make([]string, k) // "" = the receiver itself
			okAll := true
			recvOf := map[*ast.CallExpr]ast.Expr{}
			for ci, ce := range calls {
				if len(ce.Args) != len(ps) || ce.Ellipsis != token.NoPos {
					okAll = false
					break
				}
				var R ast.Expr
				for i := 0; i < k; i++ {
					a := ce.Args[i]
					var base ast.Expr
					sel := ""
					if isRecvOfType(p.TypesInfo, a, tobj) {
						base = a
					} else if se, ok := a.(*ast.SelectorExpr); ok && isRecvOfType(p.TypesInfo, se.X, tobj) {
						base, sel = se.X, se.Sel.Name
					} else if rb := soleRecvIdent(p.TypesInfo, a, tobj); rb != nil {
						// an expression over the receiver's fields and constants (n.OutVersion == V2): carried over
						// with the receiver substituted
						base, sel = rb, "=expr:"+exprWithRecv(a, rb.Name)
					} else {
						okAll = false
						break
					}
					if !pureExpr(base) || (R != nil && types.ExprString(R) != types.ExprString(base)) {
						okAll = false
						break
					}
					R = base
					if ci == 0 {
						sels[i] = sel
					} else if sels[i] != sel {
						okAll = false
						break
					}
				}
				if !okAll {
					break
				}
				recvOf[ce] = R
			}
			if !okAll {
				continue
			}
			// wrapper source
			var params, fwd []string
			for i := 0; i < k; i++ {
				if sels[i] == "" {
					fwd = append(fwd, "zzrecv")
				} else if strings.HasPrefix(sels[i], "=expr:") {
					fwd = append(fwd, strings.TrimPrefix(sels[i], "=expr:"))
				} else {
					fwd = append(fwd, "zzrecv."+sels[i])
				}
			}
			for i := k; i < len(ps); i++ {
				nm := ps[i].name
				if nm == "_" {
					nm = fmt.Sprintf("zzp%d", i)
				}
				params = append(params, nm+" "+types.ExprString(ps[i].typ))
				fwd = append(fwd, nm)
			}
			results, ret := "", ""
			if decl.Type.Results != nil && len(decl.Type.Results.List) > 0 {
				var rs []string
				for _, f := range decl.Type.Results.List {
					n := len(f.Names)
					if n == 0 {
						n = 1
					}
					for j := 0; j < n; j++ {
						rs = append(rs, types.ExprString(f.Type))
					}
				}
				results = " (" + strings.Join(rs, ", ") + ")"
				ret = "return "
			}
			// the plain function gets a name of its own, so that nothing but the wrapper refers to it
			fname := "zzfn" + strings.ToUpper(mname[:1]) + mname[1:]
			src := fmt.Sprintf("package %s\nfunc (zzrecv *%s) %s(%s)%s {\n\t%s%s(%s)\n}\n", p.Types.Name(), tname, mname, strings.Join(params, ", "), results, ret, fname, strings.Join(fwd, ", "))
			wf, err := parser.ParseFile(c.Fset, fmt.Sprintf("zzremethod_%s_%s.go", strings.ReplaceAll(pk, "/", "_"), mname), src, 0)
			_ = fkey
			if err != nil || len(wf.Decls) != 1 {
				continue
			}
			// the type checker resolves the language version of every node through the file its position lies in:
			// give the wrapper positions inside the file that declares the function
			rebase(wf.Decls[0], decl.End())
			file.Decls = append(file.Decls, wf.Decls[0])
			for _, ce := range calls {
				ce.Fun = &ast.SelectorExpr{X: recvOf[ce], Sel: &ast.Ident{Name: mname, NamePos: ce.Fun.Pos()}}
				ce.Args = ce.Args[k:]
			}
			// (recursive calls inside the function body were rewritten above like every other call site)
			decl.Name.Name = fname
			changed[pk] = true
			notes = append(notes, fmt.Sprintf("re-introduced method %s as a wrapper of the new plain function %s (%d call sites rewritten to method calls)", mk, fkey, len(calls)))
		}
	}
	ch2, n2 := demethodise(c)
	for k := range ch2 {
		changed[k] = true
	}
	return changed, append(notes, n2...)
}

// demethodise: the converse. A reference plain function F(…, x *T, …) is missing and a new method (*T).F with the
// remaining parameters exists: F is re-introduced as a wrapper calling the method on that parameter, and the method
// calls X.F(args) become F(…, X, …). The method, renamed, is new to the package and is folded into the wrapper by
// the see-through inliner.
func demethodise(c *Ctx) (map[string]bool, []string) {
	changed := map[string]bool{}
	var notes []string
	var keys []string
	for k := range c.Pkgs {
		keys = append(keys, k)
	}
	sort.Strings(keys)
	for _, pk := range keys {
		if strings.HasPrefix(pk, "pkg/dialects") || strings.HasPrefix(pk, "examples") || strings.HasPrefix(pk, "cmd") {
			continue
		}
		p := c.Pkgs[pk]
		funcs, _ := declaredMembers(pk, p.Types)
		var missing []string
		for k := range knownSigs {
			if strings.HasPrefix(k, pk+":") && !strings.Contains(strings.TrimPrefix(k, pk+":"), ".") {
				if _, ok := funcs[k]; !ok {
					missing = append(missing, k)
				}
			}
		}
		sort.Strings(missing)
		for _, fk := range missing {
			fname := strings.TrimPrefix(fk, pk+":")
			// the one new method of that name
			var mdecl *ast.FuncDecl
			var mfile *ast.File
			n := 0
			for _, f := range p.Syntax {
				for _, d := range f.Decls {
					fd, ok := d.(*ast.FuncDecl)
					if !ok || fd.Recv == nil || fd.Name.Name != fname || len(fd.Recv.List) != 1 {
						continue
					}
					if _, isRef := knownSigs[funcKey(pk, fd)]; isRef {
						continue
					}
					mdecl, mfile = fd, f
					n++
				}
			}
			if n != 1 || mdecl.Type.TypeParams != nil {
				continue
			}
			star, ok := mdecl.Recv.List[0].Type.(*ast.StarExpr)
			if !ok {
				continue
			}
			tid, ok := star.X.(*ast.Ident)
			if !ok {
				continue
			}
			mobj, _ := p.TypesInfo.Defs[mdecl.Name].(*types.Func)
			if mobj == nil {
				continue
			}
			// reference signature: position of the *T parameter
			refT, err := parser.ParseExpr(knownSigs[fk])
			if err != nil {
				continue
			}
			rft, ok := refT.(*ast.FuncType)
			if !ok {
				continue
			}
			var refTypes []string
			for _, f := range rft.Params.List {
				cnt := len(f.Names)
				if cnt == 0 {
					cnt = 1
				}
				for j := 0; j < cnt; j++ {
					refTypes = append(refTypes, types.ExprString(f.Type))
				}
			}
			pos := -1
			for i, ts := range refTypes {
				if ts == "*"+tid.Name || strings.HasSuffix(ts, "."+tid.Name) && strings.HasPrefix(ts, "*") {
					if pos >= 0 {
						pos = -2
					} else {
						pos = i
					}
				}
			}
			type prm struct {
				name string
				typ  ast.Expr
			}
			var ps []prm
			variadic := false
			for _, f := range mdecl.Type.Params.List {
				if _, isV := f.Type.(*ast.Ellipsis); isV {
					variadic = true
				}
				if len(f.Names) == 0 {
					ps = append(ps, prm{"_", f.Type})
				}
				for _, nm := range f.Names {
					ps = append(ps, prm{nm.Name, f.Type})
				}
			}
			if pos < 0 || variadic || len(ps)+1 != len(refTypes) {
				continue
			}
			// every use of the method is a call
			var calls []*ast.CallExpr
			callSel := map[*ast.SelectorExpr]bool{}
			for _, f := range p.Syntax {
				ast.Inspect(f, func(nd ast.Node) bool {
					if ce, ok := nd.(*ast.CallExpr); ok {
						if se, ok := ce.Fun.(*ast.SelectorExpr); ok && p.TypesInfo.Uses[se.Sel] == types.Object(mobj) {
							calls = append(calls, ce)
							callSel[se] = true
						}
					}
					return true
				})
			}
			asValue := false
			for _, f := range p.Syntax {
				ast.Inspect(f, func(nd ast.Node) bool {
					if se, ok := nd.(*ast.SelectorExpr); ok && p.TypesInfo.Uses[se.Sel] == types.Object(mobj) && !callSel[se] {
						asValue = true
					}
					return true
				})
			}
			if asValue || len(calls) == 0 {
				continue
			}
			okAll := true
			for _, ce := range calls {
				if len(ce.Args) != len(ps) || ce.Ellipsis != token.NoPos || !pureExpr(ce.Fun.(*ast.SelectorExpr).X) {
					okAll = false
				}
			}
			if !okAll {
				continue
			}
			// turn the method declaration itself into the function: the receiver becomes the parameter at its reference
			// position (no wrapper, so bodies with many returns need no in-lining)
			recvField := mdecl.Recv.List[0]
			if len(recvField.Names) == 0 {
				recvField.Names = []*ast.Ident{{Name: "_", NamePos: recvField.Pos()}}
			}
			var flat []*ast.Field
			for _, f := range mdecl.Type.Params.List {
				if len(f.Names) <= 1 {
					flat = append(flat, f)
					continue
				}
				for _, nm := range f.Names {
					flat = append(flat, &ast.Field{Names: []*ast.Ident{nm}, Type: f.Type})
				}
			}
			nl := append([]*ast.Field{}, flat[:pos]...)
			nl = append(nl, recvField)
			nl = append(nl, flat[pos:]...)
			mdecl.Type.Params.List = nl
			mdecl.Recv = nil
			_ = mfile
			for _, ce := range calls {
				se := ce.Fun.(*ast.SelectorExpr)
				args := append([]ast.Expr{}, ce.Args[:pos]...)
				args = append(args, se.X)
				args = append(args, ce.Args[pos:]...)
				ce.Fun = &ast.Ident{Name: fname, NamePos: se.Pos()}
				ce.Args = args
			}
			changed[pk] = true
			notes = append(notes, fmt.Sprintf("turned the new method %s.%s back into the reference function %s (%d call sites rewritten to function calls)", tid.Name, fname, fk, len(calls)))
		}
	}
	return changed, notes
}

func isRecvOfType(info *types.Info, e ast.Expr, tn *types.TypeName) bool {
	t := info.TypeOf(e)
	if t == nil {
		return false
	}
	p, ok := t.(*types.Pointer)
	if !ok {
		return false
	}
	n, ok := p.Elem().(*types.Named)
	return ok && n.Obj() == tn
}

// pureExpr: an identifier or a chain of field selections on one (evaluating it twice has no effect).
func pureExpr(e ast.Expr) bool {
	switch x := e.(type) {
	case *ast.Ident:
		return true
	case *ast.SelectorExpr:
		return pureExpr(x.X)
	case *ast.ParenExpr:
		return pureExpr(x.X)
	}
	return false
}

// rebase sets every position recorded in the syntax tree below n to pos.
func rebase(n ast.Node, pos token.Pos) {
	posT := reflect.TypeOf(token.NoPos)
	ast.Inspect(n, func(x ast.Node) bool {
		if x == nil {
			return false
		}
		v := reflect.ValueOf(x)
		if v.Kind() == reflect.Ptr {
			v = v.Elem()
		}
		if v.Kind() != reflect.Struct {
			return true
		}
		for i := 0; i < v.NumField(); i++ {
			f := v.Field(i)
			if f.Type() == posT && f.CanSet() && f.Int() != 0 {
				f.SetInt(int64(pos))
			}
		}
		return true
	})
}

// soleRecvIdent: e is a side-effect-free expression (selectors, comparisons, arithmetic, constants, package-level
// names) whose only local variable is one identifier of type *T; that identifier, else nil.
func soleRecvIdent(info *types.Info, e ast.Expr, tn *types.TypeName) *ast.Ident {
	var recv *ast.Ident
	ok := true
	ast.Inspect(e, func(n ast.Node) bool {
		switch x := n.(type) {
		case *ast.CallExpr, *ast.FuncLit, *ast.UnaryExpr:
			if u, isU := x.(*ast.UnaryExpr); isU && (u.Op == token.NOT || u.Op == token.SUB) {
				return true
			}
			ok = false
		case *ast.SelectorExpr:
			// only the base matters
			if id, isID := x.X.(*ast.Ident); isID {
				if _, isPkg := info.Uses[id].(*types.PkgName); isPkg {
					return false
				}
			}
		case *ast.Ident:
			o := info.Uses[x]
			if o == nil {
				return true
			}
			switch ov := o.(type) {
			case *types.Const, *types.Nil, *types.TypeName, *types.PkgName:
			case *types.Var:
				if ov.IsField() {
					return true
				}
				if ov.Parent() == ov.Pkg().Scope() {
					ok = false // package variable: not a function of the receiver
					return true
				}
				if !isRecvOfType(info, x, tn) || (recv != nil && info.Uses[recv] != o) {
					ok = false
					return true
				}
				recv = x
			default:
				ok = false
			}
		}
		return true
	})
	if !ok {
		return nil
	}
	return recv
}

// exprWithRecv renders e with every occurrence of the identifier name replaced by zzrecv.
func exprWithRecv(e ast.Expr, name string) string {
	s := types.ExprString(e)
	var out []byte
	isID := func(b byte) bool { return b == '_' || b >= '0' && b <= '9' || b >= 'a' && b <= 'z' || b >= 'A' && b <= 'Z' }
	for i := 0; i < len(s); {
		if strings.HasPrefix(s[i:], name) && (i == 0 || !isID(s[i-1]) && s[i-1] != '.') && (i+len(name) == len(s) || !isID(s[i+len(name)])) {
			out = append(out, "zzrecv"...)
			i += len(name)
			continue
		}
		out = append(out, s[i])
		i++
	}
	return string(out)
}

// lockSectionsToClosures: in the listed functions, whose reference form takes a mutex inside an immediately-invoked
// closure (`func() { mu.Lock(); defer mu.Unlock(); … }()`), a critical section that is written out as
// `mu.Lock(); …; mu.Unlock()` in one statement list is put back into that form. Only when it is plainly the same:
// no return / goto / defer / labelled branch inside, no break or continue that leaves the section, and nothing
// declared inside is used after it.
var closureLockFuncs = map[string]bool{"root:nodeStreamRequest.onEventFrame": true}

func lockSectionsToClosures(c *Ctx) (map[string]bool, []string) {
	changed := map[string]bool{}
	var notes []string
	for pk, p := range c.Pkgs {
		for _, f := range p.Syntax {
			for _, d := range f.Decls {
				fd, ok := d.(*ast.FuncDecl)
				if !ok || fd.Body == nil || !closureLockFuncs[funcKey(pk, fd)] {
					continue
				}
				var visit func(list *[]ast.Stmt)
				visit = func(list *[]ast.Stmt) {
					for i := 0; i < len(*list); i++ {
						mu, isLock := lockCall((*list)[i], "Lock")
						if !isLock {
							continue
						}
						for j := i + 1; j < len(*list); j++ {
							mu2, isUn := lockCall((*list)[j], "Unlock")
							if !isUn || mu2 != mu {
								continue
							}
							seg := (*list)[i+1 : j]
							if !sectionIsClosed(p.TypesInfo, seg, (*list)[j+1:]) {
								break
							}
							pos := (*list)[i].Pos()
							lockStmt, unlockStmt := (*list)[i], (*list)[j]
							body := []ast.Stmt{lockStmt, &ast.DeferStmt{Defer: pos, Call: unlockStmt.(*ast.ExprStmt).X.(*ast.CallExpr)}}
							body = append(body, seg...)
							lit := &ast.FuncLit{Type: &ast.FuncType{Func: pos, Params: &ast.FieldList{Opening: pos, Closing: pos}}, Body: &ast.BlockStmt{Lbrace: pos, List: body, Rbrace: (*list)[j].End() - 1}}
							call := &ast.ExprStmt{X: &ast.CallExpr{Fun: lit, Lparen: (*list)[j].End() - 1, Rparen: (*list)[j].End() - 1}}
							nl := append([]ast.Stmt{}, (*list)[:i]...)
							nl = append(nl, call)
							nl = append(nl, (*list)[j+1:]...)
							*list = nl
							changed[pk] = true
							notes = append(notes, "critical section of "+funcKey(pk, fd)+" put back into an immediately-invoked closure with a deferred Unlock")
							break
						}
					}
					for _, st := range *list {
						switch x := st.(type) {
						case *ast.BlockStmt:
							visit(&x.List)
						case *ast.IfStmt:
							visit(&x.Body.List)
							if eb, ok := x.Else.(*ast.BlockStmt); ok {
								visit(&eb.List)
							}
						case *ast.ForStmt:
							visit(&x.Body.List)
						case *ast.RangeStmt:
							visit(&x.Body.List)
						}
					}
				}
				visit(&fd.Body.List)
			}
		}
	}
	return changed, notes
}

func lockCall(st ast.Stmt, name string) (string, bool) {
	es, ok := st.(*ast.ExprStmt)
	if !ok {
		return "", false
	}
	ce, ok := es.X.(*ast.CallExpr)
	if !ok || len(ce.Args) != 0 {
		return "", false
	}
	se, ok := ce.Fun.(*ast.SelectorExpr)
	if !ok || se.Sel.Name != name || !pureExpr(se.X) {
		return "", false
	}
	return types.ExprString(se.X), true
}

func sectionIsClosed(info *types.Info, seg, after []ast.Stmt) bool {
	ok := true
	defined := map[types.Object]bool{}
	for _, st := range seg {
		depth := 0
		var walk func(n ast.Node, breakable int)
		walk = func(n ast.Node, breakable int) {
			if n == nil || !ok {
				return
			}
			switch x := n.(type) {
			case *ast.ReturnStmt, *ast.DeferStmt, *ast.GoStmt, *ast.LabeledStmt, *ast.FuncLit:
				if _, isLit := x.(*ast.FuncLit); isLit {
					return
				}
				ok = false
				return
			case *ast.BranchStmt:
				if x.Label != nil || x.Tok == token.GOTO || x.Tok == token.FALLTHROUGH && breakable == 0 || breakable == 0 {
					ok = false
				}
				return
			case *ast.Ident:
				if o := info.Defs[x]; o != nil {
					defined[o] = true
				}
			}
			nb := breakable
			switch n.(type) {
			case *ast.ForStmt, *ast.RangeStmt, *ast.SwitchStmt, *ast.TypeSwitchStmt, *ast.SelectStmt:
				nb++
			}
			ast.Inspect(n, func(m ast.Node) bool {
				if m == n {
					return true
				}
				if m != nil {
					walk(m, nb)
				}
				return false
			})
		}
		_ = depth
		walk(st, 0)
	}
	if !ok {
		return false
	}
	for _, st := range after {
		ast.Inspect(st, func(n ast.Node) bool {
			if id, isID := n.(*ast.Ident); isID && defined[info.Uses[id]] {
				ok = false
			}
			return true
		})
	}
	return ok
}

// reextractEnqueue: the reference helper Channel.write (the non-blocking hand-over of an item to a channel's queue) is
// gone and its select statement is written out where it was called. Rules about who enqueues, and that the hand-over
// never blocks the node loop, are anchored at that helper. Every select statement that consists of one send
// `X.chWrite <- V` (X of type *Channel) plus receive / default clauses, all with empty bodies, is folded back into
// a method built from the first occurrence — but only occurrences that are the same statement up to X and V; a
// variant (say, without the default clause) stays where it is and is judged as written.
func reextractEnqueue(c *Ctx) (map[string]bool, []string) {
	changed := map[string]bool{}
	var notes []string
	p := c.Pkgs["root"]
	if p == nil || !knownFuncs["root:Channel.write"] {
		return changed, notes
	}
	// (looked up on the syntax: an earlier phase of this pass may just have re-introduced the method)
	for _, f := range p.Syntax {
		for _, d := range f.Decls {
			if fd, ok := d.(*ast.FuncDecl); ok && funcKey("root", fd) == "root:Channel.write" {
				return changed, notes
			}
		}
	}
	tobj, _ := p.Types.Scope().Lookup("Channel").(*types.TypeName)
	if tobj == nil {
		return changed, notes
	}
	type occ struct {
		list *[]ast.Stmt
		idx  int
		x, v ast.Expr
		text string
	}
	var occs []occ
	render := func(n ast.Node) string {
		var sb strings.Builder
		printer.Fprint(&sb, c.Fset, n)
		return sb.String()
	}
	var file *ast.File
	for _, f := range p.Syntax {
		for _, d := range f.Decls {
			fd, ok := d.(*ast.FuncDecl)
			if !ok || fd.Body == nil {
				continue
			}
			var visit func(list *[]ast.Stmt)
			visit = func(list *[]ast.Stmt) {
				for i, st := range *list {
					if sel, ok := st.(*ast.SelectStmt); ok {
						var x, v ast.Expr
						good := true
						for _, cl := range sel.Body.List {
							cc := cl.(*ast.CommClause)
							if len(cc.Body) != 0 {
								good = false
							}
							if snd, ok := cc.Comm.(*ast.SendStmt); ok {
								se, ok := snd.Chan.(*ast.SelectorExpr)
								if !ok || se.Sel.Name != "chWrite" || !isRecvOfType(p.TypesInfo, se.X, tobj) || !pureExpr(se.X) || !pureExpr(snd.Value) || x != nil {
									good = false
								} else {
									x, v = se.X, snd.Value
								}
							}
						}
						if good && x != nil {
							txt := replaceToken(replaceToken(render(sel), types.ExprString(x), "zzrecv"), types.ExprString(v), "zzwhat")
							occs = append(occs, occ{list, i, x, v, txt})
							if file == nil {
								file = f
							}
							continue
						}
					}
					ast.Inspect(st, func(n ast.Node) bool {
						switch y := n.(type) {
						case *ast.BlockStmt:
							if ast.Node(y) != ast.Node(st) {
								visit(&y.List)
								return false
							}
						case *ast.CaseClause:
							visit(&y.Body)
							return false
						case *ast.CommClause:
							visit(&y.Body)
							return false
						case *ast.FuncLit:
							visit(&y.Body.List)
							return false
						}
						return true
					})
					if bs, ok := st.(*ast.BlockStmt); ok {
						visit(&bs.List)
					}
				}
			}
			visit(&fd.Body.List)
		}
	}
	if len(occs) == 0 {
		return changed, notes
	}
	ref := occs[0].text
	src := "package " + p.Types.Name() + "\nfunc (zzrecv *Channel) write(zzwhat interface{}) {\n" + ref + "\n}\n"
	wf, err := parser.ParseFile(c.Fset, "zzreextract_write.go", src, 0)
	if err != nil || len(wf.Decls) != 1 {
		return changed, notes
	}
	rebase(wf.Decls[0], file.Decls[len(file.Decls)-1].End())
	file.Decls = append(file.Decls, wf.Decls[0])
	n := 0
	for _, o := range occs {
		if o.text != ref {
			continue
		}
		pos := (*o.list)[o.idx].Pos()
		(*o.list)[o.idx] = &ast.ExprStmt{X: &ast.CallExpr{Fun: &ast.SelectorExpr{X: o.x, Sel: &ast.Ident{Name: "write", NamePos: pos}}, Lparen: pos, Args: []ast.Expr{o.v}, Rparen: pos}}
		n++
	}
	changed["root"] = true
	notes = append(notes, fmt.Sprintf("re-extracted the reference helper root:Channel.write from %d identical in-line hand-over selects (%d occurrences differ and stay in line)", n, len(occs)-n))
	return changed, notes
}

// replaceToken replaces occurrences of the (possibly dotted) name old in s by new, where old stands as a whole token
// sequence: not preceded by an identifier character or a dot, not followed by an identifier character.
func replaceToken(s, old, new string) string {
	if old == "" {
		return s
	}
	isID := func(b byte) bool { return b == '_' || b >= '0' && b <= '9' || b >= 'a' && b <= 'z' || b >= 'A' && b <= 'Z' }
	var out []byte
	for i := 0; i < len(s); {
		if strings.HasPrefix(s[i:], old) && (i == 0 || !isID(s[i-1]) && s[i-1] != '.') && (i+len(old) == len(s) || !isID(s[i+len(old)])) {
			out = append(out, new...)
			i += len(old)
			continue
		}
		out = append(out, s[i])
		i++
	}
	return string(out)
}

// flagLoopsToBreaks: `for run := true; run; { select { …; case <-t: run = false } }` (or `done := false; for !done
// { … done = true … }`) is the labelled-break loop `L: for { select { …; case <-t: break L } }` when the flag has no
// other use and every assignment that ends the loop is in tail position of the loop body (nothing runs between it and
// the next evaluation of the condition). The rules read loop exits off the control-flow graph; a flag hides the exit
// behind a value. Purely syntactic, checked through go/types objects.
func flagLoopsToBreaks(c *Ctx) (map[string]bool, []string) {
	changed := map[string]bool{}
	var notes []string
	nLabel := 0
	for pk, p := range c.Pkgs {
		if strings.HasPrefix(pk, "pkg/dialects") || strings.HasPrefix(pk, "examples") || strings.HasPrefix(pk, "cmd") {
			continue
		}
		info := p.TypesInfo
		for _, f := range p.Syntax {
			for _, d := range f.Decls {
				fd, ok := d.(*ast.FuncDecl)
				if !ok || fd.Body == nil {
					continue
				}
				// uses of every object in this function
				uses := map[types.Object][]*ast.Ident{}
				ast.Inspect(fd.Body, func(n ast.Node) bool {
					if id, ok := n.(*ast.Ident); ok {
						if o := info.Uses[id]; o != nil {
							uses[o] = append(uses[o], id)
						}
					}
					return true
				})
				boolConst := func(e ast.Expr) (bool, bool) {
					id, ok := e.(*ast.Ident)
					if !ok {
						return false, false
					}
					if cst, ok := info.Uses[id].(*types.Const); ok && cst.Parent() == types.Universe {
						return id.Name == "true", id.Name == "true" || id.Name == "false"
					}
					return false, false
				}
				var visit func(list *[]ast.Stmt)
				visit = func(list *[]ast.Stmt) {
					for i := 0; i < len(*list); i++ {
						st := (*list)[i]
						var label *ast.LabeledStmt
						if ls, ok := st.(*ast.LabeledStmt); ok {
							label = ls
							st = ls.Stmt
						}
						fs, isFor := st.(*ast.ForStmt)
						if isFor && fs.Post == nil && fs.Cond != nil {
							// condition: flag or !flag
							cond, negated := fs.Cond, false
							if u, ok := cond.(*ast.UnaryExpr); ok && u.Op == token.NOT {
								cond, negated = u.X, true
							}
							if id, ok := cond.(*ast.Ident); ok {
								if vobj, ok := info.Uses[id].(*types.Var); ok && !vobj.IsField() && types.Identical(vobj.Type(), types.Typ[types.Bool]) {
									// the declaration: loop init, or the statement just before the loop
									var declStmt *ast.AssignStmt
									inInit := false
									if as, ok := fs.Init.(*ast.AssignStmt); ok && as.Tok == token.DEFINE && len(as.Lhs) == 1 && len(as.Rhs) == 1 {
										if lid, ok := as.Lhs[0].(*ast.Ident); ok && info.Defs[lid] == types.Object(vobj) {
											declStmt, inInit = as, true
										}
									}
									if declStmt == nil && fs.Init == nil && i > 0 {
										if as, ok := (*list)[i-1].(*ast.AssignStmt); ok && as.Tok == token.DEFINE && len(as.Lhs) == 1 && len(as.Rhs) == 1 {
											if lid, ok := as.Lhs[0].(*ast.Ident); ok && info.Defs[lid] == types.Object(vobj) {
												declStmt = as
											}
										}
									}
									if declStmt != nil {
										iv, isC := boolConst(declStmt.Rhs[0])
										if isC && iv != negated { // the condition holds initially
											// every other use: an assignment in the body that makes the condition false, in tail position
											var ends []*ast.AssignStmt
											okUses := true
											endLHS := map[*ast.Ident]bool{}
											var tail func(body []ast.Stmt, isTail bool)
											tail = func(body []ast.Stmt, isTail bool) {
												for j, s := range body {
													last := isTail && j == len(body)-1
													switch x := s.(type) {
													case *ast.AssignStmt:
														if len(x.Lhs) == 1 && len(x.Rhs) == 1 && x.Tok == token.ASSIGN {
															if lid, ok := x.Lhs[0].(*ast.Ident); ok && info.Uses[lid] == types.Object(vobj) {
																v, isK := boolConst(x.Rhs[0])
																if !isK || v != negated || !last {
																	okUses = false
																}
																ends = append(ends, x)
																endLHS[lid] = true
															}
														}
													case *ast.BlockStmt:
														tail(x.List, last)
													case *ast.IfStmt:
														tail(x.Body.List, last)
														switch e := x.Else.(type) {
														case *ast.BlockStmt:
															tail(e.List, last)
														case *ast.IfStmt:
															tail([]ast.Stmt{e}, last)
														}
													case *ast.SelectStmt:
														for _, cl := range x.Body.List {
															tail(cl.(*ast.CommClause).Body, last)
														}
													case *ast.SwitchStmt:
														for _, cl := range x.Body.List {
															tail(cl.(*ast.CaseClause).Body, last)
														}
													case *ast.TypeSwitchStmt:
														for _, cl := range x.Body.List {
															tail(cl.(*ast.CaseClause).Body, last)
														}
													case *ast.ForStmt:
														tail(x.Body.List, false)
													case *ast.RangeStmt:
														tail(x.Body.List, false)
													case *ast.LabeledStmt:
														tail([]ast.Stmt{x.Stmt}, last)
													}
												}
											}
											tail(fs.Body.List, true)
											for _, uid := range uses[vobj] {
												if uid != id && !endLHS[uid] {
													okUses = false
												}
											}
											// function literals inside the body may assign the flag too: any use inside one was not seen by tail()
											if okUses && len(ends) > 0 && len(uses[vobj]) == 1+len(ends) {
												if label == nil {
													nLabel++
													label = &ast.LabeledStmt{Label: &ast.Ident{Name: fmt.Sprintf("zzflagloop%d", nLabel), NamePos: fs.Pos()}, Colon: fs.Pos(), Stmt: fs}
													(*list)[i] = label
												}
												for _, e := range ends {
													replaceStmt(fs.Body, e, &ast.BranchStmt{TokPos: e.Pos(), Tok: token.BREAK, Label: &ast.Ident{Name: label.Label.Name, NamePos: e.Pos()}})
												}
												fs.Cond = nil
												if inInit {
													fs.Init = nil
												} else {
													(*list)[i-1] = &ast.EmptyStmt{Semicolon: declStmt.Pos(), Implicit: true}
												}
												changed[pk] = true
												notes = append(notes, fmt.Sprintf("flag-controlled loop in %s rewritten as a labelled-break loop (%d exits)", funcKey(pk, fd), len(ends)))
											}
										}
									}
								}
							}
						}
						// recurse
						ast.Inspect((*list)[i], func(n ast.Node) bool {
							switch y := n.(type) {
							case *ast.BlockStmt:
								visit(&y.List)
								return false
							case *ast.CaseClause:
								visit(&y.Body)
								return false
							case *ast.CommClause:
								visit(&y.Body)
								return false
							case *ast.FuncLit:
								return false
							}
							return true
						})
					}
				}
				visit(&fd.Body.List)
			}
		}
	}
	return changed, notes
}

// replaceStmt replaces statement old by repl wherever it occurs in the statement lists below root.
func replaceStmt(root ast.Node, old, repl ast.Stmt) {
	ast.Inspect(root, func(n ast.Node) bool {
		var list *[]ast.Stmt
		switch y := n.(type) {
		case *ast.BlockStmt:
			list = &y.List
		case *ast.CaseClause:
			list = &y.Body
		case *ast.CommClause:
			list = &y.Body
		}
		if list != nil {
			for i, s := range *list {
				if s == old {
					(*list)[i] = repl
				}
			}
		}
		return true
	})
}
