package main

import (
	"fmt"
	"go/constant"
	"go/token"
	"go/types"
	"sort"
	"strings"

	"golang.org/x/tools/go/ssa"
)

func init() {
	register("C17", []string{"./pkg/message", "./pkg/dialect", "./pkg/dialects/..."}, runC17)
}

func runC17(c *Ctx) {
	r := c.R
	r.Exhaustive = true
	r.NotDecided = append(r.NotDecided,
		"Initialize() actually returning nil for each shipped dialect (that is what the existing tests run); R17.1–R17.3 decide the admissibility conditions Initialize checks, exhaustively",
		"lookups for all 2^24 ids as executions (R17.6 decides them by shape: a Go map filled once, looked up by the id argument)")
	dds := ruleDialectData(c, "R17.1", false)

	// R17.4 included means identical
	r.Rule("R17.4", "included means identical: a message listed by several dialects under the same Go type name is the very same Go type in all of them (alias to one definition), or — if defined separately — "+
		"has an identical field list, tags and id in each; so decoded values pass between dialects unchanged", 350)
	byName := map[string][]*msgDef{}
	for _, dd := range dds {
		for _, m := range dd.msgs {
			byName[m.typeName] = append(byName[m.typeName], m)
		}
	}
	var names []string
	for n := range byName {
		names = append(names, n)
	}
	sort.Strings(names)
	for _, n := range names {
		ms := byName[n]
		if len(ms) < 2 {
			continue
		}
		ref := ms[0]
		var probs []string
		for _, m := range ms[1:] {
			if m.named == ref.named {
				continue
			}
			// separately defined
			if types.Identical(m.named.Underlying(), ref.named.Underlying()) && sameTags(m.named, ref.named) && m.id == ref.id {
				probs = append(probs, fmt.Sprintf("%s.%s and %s.%s are the same message (same id, fields and tags) but distinct Go types: a value decoded by one dialect does not match a type switch on the other's type (an included message must be an alias of the including definition)", m.defPkg, n, ref.defPkg, n))
			} else if !types.Identical(m.named.Underlying(), ref.named.Underlying()) || !sameTags(m.named, ref.named) {
				probs = append(probs, fmt.Sprintf("%s.%s and %s.%s are different Go types with different field lists", m.defPkg, n, ref.defPkg, n))
			} else if m.id != ref.id {
				probs = append(probs, fmt.Sprintf("%s.%s has id %d but %s.%s has id %d", m.defPkg, n, m.id, ref.defPkg, n, ref.id))
			}
		}
		sort.Strings(probs)
		if len(probs) > 3 {
			probs = probs[:3]
		}
		r.Check(len(probs) == 0, "R17.4", n, ref.pos, fmt.Sprintf("same type in %d dialects", len(ms)), strings.Join(probs, "; "))
	}

	// R17.5 enum constants agree
	r.Rule("R17.5", "an enum constant name defined in several dialect packages has the same numeric value in all of them", 2000)
	type cdef struct {
		pkg string
		val string
		pos token.Pos
	}
	consts := map[string][]cdef{}
	for _, p := range dialectPackages(c) {
		sc := p.Types.Scope()
		for _, n := range sc.Names() {
			k, ok := sc.Lookup(n).(*types.Const)
			if !ok || k.Val().Kind() != constant.Int {
				continue
			}
			if _, isNamed := types.Unalias(k.Type()).(*types.Named); !isNamed {
				continue
			}
			consts[n] = append(consts[n], cdef{pkgKey(p.PkgPath), k.Val().ExactString(), k.Pos()})
		}
	}
	var cn []string
	for n := range consts {
		cn = append(cn, n)
	}
	sort.Strings(cn)
	for _, n := range cn {
		ds := consts[n]
		ok := true
		why := ""
		for _, d := range ds[1:] {
			if d.val != ds[0].val {
				ok = false
				why = fmt.Sprintf("%s = %s in %s but %s in %s", n, ds[0].val, ds[0].pkg, d.val, d.pkg)
			}
		}
		if len(ds) > 1 || !ok {
			r.Check(ok, "R17.5", n, c.Pos(ds[0].pos), fmt.Sprintf("= %s in %d packages", ds[0].val, len(ds)), why)
		}
	}

	// R17.6 dialect.ReadWriter
	r.Rule("R17.6", "dialect.ReadWriter.Initialize: inside the loop over Dialect.Messages the duplicate-id test (comma-ok lookup with error return) is passed before the insertion messageRWs[id] = codec, the codec is the one built from "+
		"that very message and its Initialize error is returned before insertion; the table is written nowhere else (built eagerly); GetMessage returns the table entry for its id argument and nil when absent", 5)
	ini := c.Fn("pkg/dialect", "ReadWriter.Initialize")
	gm := c.Fn("pkg/dialect", "ReadWriter.GetMessage")
	if ini != nil {
		r.Functions[fnQual(ini)] = true
		var ins *ssa.MapUpdate
		n := 0
		for _, in := range allInstrs(ini) {
			if mu, ok := in.(*ssa.MapUpdate); ok && ex(mu.Map) == "recv.messageRWs" {
				ins = mu
				n++
			}
		}
		if ins == nil || n != 1 {
			r.Fail("R17.6", "Initialize insertion", c.Pos(ini.Pos()), fmt.Sprintf("%d insertions into messageRWs, expected one", n))
		} else {
			// key = GetID of the ranged message; value = literal with Message = that message
			keyOK := strings.HasPrefix(ex(ins.Key), "(message.Message).GetID(")
			msg := strings.TrimSuffix(strings.TrimPrefix(ex(ins.Key), "(message.Message).GetID("), ")")
			valOK := false
			if a := underlyingAlloc(ins.Value); a != nil {
				if v := litFields(a)["Message"]; v != nil && ex(v) == msg {
					valOK = true
				}
			}
			r.Check(keyOK && valOK && inLoop(ins.Block()), "R17.6", "Initialize insertion", c.Pos(ins.Pos()), "messageRWs[m.GetID()] = codec of m, for every m", "the table entry is not keyed by the message's own id / does not hold the codec built from that message")
			// duplicate test
			dup := false
			for _, iff := range ifsIn(ini) {
				if e, ok := iff.Cond.(*ssa.Extract); ok && e.Index == 1 {
					if lk, ok := e.Tuple.(*ssa.Lookup); ok && lk.CommaOk && ex(lk.X) == "recv.messageRWs" && ex(lk.Index) == ex(ins.Key) {
						tb := iff.Block().Succs[0]
						if ret, ok := tb.Instrs[len(tb.Instrs)-1].(*ssa.Return); ok && !isNilConst(ret.Results[0]) && edgeMustPass(ini, edge{iff.Block(), iff.Block().Succs[1]}, ins.Block()) {
							dup = true
						}
					}
				}
			}
			r.Check(dup, "R17.6", "Initialize duplicate-id test", c.Pos(ins.Pos()), "duplicate ids rejected before insertion", "no duplicate-id test with an error return is passed before the insertion: a dialect with duplicate ids is accepted and the later message silently replaces the earlier")
			// codec Initialize error returned before insertion
			okInit := false
			for _, ci := range callsNamed(ini, "(message.ReadWriter).Initialize") {
				call := ci.(*ssa.Call)
				if ex(call.Call.Args[0]) != ex(ins.Value) {
					continue
				}
				for _, iff := range ifsIn(ini) {
					if b, ok := iff.Cond.(*ssa.BinOp); ok && b.Op == token.NEQ && b.X == ssa.Value(call) && isNilConst(b.Y) {
						tb := iff.Block().Succs[0]
						if ret, ok := tb.Instrs[len(tb.Instrs)-1].(*ssa.Return); ok && !isNilConst(ret.Results[0]) && edgeMustPass(ini, edge{iff.Block(), iff.Block().Succs[1]}, ins.Block()) {
							okInit = true
						}
					}
				}
			}
			r.Check(okInit, "R17.6", "Initialize codec error", c.Pos(ins.Pos()), "a malformed message struct is reported when the dialect is initialised", "the codec's Initialize error is not returned before the codec is inserted: a malformed message is accepted at initialisation")
		}
		// written nowhere else
		f := c.Field("pkg/dialect", "ReadWriter", "messageRWs")
		var others []string
		for _, fn := range c.AllFns {
			for _, in := range allInstrs(fn) {
				if mu, ok := in.(*ssa.MapUpdate); ok && strings.HasSuffix(ex(mu.Map), ".messageRWs") && fn != ini {
					others = append(others, fnLocalName(fn))
				}
			}
		}
		for _, fs := range c.fieldStoresAll(f) {
			if fs.Fn != ini {
				others = append(others, fnLocalName(fs.Fn))
			}
		}
		r.Check(len(others) == 0, "R17.6", "messageRWs writers", "-", "table built only by Initialize", fmt.Sprintf("messageRWs is written outside Initialize: %v (lazy construction makes lookups depend on history)", others))
	}
	if gm != nil {
		r.Functions[fnQual(gm)] = true
		ok := false
		for _, in := range allInstrs(gm) {
			if lk, isL := in.(*ssa.Lookup); isL && ex(lk.X) == "recv.messageRWs" && ex(lk.Index) == "arg0" {
				ok = true
			}
		}
		rs := returnSet(gm, 0)
		okRet := true
		for k := range rs {
			if k != "nil" && !strings.HasPrefix(k, "recv.messageRWs[arg0]") {
				okRet = false
			}
		}
		r.Check(ok && okRet, "R17.6", "GetMessage lookup", c.Pos(gm.Pos()), "returns messageRWs[id] or nil", fmt.Sprintf("GetMessage does not return the table entry of its id argument (returns %v)", keysOf(rs)))
	}

	ruleSizeArithmetic(c, "R17.7")
	ruleCRCExtraPreimage(c, "R17.8")
	ruleTypeAdmission(c, "R17.9")
	ruleCodecCaches(c, "R17.10")
	ruleInitExaminesAll(c, "R17.11")
}

func sameTags(a, b *types.Named) bool {
	sa, ok1 := a.Underlying().(*types.Struct)
	sb, ok2 := b.Underlying().(*types.Struct)
	if !ok1 || !ok2 || sa.NumFields() != sb.NumFields() {
		return false
	}
	for i := 0; i < sa.NumFields(); i++ {
		if sa.Tag(i) != sb.Tag(i) || sa.Field(i).Name() != sb.Field(i).Name() {
			return false
		}
	}
	return true
}

// ruleInitExaminesAll (R17.11): dialect.ReadWriter.Initialize reports success only after it has gone through the
// messages. A success return that can be reached without entering the loop over Dialect.Messages is accepted only as
// an idempotence guard on a field that is assigned exclusively after the loop completed; a guard on state that is set
// before or during the loop (e.g. the table itself, allocated up front) turns a failed first call into a successful
// second one: the malformed dialect is accepted and lookups silently miss.
func ruleInitExaminesAll(c *Ctx, rule string) {
	r := c.R
	r.Rule(rule, "dialect.ReadWriter.Initialize returns nil only after the loop over Dialect.Messages (duplicate ids, codec construction) has run to completion, or under a guard on a field that is assigned only after that loop", 1)
	ini := c.Fn("pkg/dialect", "ReadWriter.Initialize")
	if ini == nil {
		return
	}
	// the loop: blocks from which the insertion into messageRWs is reachable and that the insertion reaches
	var ins *ssa.MapUpdate
	for _, in := range allInstrs(ini) {
		if mu, ok := in.(*ssa.MapUpdate); ok && inLoop(mu.Block()) {
			ins = mu
		}
	}
	if ins == nil {
		r.Broken(rule, "Initialize loop", "no insertion inside a loop found in dialect.ReadWriter.Initialize")
		return
	}
	loop := map[*ssa.BasicBlock]bool{}
	from := reachFrom(ins.Block(), nil, nil)
	for _, b := range ini.Blocks {
		if (b == ins.Block() || from[b]) && (b == ins.Block() || reachFrom(b, nil, nil)[ins.Block()]) {
			loop[b] = true
		}
	}
	bad := ""
	for _, ret := range retInstrs(ini) {
		if len(ret.Results) != 1 || !isNilConst(ret.Results[0]) {
			continue
		}
		// reachable from the entry without entering the loop?
		if !reachFrom(ini.Blocks[0], nil, loop)[ret.Block()] && ret.Block() != ini.Blocks[0] {
			continue
		}
		// every guard on the way must test a field that is stored only after the loop
		okGuard := false
		for _, iff := range ifsIn(ini) {
			if loop[iff.Block()] || !(edgeMustPass(ini, edge{iff.Block(), iff.Block().Succs[0]}, ret.Block()) || edgeMustPass(ini, edge{iff.Block(), iff.Block().Succs[1]}, ret.Block())) {
				continue
			}
			var fld *types.Var
			var walk func(v ssa.Value, d int)
			walk = func(v ssa.Value, d int) {
				if d > 5 || v == nil {
					return
				}
				if u, ok := v.(*ssa.UnOp); ok && u.Op == token.MUL {
					if f, _ := fieldOfAddr(u.X); f != nil {
						fld = f
					}
				}
				if in, ok := v.(ssa.Instruction); ok {
					for _, op := range in.Operands(nil) {
						walk(*op, d+1)
					}
				}
			}
			walk(iff.Cond, 0)
			if fld == nil {
				continue
			}
			lateOnly, n := true, 0
			for _, in := range allInstrs(ini) {
				st, ok := in.(*ssa.Store)
				if !ok {
					continue
				}
				if f, _ := fieldOfAddr(st.Addr); f == fld {
					n++
					if loop[st.Block()] || reachFrom(st.Block(), nil, nil)[ins.Block()] {
						lateOnly = false
					}
				}
			}
			if n > 0 && lateOnly {
				okGuard = true
			} else {
				bad = "success is returned at " + c.Pos(ret.Pos()) + " without examining the messages, under a test of " + fld.Name() + ", which is assigned before the loop over the messages has completed: after a failed Initialize a second call reports success"
			}
		}
		if !okGuard && bad == "" {
			bad = "success is returned at " + c.Pos(ret.Pos()) + " without the loop over Dialect.Messages having run"
		}
	}
	r.Check(bad == "", rule, "Initialize success only after the loop", c.Pos(ini.Pos()), "every `return nil` lies behind the loop over the messages", bad)
}
