package main

import (
	"regexp"
	"fmt"
	"go/constant"
	"go/token"
	"go/types"
	"regexp/syntax"
	"sort"
	"strconv"
	"strings"

	"golang.org/x/tools/go/ssa"
)

func init() {
	register("C18", []string{"./pkg/conversion", "./pkg/message"}, runC18)
}

func convFns(c *Ctx) []*ssa.Function {
	var out []*ssa.Function
	for _, fn := range c.AllFns {
		if inPkg(fn, "pkg/conversion") {
			out = append(out, fn)
		}
	}
	return out
}

func runC18(c *Ctx) {
	r := c.R
	r.NotDecided = append(r.NotDecided,
		"the bulk of the statement: that generated code compiles for every valid XML and has the spec's ids / order / sizes / CRC_EXTRA; byte-identical regeneration as an observation — a translator-correctness claim over run-time inputs that no static argument in reach decides; only the necessary conditions below are claimed",
		"discarded errors on invalid inputs (Atoi of the message id, d.Token(), Atoi(version), os.Mkdir): they concern inputs outside 'every valid dialect XML'")
	cp := c.Pkgs["pkg/conversion"]
	mp := c.Pkgs["pkg/message"]
	if cp == nil || mp == nil {
		r.Broken("anchor", "packages", "pkg/conversion / pkg/message not loaded")
		return
	}
	ruleTypeTables(c, mp, "R18.1")

	// R18.1b struct-tag vocabulary
	r.Rule("R18.1b", "generator ↔ runtime vocabulary: the set of struct-tag keys written by processField equals the set read by message.ReadWriter.Initialize via Tag.Get (mavenum, mavlen, mavext, mavname); the extension marker value is \"true\" on both sides; "+
		"generated message types carry the 'Message' prefix the runtime requires", 3)
	pf := c.Fn("pkg/conversion", "processField")
	ini := c.Fn("pkg/message", "ReadWriter.Initialize")
	if pf != nil && ini != nil {
		r.Functions[fnQual(pf)] = true
		written := map[string]bool{}
		extVal := ""
		for _, in := range allInstrs(pf) {
			if mu, ok := in.(*ssa.MapUpdate); ok {
				if k, isC := mu.Key.(*ssa.Const); isC && k.Value != nil && k.Value.Kind() == constant.String {
					key := constant.StringVal(k.Value)
					written[key] = true
					if key == "mavext" {
						extVal = ex(peel(mu.Value))
					}
				}
			}
		}
		read := map[string]bool{}
		extCmp := ""
		for _, fn := range append([]*ssa.Function{ini}, closuresOf(c, ini)...) {
			for _, ci := range callsNamed(fn, "(reflect.StructTag).Get") {
				if k, isC := ci.Common().Args[1].(*ssa.Const); isC && k.Value != nil {
					read[constant.StringVal(k.Value)] = true
				}
			}
			for _, in := range allInstrs(fn) {
				if b, ok := in.(*ssa.BinOp); ok && b.Op == token.EQL && strings.Contains(ex(b.X), "\"mavext\"") {
					extCmp = ex(b.Y)
				}
			}
		}
		r.Check(strings.Join(keysOf(written), ",") == strings.Join(keysOf(read), ",") && len(written) == 4, "R18.1b", "struct tag keys", c.Pos(pf.Pos()), fmt.Sprintf("%v", keysOf(written)),
			fmt.Sprintf("the generator writes tags %v but the runtime reads %v: a field property is silently lost", keysOf(written), keysOf(read)))
		r.Check(extVal == "\"true\"" && extCmp == "\"true\"", "R18.1b", "extension marker value", c.Pos(pf.Pos()), "\"true\" on both sides", fmt.Sprintf("generator writes mavext=%s, runtime compares with %s", extVal, extCmp))
	}
	// 'Message' prefix in the template vs the runtime test
	okPrefix := false
	if tpl := templateText(c, "tplMessage"); tpl != "" && ini != nil {
		pre := false
		for _, ci := range callsNamed(ini, "strings.HasPrefix") {
			if ex(ci.Common().Args[1]) == "\"Message\"" {
				pre = true
			}
		}
		okPrefix = pre && strings.Contains(tpl, "type Message{{ .Msg.Name }} struct") && strings.Contains(tpl, "func (*Message{{ .Msg.Name }}) GetID() uint32")
	}
	r.Check(okPrefix, "R18.1b", "Message prefix", "-", "template emits `type Message<Name>` with a pointer-receiver GetID; runtime requires the prefix", "the message template no longer declares `type Message{{ .Msg.Name }} struct` with `func (*Message…) GetID() uint32`, or the runtime prefix test changed")

	// R18.1c: mavlen only for char arrays
	r.Rule("R18.1c", "array-length tag: processField writes the `mavlen` tag only with the length matched by the `type[N]` pattern (a scalar `char` stays a bare string: the runtime hashes a length byte into CRC_EXTRA for every tagged string, the spec only for arrays)", 1)
	if pf := c.Fn("pkg/conversion", "processField"); pf != nil {
		var probs []string
		n := 0
		for _, in := range allInstrs(pf) {
			mu, ok := in.(*ssa.MapUpdate)
			if !ok || ex(mu.Key) != "\"mavlen\"" {
				continue
			}
			n++
			seen := map[ssa.Value]bool{}
			var walk func(x ssa.Value)
			walk = func(x ssa.Value) {
				if seen[x] {
					return
				}
				seen[x] = true
				if p, isPhi := x.(*ssa.Phi); isPhi {
					for _, e := range p.Edges {
						walk(e)
					}
					return
				}
				if s := ex(x); !(strings.Contains(s, "FindStringSubmatch(") && strings.HasSuffix(s, "[2]")) {
					probs = append(probs, "mavlen ← "+shortErr(x)+" ("+c.Pos(mu.Pos())+"): the tag is not (only) the length matched from `type[N]`; a scalar char would be generated as an array of one and its CRC_EXTRA would hash a length byte the spec does not")
				}
			}
			walk(mu.Value)
		}
		sort.Strings(probs)
		r.Check(len(probs) == 0 && n > 0, "R18.1c", "processField mavlen", c.Pos(pf.Pos()), "mavlen ← N of `char[N]` only", orStr(strings.Join(probs, "; "), "processField never writes the mavlen tag"))
	}

	// R18.2 name inversion
	r.Rule("R18.2", "name conversion: conversion.dialectNameGoToDef and message.fieldGoToDef compute the same function (regexp \"([A-Z])\" → \"_${1}\", drop first, lower-case); dialectNameDefToGo is lower-case, then upper-case the letter after each \"_[a-z]\" match, "+
		"capitalise the first letter (digits keep their underscore, so the runtime's msgGoToDef / fieldGoToDef invert it); processField emits mavname exactly when dialectNameGoToDef(dialectNameDefToGo(name)) != name", 3)
	g2d := c.Fn("pkg/conversion", "dialectNameGoToDef")
	f2d := c.FnOpt("pkg/message", "fieldGoToDef")
	if g2d != nil {
		a, b := "", ""
		if rs := retInstrs(g2d); len(rs) == 1 {
			a = ex(rs[0].Results[0])
		}
		if f2d != nil {
			if rs := retInstrs(f2d); len(rs) == 1 {
				b = ex(rs[0].Results[0])
			}
		} else if ini := c.FnOpt("pkg/message", "ReadWriter.Initialize"); ini != nil {
			// the runtime's conversion written out where the field name is computed: the same expression over the Go name
			reIn := regexp.MustCompile(`^strings\.ToLower\(\(regexp\.Regexp\)\.ReplaceAllString\(regexp\.MustCompile\("\(\[A-Z\]\)"\),[^,]+\.Name,"_\$\{1\}"\)\[1:\]\)$`)
			for _, fn := range append([]*ssa.Function{ini}, ini.AnonFuncs...) {
				for _, in := range allInstrs(fn) {
					if v, ok := in.(ssa.Value); ok && reIn.MatchString(ex(v)) {
						b = "strings.ToLower((regexp.Regexp).ReplaceAllString(regexp.MustCompile(\"([A-Z])\"),arg0,\"_${1}\")[1:])"
					}
				}
			}
		}
		want := "strings.ToLower((regexp.Regexp).ReplaceAllString(regexp.MustCompile(\"([A-Z])\"),arg0,\"_${1}\")[1:])"
		r.Check(a == b && a == want, "R18.2", "GoToDef agreement", c.Pos(g2d.Pos()), "generator's check and runtime's inversion are the same function", "conversion.dialectNameGoToDef ("+a+") and message.fieldGoToDef ("+b+") differ: the generator decides `mavname` with a different inversion than the runtime applies")
	}
	if d2g := c.Fn("pkg/conversion", "dialectNameDefToGo"); d2g != nil {
		var probs []string
		re := ""
		// the regexp the function applies: the receiver of ReplaceAllStringFunc / ReplaceAllString, compiled in
		// place or hoisted into a package variable (rendered as its initialiser)
		for _, ci := range callsIn(d2g, func(n string, _ *ssa.CallCommon) bool { return strings.HasPrefix(n, "(regexp.Regexp).Replace") }) {
			rx := ex(ci.Common().Args[0])
			if strings.HasPrefix(rx, "regexp.MustCompile(") && strings.HasSuffix(rx, ")") {
				re = strings.TrimSuffix(strings.TrimPrefix(rx, "regexp.MustCompile("), ")")
			} else {
				re = rx
			}
		}
		if re != "\"_[a-z]\"" {
			probs = append(probs, "underscore-folding regexp is "+re+", expected \"_[a-z]\" (folding `_<digit>` makes message names non-invertible: CRC_EXTRA of messages like X_1_TO_4 silently changes)")
		}
		lower := false
		for _, ci := range callsNamed(d2g, "(regexp.Regexp).ReplaceAllStringFunc") {
			if strings.HasPrefix(ex(ci.Common().Args[1]), "strings.ToLower(arg0)") {
				lower = true
			}
		}
		if !lower {
			probs = append(probs, "input is not lower-cased before folding")
		}
		if cl := closuresOf(c, d2g); len(cl) == 1 {
			if rs := retInstrs(cl[0]); len(rs) != 1 || ex(rs[0].Results[0]) != "strings.ToUpper(arg0[1:2])" {
				probs = append(probs, "the folded match is not replaced by its upper-cased letter")
			}
		} else {
			probs = append(probs, "replacement closure not found")
		}
		if rs := retInstrs(d2g); len(rs) != 1 || !strings.HasPrefix(ex(rs[0].Results[0]), "(strings.ToUpper(") || !strings.Contains(ex(rs[0].Results[0]), "[:1]) + ") {
			probs = append(probs, "first letter is not capitalised")
		}
		r.Check(len(probs) == 0, "R18.2", "dialectNameDefToGo", c.Pos(d2g.Pos()), "snake_case → CamelCase, digits keep their underscore", strings.Join(probs, "; "))
	}
	if pf != nil {
		ok := false
		for _, iff := range ifsIn(pf) {
			if ex(iff.Cond) == "(conversion.dialectNameGoToDef(conversion.dialectNameDefToGo(arg0.Name)) != arg0.Name)" {
				for _, in := range iff.Block().Succs[0].Instrs {
					if mu, isMU := in.(*ssa.MapUpdate); isMU && ex(mu.Key) == "\"mavname\"" && ex(peel(mu.Value)) == "arg0.Name" {
						ok = true
					}
				}
			}
		}
		r.Check(ok, "R18.2", "processField mavname", c.Pos(pf.Pos()), "mavname = XML name exactly when the round trip of the name fails", "processField does not emit `mavname:<xml name>` exactly when dialectNameGoToDef(dialectNameDefToGo(name)) != name")
	}

	// R18.3 determinism
	r.Rule("R18.3", "determinism: in package conversion no output depends on map iteration order: inside every range over a map, data accumulated into a slice is sorted (sort.Strings / sort.Slice) before any other use, "+
		"and nothing else is accumulated (no string concatenation or writes to a shared buffer); a loop that only emits one independent file per key is accepted", 2)
	nRange := 0
	for _, fn := range convFns(c) {
		for _, in := range allInstrs(fn) {
			rg, ok := in.(*ssa.Range)
			if !ok {
				continue
			}
			if _, isMap := rg.X.Type().Underlying().(*types.Map); !isMap {
				continue
			}
			nRange++
			key := fnLocalName(fn) + " range " + typeStr(rg.X.Type())
			// loop blocks: blocks that can reach the Next instruction again
			var next *ssa.Next
			for _, rf := range *rg.Referrers() {
				if n, ok := rf.(*ssa.Next); ok {
					next = n
				}
			}
			if next == nil {
				r.Broken("R18.3", key, "range without next")
				continue
			}
			var probs []string
			for _, b := range fn.Blocks {
				if b == next.Block() || !reachFrom(b, nil, nil)[next.Block()] || !reachFrom(next.Block(), nil, nil)[b] {
					continue
				}
				for _, li := range b.Instrs {
					switch x := li.(type) {
					case *ssa.Call:
						n := calleeName(&x.Call)
						switch {
						case n == "append":
							// the slice after the loop must be sorted before use
							phi := appendPhi(x, next.Block())
							if phi == nil || !sortedBeforeUse(fn, phi, next.Block()) {
								probs = append(probs, "elements appended in map order at "+c.Pos(x.Pos())+" are used without being sorted: the generated text depends on Go's random map iteration order")
							}
						case strings.HasPrefix(n, "(bytes.Buffer).Write") || strings.HasPrefix(n, "(strings.Builder).Write") || n == "fmt.Fprintf" || n == "fmt.Fprint" || n == "fmt.Fprintln":
							probs = append(probs, "output written in map order at "+c.Pos(x.Pos()))
						}
					case *ssa.BinOp:
						if x.Op == token.ADD && typeStr(x.Type()) == "string" {
							if _, isPhi := x.X.(*ssa.Phi); isPhi {
								probs = append(probs, "string built in map order at "+c.Pos(x.Pos()))
							}
						}
					}
				}
			}
			r.Check(len(probs) == 0, "R18.3", key, c.Pos(rg.Pos()), "order-independent", strings.Join(probs, "; "))
		}
	}
	if nRange < 2 {
		r.Broken("R18.3", "map ranges", fmt.Sprintf("only %d map ranges found in package conversion", nRange))
	}

	// R18.4 include recursion + version
	r.Rule("R18.4", "include recursion: processDefinition tests the visited set (return without work when present) and inserts the address before reading the definition and before recursing; included definitions are appended before the including one; "+
		"the version of the including file overrides those of its includes (assigned after the include loop) whenever the XML states one — the version is kept as text so that \"0\" is a stated version", 4)
	if pd := c.Fn("pkg/conversion", "processDefinition"); pd != nil {
		r.Functions[fnQual(pd)] = true
		var ins *ssa.MapUpdate
		for _, in := range allInstrs(pd) {
			if mu, ok := in.(*ssa.MapUpdate); ok && ex(mu.Map) == "arg1" && ex(mu.Key) == "arg3" {
				ins = mu
			}
		}
		var visIf *ssa.If
		for _, iff := range ifsIn(pd) {
			if ex(iff.Cond) == "arg1[arg3]?#1" {
				visIf = iff
			}
		}
		okVis := ins != nil && visIf != nil && edgeMustPass(pd, edge{visIf.Block(), visIf.Block().Succs[1]}, ins.Block())
		if okVis {
			tb := visIf.Block().Succs[0]
			ret, isRet := tb.Instrs[len(tb.Instrs)-1].(*ssa.Return)
			okVis = isRet && isNilConst(ret.Results[0]) && isNilConst(ret.Results[1])
		}
		gd := callsNamed(pd, "conversion.getDefinition")
		rec := callsNamed(pd, "conversion.processDefinition")
		if okVis {
			for _, ci := range append(gd, rec...) {
				if !instrDominates(ins, ci) {
					okVis = false
				}
			}
		}
		r.Check(okVis && len(gd) == 1 && len(rec) == 1, "R18.4", "processDefinition visited set", c.Pos(pd.Pos()), "visited test → insert → read → recurse", "the visited-set test/insertion does not precede reading the definition and the recursion: include diamonds are generated twice or include cycles never end")
		// order of appends
		var appSub, appOwn ssa.Instruction
		for _, ci := range callsNamed(pd, "append") {
			a := ci.Common().Args
			if strings.Contains(ex(a[1]), "conversion.processDefinition(") {
				appSub = ci
			}
			if strings.Contains(ex(a[1]), "lit:conversion.outDefinition") || strings.Contains(ex(a[1]), "varargs") {
				if !inLoop(ci.Block()) || strings.Contains(ex(a[0]), "phi") {
					if appSub != ci && !strings.Contains(ex(a[1]), "conversion.processDefinition(") {
						if st := typeStr(ci.(*ssa.Call).Type()); st == "[]*conversion.outDefinition" {
							appOwn = ci
						}
					}
				}
			}
		}
		okOrd := appSub != nil && appOwn != nil && orderedBefore(appSub, appOwn)
		r.Check(okOrd, "R18.4", "processDefinition include order", c.Pos(pd.Pos()), "included definitions come before the including one", "the definitions of included files are not placed before the including file's own definition")
		// version override after the include loop
		var vst *ssa.Store
		for _, in := range allInstrs(pd) {
			if st, ok := in.(*ssa.Store); ok && ex(st.Addr) == "arg0" {
				vst = st
			}
		}
		okV := vst != nil && len(rec) == 1 && !reachInstr(vst, rec[0]) && reachInstr(rec[0], vst)
		cond := ""
		if vst != nil {
			for _, iff := range ifsIn(pd) {
				if iff.Block().Succs[0] == vst.Block() {
					cond = ex(iff.Cond)
				}
			}
		}
		okCond := strings.HasSuffix(cond, ".Version != \"\")")
		r.Check(okV, "R18.4", "processDefinition version override order", c.Pos(pd.Pos()), "assigned after the includes were processed", "the dialect version is not assigned after the include loop: an included file's version would override the including file's")
		r.Check(okCond, "R18.4", "processDefinition version presence test", c.Pos(pd.Pos()), "override iff the XML states a version (text != \"\")", "the version override is guarded by `"+cond+"`, not by the presence of a <version> element: an explicit version 0 is treated as absent")
	}

	ruleSkeletons(c, "R18.5", "")

	// R18.6 enum value syntaxes
	r.Rule("R18.6", "enum value syntaxes: the four branches (\"0b\" prefix, \"0x\" prefix, \"**\" power, decimal) parse with bases 2 / 16 / 10,10 / 10 into 64 bits, every parse error is returned, and the prefix is stripped before parsing", 4)
	if pd := c.Fn("pkg/conversion", "processDefinition"); pd != nil {
		type br struct {
			cond  string
			base  []int64
			strip bool
		}
		want := []br{
			{"strings.HasPrefix(", []int64{2}, true},  // 0b
			{"strings.HasPrefix(", []int64{16}, true}, // 0x
			{"strings.Contains(", []int64{10, 10}, false},
			{"", []int64{10}, false},
		}
		_ = want
		pus := callsNamed(pd, "strconv.ParseUint")
		bases := map[string][]int64{}
		for _, ci := range pus {
			call := ci.(*ssa.Call)
			b, _ := constInt(call.Call.Args[1])
			bits, _ := constInt(call.Call.Args[2])
			kind := "decimal"
			// which branch: nearest guarding condition
			for _, iff := range ifsIn(pd) {
				cs := ex(iff.Cond)
				if !edgeMustPass(pd, edge{iff.Block(), iff.Block().Succs[0]}, call.Block()) {
					continue
				}
				switch {
				case strings.HasPrefix(cs, "strings.HasPrefix(") && strings.HasSuffix(cs, ",\"0b\")"):
					kind = "0b"
				case strings.HasPrefix(cs, "strings.HasPrefix(") && strings.HasSuffix(cs, ",\"0x\")"):
					kind = "0x"
				case strings.HasPrefix(cs, "strings.Contains(") && strings.HasSuffix(cs, ",\"**\")"):
					kind = "**"
				}
			}
			// the operands of a power are the two halves of the text around "**", however they were split
			if a0 := ex(call.Call.Args[0]); strings.Contains(a0, ",\"**\"") {
				kind = "**"
			} else if kind == "**" {
				kind = "decimal" // under a `contains "**"` guard but parsing something else
			}
			if bits != 64 {
				kind += "(bits!=64)"
			}
			bases[kind] = append(bases[kind], b)
			okErr := errReturned(pd, call)
			arg := ex(call.Call.Args[0])
			okStrip := true
			if kind == "0b" || kind == "0x" {
				okStrip = strings.HasSuffix(arg, "[2:]")
			}
			r.Check(okErr && okStrip, "R18.6", "processDefinition ParseUint "+kind+" #"+fmt.Sprint(len(bases[kind])), c.Pos(call.Pos()), "error returned, prefix stripped", fmt.Sprintf("parse error returned: %v; prefix stripped: %v", okErr, okStrip))
		}
		exp := map[string]string{"0b": "[2]", "0x": "[16]", "**": "[10 10]", "decimal": "[10]"}
		var ks []string
		for k := range exp {
			ks = append(ks, k)
		}
		sort.Strings(ks)
		for _, k := range ks {
			got := fmt.Sprint(bases[k])
			r.Check(got == exp[k], "R18.6", "enum value syntax "+k, c.Pos(pd.Pos()), "base(s) "+exp[k], "values written as "+k+" are parsed with base(s) "+got+", expected "+exp[k])
		}
		pw := callsNamed(pd, "conversion.uintPow")
		if len(pw) == 0 && c.FnOpt("pkg/conversion", "uintPow") == nil {
			// the helper written out in the `**` branch: a multiplication loop over the two parsed operands (its base
			// case x**0 == 1 is then not decided: constant propagation needs the helper as a function)
			mulLoop := false
			for _, in := range allInstrs(pd) {
				if b, isB := in.(*ssa.BinOp); isB && b.Op == token.MUL && inLoop(b.Block()) && typeStr(b.Type()) == "uint64" {
					mulLoop = true
				}
			}
			r.Check(mulLoop, "R18.6", "enum value power", c.Pos(pd.Pos()), "x**y evaluated by a multiplication loop written out in processDefinition (base case not decided)", "power syntax is not evaluated (no uintPow, no multiplication loop)")
			r.Notes = append(r.Notes, "R18.6: uintPow is written out in processDefinition; x**0 == 1 was not decided")
		} else {
			r.Check(len(pw) == 1, "R18.6", "enum value power", c.Pos(pd.Pos()), "x**y evaluated by uintPow(x, y)", "power syntax is not evaluated with uintPow")
		}
		// base case of the power helper, by conditional constant propagation with the exponent fixed: x**0 == 1
		// (the usual first flag of a bitmask enum is written 2**0). x**1 == x is not decided this way: in the
		// `for ; exp != 0; exp >>= 1` form the loop-head phi merges the initial 1 with the product
		if up := c.FnOpt("pkg/conversion", "uintPow"); up != nil && len(up.Params) == 2 {
			for _, bc := range []struct {
				exp  int64
				want string
			}{{0, "1"}} {
				got := "no return reachable"
				if rv, ok := sccpReturns(up, map[int]int64{1: bc.exp}); ok && len(rv) > 0 {
					got = rv[0].String()
				}
				r.Check(got == bc.want, "R18.6", fmt.Sprintf("uintPow(x, %d)", bc.exp), c.Pos(up.Pos()), "= "+bc.want+" (constant propagation, exponent fixed)",
					fmt.Sprintf("with the exponent fixed to %d the result of uintPow is %s, expected %s: an enum entry written x**%d gets a wrong value", bc.exp, got, bc.want, bc.exp))
			}
		}
	}

	// R18.7 message names
	r.Rule("R18.7", "message names: the XML name of a message is not written into the generated code, the runtime rebuilds it from the struct name in upper case (msgGoToDef) to compute CRC_EXTRA; so processMessage refuses, before building the message, "+
		"every name that is not made of upper-case letters, digits and underscores (anchored pattern over that alphabet, or an un-folded comparison with the upper-cased inversion)", 1)
	pm := c.FnOpt("pkg/conversion", "processMessage")
	if pm == nil {
		pm = c.FnOpt("pkg/conversion", "processDefinition") // processMessage written out in the loop over the messages
	}
	if pm == nil {
		c.Fn("pkg/conversion", "processMessage") // reports the missing anchor
	}
	// the name of a message definition: field Name of conversion.definitionMessage
	isMsgName := func(v ssa.Value) bool {
		u, ok := v.(*ssa.UnOp)
		if !ok || u.Op != token.MUL {
			return false
		}
		fa, ok := u.X.(*ssa.FieldAddr)
		if !ok {
			return false
		}
		f, _ := fieldOfAddr(fa)
		return f != nil && f.Name() == "Name" && fieldStructName(fa) == "conversion.definitionMessage"
	}
	if pm != nil {
		r.Functions[fnQual(pm)] = true
		ok, seen := false, []string{}
		for _, iff := range ifsIn(pm) {
			errSucc := -1
			for i, sb := range iff.Block().Succs {
				if ret, isRet := sb.Instrs[len(sb.Instrs)-1].(*ssa.Return); isRet && len(ret.Results) == 2 && !isNilConst(ret.Results[1]) {
					errSucc = i
				}
			}
			if errSucc < 0 {
				continue
			}
			cs := ex(iff.Cond)
			seen = append(seen, cs)
			// (a) anchored pattern over [A-Z0-9_]
			for _, in := range allInstrs(pm) {
				call, isCall := in.(*ssa.Call)
				if !isCall || !strings.HasPrefix(calleeName(&call.Call), "(regexp.Regexp).") || len(call.Call.Args) < 2 || !isMsgName(call.Call.Args[1]) || !computedFrom(iff.Cond, call, 0, map[ssa.Value]bool{}) {
					continue
				}
				rx := ex(call.Call.Args[0])
				if ld, isLd := call.Call.Args[0].(*ssa.UnOp); isLd && ld.Op == token.MUL {
					if g, isG := ld.X.(*ssa.Global); isG {
						if iv := onceInit(g); iv != nil {
							rx = ex(iv)
						}
					}
				}
				if !strings.HasPrefix(rx, "regexp.MustCompile(") {
					continue
				}
				pat, err := strconv.Unquote(strings.TrimSuffix(strings.TrimPrefix(rx, "regexp.MustCompile("), ")"))
				if err != nil || !upperOnlyPattern(pat) {
					continue
				}
				// the error is on the no-match side
				noMatch := -1
				if b, isB := iff.Cond.(*ssa.BinOp); isB && (b.Op == token.EQL || b.Op == token.NEQ) {
					empty := isNilConst(b.Y) || ex(b.Y) == "\"\"" || ex(b.Y) == "0"
					if _, isLen := b.X.(*ssa.Call); isLen && empty && (b.X == ssa.Value(call) || computedFrom(b.X, call, 0, map[ssa.Value]bool{})) {
						if b.Op == token.EQL {
							noMatch = 0
						} else {
							noMatch = 1
						}
					}
				} else if iff.Cond == ssa.Value(call) {
					noMatch = 1
				} else if inner, neg := stripNot(iff.Cond); neg && inner == ssa.Value(call) {
					noMatch = 0
				}
				if noMatch == errSucc {
					ok = true
				}
			}
			// (b) name compared, un-folded, with the upper-cased inversion
			if b, isB := iff.Cond.(*ssa.BinOp); isB && b.Op == token.NEQ && errSucc == 0 {
				xv, yv := b.X, b.Y
				if isMsgName(yv) {
					xv, yv = yv, xv
				}
				if y := ex(yv); isMsgName(xv) && strings.HasPrefix(y, "strings.ToUpper(") && strings.Contains(y, ex(xv)) {
					ok = true
				}
			}
		}
		r.Check(ok, "R18.7", "processMessage name admission", c.Pos(pm.Pos()), "names outside [A-Z0-9_]+ are refused", "processMessage does not refuse message names with characters outside [A-Z0-9_] (rejections found: "+strings.Join(seen, " ; ")+
			"): a name with lower-case letters is generated into a struct whose run-time name, and so CRC_EXTRA, differs from the definition's")
	}
}

// closuresOf: anonymous functions declared directly in fn.
func closuresOf(c *Ctx, fn *ssa.Function) []*ssa.Function {
	var out []*ssa.Function
	for _, f := range c.AllFns {
		if f.Parent() == fn {
			out = append(out, f)
		}
	}
	return out
}

// appendPhi: the loop-carried phi (in the loop head block) that receives the result of an append.
func appendPhi(app *ssa.Call, head *ssa.BasicBlock) *ssa.Phi {
	if app.Referrers() == nil {
		return nil
	}
	for _, rf := range *app.Referrers() {
		if p, ok := rf.(*ssa.Phi); ok && p.Block() == head {
			return p
		}
	}
	// head may be the block before: search any phi using it
	for _, rf := range *app.Referrers() {
		if p, ok := rf.(*ssa.Phi); ok {
			return p
		}
	}
	return nil
}

// sortedBeforeUse: outside the loop, the first use of the accumulated slice is a sort call that dominates
// every other use.
func sortedBeforeUse(fn *ssa.Function, phi *ssa.Phi, head *ssa.BasicBlock) bool {
	if phi.Referrers() == nil {
		return false
	}
	var sortCall ssa.Instruction
	var others []ssa.Instruction
	for _, rf := range *phi.Referrers() {
		if call, ok := rf.(*ssa.Call); ok {
			n := calleeName(&call.Call)
			if n == "sort.Strings" || n == "sort.Slice" || n == "sort.SliceStable" || n == "slices.Sort" {
				sortCall = call
				continue
			}
			if n == "append" {
				continue // the accumulation itself
			}
		}
		if _, ok := rf.(*ssa.Phi); ok {
			continue
		}
		others = append(others, rf)
	}
	if sortCall == nil {
		return false
	}
	for _, o := range others {
		if !instrDominates(sortCall, o) {
			return false
		}
	}
	return true
}

// templateText returns the constant string passed to template.Parse in the initialiser of a package variable.
func templateText(c *Ctx, varName string) string {
	ini := c.InitFn("pkg/conversion")
	if ini == nil {
		return ""
	}
	for _, in := range allInstrs(ini) {
		st, ok := in.(*ssa.Store)
		if !ok || ex(st.Addr) != "&conversion."+varName {
			continue
		}
		// template.Must((*Template).Parse(template.New(""), <const>))
		var find func(v ssa.Value, d int) string
		find = func(v ssa.Value, d int) string {
			if d > 6 {
				return ""
			}
			switch x := v.(type) {
			case *ssa.Call:
				for _, a := range x.Call.Args {
					if k, ok := a.(*ssa.Const); ok && k.Value != nil && k.Value.Kind() == constant.String && len(constant.StringVal(k.Value)) > 40 {
						return constant.StringVal(k.Value)
					}
				}
				// a repo helper given the template in sections (variadic string constants) that it concatenates
				if f := x.Call.StaticCallee(); f != nil && f.Blocks != nil && strings.HasPrefix(f.Pkg.Pkg.Path(), modPath) {
					for _, a := range x.Call.Args {
						sl, isSl := a.(*ssa.Slice)
						if !isSl {
							continue
						}
						al, isA := sl.X.(*ssa.Alloc)
						if !isA || al.Referrers() == nil {
							continue
						}
						parts := map[int64]string{}
						for _, rf := range *al.Referrers() {
							ia, isIA := rf.(*ssa.IndexAddr)
							if !isIA || ia.Referrers() == nil {
								continue
							}
							idx, okI := constInt(ia.Index)
							for _, rr := range *ia.Referrers() {
								if stt, isSt := rr.(*ssa.Store); isSt && okI {
									if k, ok := stt.Val.(*ssa.Const); ok && k.Value != nil && k.Value.Kind() == constant.String {
										parts[idx] = constant.StringVal(k.Value)
									}
								}
							}
						}
						if len(parts) < 2 {
							continue
						}
						// how the helper joins them: strings.Join(sections, SEP) or a WriteString / += loop (no separator)
						sep, okJoin := "", false
						for _, ci := range callsNamed(f, "strings.Join") {
							if k, ok := ci.Common().Args[1].(*ssa.Const); ok && k.Value != nil && k.Value.Kind() == constant.String {
								sep, okJoin = constant.StringVal(k.Value), true
							}
						}
						if len(callsNamed(f, "(strings.Builder).WriteString", "(bytes.Buffer).WriteString")) > 0 {
							okJoin = true
						}
						if !okJoin {
							continue
						}
						var sb []string
						for i := int64(0); i < int64(len(parts)); i++ {
							sb = append(sb, parts[i])
						}
						return strings.Join(sb, sep)
					}
				}
				for _, a := range x.Call.Args {
					if s := find(a, d+1); s != "" {
						return s
					}
				}
			case *ssa.Extract:
				return find(x.Tuple, d+1)
			}
			return ""
		}
		return find(st.Val, 0)
	}
	return ""
}

// upperOnlyPattern: the regular expression is anchored at both ends and every character it can match is an
// upper-case letter, a digit or an underscore.
func upperOnlyPattern(pat string) bool {
	re, err := syntax.Parse(pat, syntax.Perl)
	if err != nil {
		return false
	}
	re = re.Simplify()
	okRune := func(lo, hi rune) bool {
		for x := lo; x <= hi; x++ {
			if !(x >= 'A' && x <= 'Z' || x >= '0' && x <= '9' || x == '_') {
				return false
			}
			if x-lo > 200 {
				return false
			}
		}
		return true
	}
	var alpha func(n *syntax.Regexp) bool
	alpha = func(n *syntax.Regexp) bool {
		switch n.Op {
		case syntax.OpLiteral:
			if n.Flags&syntax.FoldCase != 0 {
				return false
			}
			for _, x := range n.Rune {
				if !okRune(x, x) {
					return false
				}
			}
			return true
		case syntax.OpCharClass:
			for i := 0; i+1 < len(n.Rune); i += 2 {
				if !okRune(n.Rune[i], n.Rune[i+1]) {
					return false
				}
			}
			return true
		case syntax.OpAnyChar, syntax.OpAnyCharNotNL:
			return false
		case syntax.OpEmptyMatch, syntax.OpBeginText, syntax.OpEndText:
			return true
		case syntax.OpCapture, syntax.OpStar, syntax.OpPlus, syntax.OpQuest, syntax.OpRepeat, syntax.OpConcat, syntax.OpAlternate:
			for _, s := range n.Sub {
				if !alpha(s) {
					return false
				}
			}
			return true
		}
		return false
	}
	if re.Op != syntax.OpConcat || len(re.Sub) < 2 || re.Sub[0].Op != syntax.OpBeginText || re.Sub[len(re.Sub)-1].Op != syntax.OpEndText {
		return false
	}
	if re.Sub[len(re.Sub)-1].Flags&syntax.WasDollar != 0 {
		// `$` without the multi-line flag is end of text: fine
	}
	return alpha(re)
}
