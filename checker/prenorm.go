package main

// Pre-normalisation for the see-through (inline.go): syntactic rewrites that bring calls of helpers that are not on
// the reference tree into the statement forms the inliner expands. All are semantics-preserving:
//
//   for init; COND; post { B }      →  for init; ; post { if !(COND) { break }; B }        (COND calls a helper)
//   go h(a, b) / go x.h(a, b)       →  go func() { h(a, b) }()                             (operands plain)
//   S[ … h(args) … ]                →  tmp := h(args); S[ … tmp … ]
//        for S an assignment / op-assignment / return / expression statement / `if` condition in which the helper
//        call is nested inside an expression, provided everything else in the expression is free of calls
//        (so the evaluation order of side effects is unchanged).
//
// The pass runs before the inlining rounds; the package is re-type-checked afterwards.

import (
	"fmt"
	"go/ast"
	"go/token"
	"go/types"
)

func (in *inliner) preNormalise(cands map[types.Object]*inlCallee) bool {
	did := false
	p := in.p
	isCand := func(ce *ast.CallExpr) bool {
		cd, _ := in.calleeOf(ce, cands)
		return cd != nil
	}
	// nested: candidate calls inside e that are not e itself
	var findNested func(e ast.Expr, top bool) []*ast.CallExpr
	findNested = func(e ast.Expr, top bool) []*ast.CallExpr {
		var out []*ast.CallExpr
		ast.Inspect(e, func(n ast.Node) bool {
			switch x := n.(type) {
			case *ast.FuncLit:
				return false
			case *ast.CallExpr:
				if isCand(x) && !(top && ast.Expr(x) == e) {
					out = append(out, x)
					return false
				}
			}
			return true
		})
		return out
	}
	// otherCalls: calls in e other than the given one (conversions and builtin len/cap are not calls with effects)
	otherCalls := func(e ast.Expr, except *ast.CallExpr) bool {
		found := false
		ast.Inspect(e, func(n ast.Node) bool {
			if ce, ok := n.(*ast.CallExpr); ok && ce != except {
				if tv, ok := p.TypesInfo.Types[ce.Fun]; ok && tv.IsType() {
					return true // conversion
				}
				if id, ok := ce.Fun.(*ast.Ident); ok && (id.Name == "len" || id.Name == "cap") {
					return true
				}
				found = true
			}
			if _, ok := n.(*ast.FuncLit); ok {
				return false
			}
			if u, ok := n.(*ast.UnaryExpr); ok && u.Op == token.ARROW {
				found = true
			}
			return true
		})
		return found
	}
	replaceIn := func(root ast.Node, old *ast.CallExpr, repl ast.Expr) {
		rewriteExprs(root, func(e ast.Expr) ast.Expr {
			if e == ast.Expr(old) {
				return repl
			}
			return e
		})
	}
	newTmp := func() *ast.Ident {
		in.seq++
		return ast.NewIdent(fmt.Sprintf("zzpre%d", in.seq))
	}
	hoistFrom := func(stmt ast.Stmt, exprs []*ast.Expr) []ast.Stmt {
		// exactly one nested candidate call over all expressions, nothing else with effects
		var hit *ast.CallExpr
		n := 0
		for _, ep := range exprs {
			for _, ce := range findNested(*ep, true) {
				hit = ce
				n++
			}
		}
		if n != 1 {
			return nil
		}
		for _, ep := range exprs {
			if otherCalls(*ep, hit) {
				return nil
			}
		}
		if sig, ok := p.TypesInfo.Types[hit].Type.(*types.Tuple); ok && sig.Len() != 1 {
			return nil
		}
		tmp := newTmp()
		def := &ast.AssignStmt{Lhs: []ast.Expr{tmp}, Tok: token.DEFINE, Rhs: []ast.Expr{hit}}
		for _, ep := range exprs {
			if *ep == ast.Expr(hit) {
				*ep = ast.NewIdent(tmp.Name)
			} else {
				replaceIn(*ep, hit, ast.NewIdent(tmp.Name))
			}
		}
		return []ast.Stmt{def, stmt}
	}
	var doList func(list []ast.Stmt) []ast.Stmt
	doList = func(list []ast.Stmt) []ast.Stmt {
		var out []ast.Stmt
		for _, s := range list {
			switch st := s.(type) {
			case *ast.ForStmt:
				if st.Cond != nil && len(findNested(st.Cond, false)) > 0 {
					// a labelled break can be threaded into the helper's body even where that sits inside a select / switch
					in.seq++
					lbl := fmt.Sprintf("zzloop%d", in.seq)
					var negated ast.Expr = &ast.UnaryExpr{Op: token.NOT, X: &ast.ParenExpr{X: st.Cond}}
					if _, isCall := st.Cond.(*ast.CallExpr); isCall {
						negated = &ast.UnaryExpr{Op: token.NOT, X: st.Cond}
					}
					guard := &ast.IfStmt{Cond: negated, Body: &ast.BlockStmt{List: []ast.Stmt{&ast.BranchStmt{Tok: token.BREAK, Label: ast.NewIdent(lbl)}}}}
					if u, isNeg := isNot(st.Cond); isNeg {
						guard.Cond = u
					}
					st.Cond = nil
					st.Body.List = append([]ast.Stmt{guard}, st.Body.List...)
					did = true
					out = append(out, &ast.LabeledStmt{Label: ast.NewIdent(lbl), Stmt: st})
					continue
				}
			case *ast.GoStmt:
				if isCand(st.Call) {
					okArgs := plainOperand(st.Call.Fun)
					for _, a := range st.Call.Args {
						if !plainOperand(a) {
							okArgs = false
						}
					}
					if okArgs {
						inner := &ast.ExprStmt{X: st.Call}
						st.Call = &ast.CallExpr{Fun: &ast.FuncLit{Type: &ast.FuncType{Params: &ast.FieldList{}}, Body: &ast.BlockStmt{List: []ast.Stmt{inner}}}}
						did = true
					}
				}
			case *ast.AssignStmt:
				if len(st.Rhs) == 1 {
					if _, direct := st.Rhs[0].(*ast.CallExpr); direct && isCand(st.Rhs[0].(*ast.CallExpr)) && (st.Tok == token.ASSIGN || st.Tok == token.DEFINE) {
						break // a form the inliner expands itself
					}
					if st.Tok != token.ASSIGN && st.Tok != token.DEFINE {
						// x op= E : treat the call inside E (or E itself) as nested
						if ce, ok := st.Rhs[0].(*ast.CallExpr); ok && isCand(ce) && plainOperand(st.Lhs[0]) {
							tmp := newTmp()
							def := &ast.AssignStmt{Lhs: []ast.Expr{tmp}, Tok: token.DEFINE, Rhs: []ast.Expr{ce}}
							st.Rhs[0] = ast.NewIdent(tmp.Name)
							out = append(out, def, st)
							did = true
							continue
						}
					}
					lhsPlain := true
					for _, l := range st.Lhs {
						if !plainOperand(l) {
							lhsPlain = false
						}
					}
					if lhsPlain {
						if repl := hoistFrom(st, []*ast.Expr{&st.Rhs[0]}); repl != nil {
							out = append(out, repl...)
							did = true
							continue
						}
					}
				}
			case *ast.ReturnStmt:
				if len(st.Results) >= 1 {
					if len(st.Results) == 1 {
						if ce, ok := st.Results[0].(*ast.CallExpr); ok && isCand(ce) {
							break
						}
					}
					var eps []*ast.Expr
					for i := range st.Results {
						eps = append(eps, &st.Results[i])
					}
					// a helper call that is one of several results, or nested in one
					var hit *ast.CallExpr
					n := 0
					for _, ep := range eps {
						if ce, ok := (*ep).(*ast.CallExpr); ok && isCand(ce) {
							hit = ce
							n++
						} else if nn := findNested(*ep, true); len(nn) > 0 {
							hit = nn[0]
							n += len(nn)
						}
					}
					if n == 1 {
						clean := true
						for _, ep := range eps {
							if otherCalls(*ep, hit) {
								clean = false
							}
						}
						if tup, ok := p.TypesInfo.Types[hit].Type.(*types.Tuple); ok && tup.Len() != 1 {
							clean = false
						}
						if clean {
							tmp := newTmp()
							def := &ast.AssignStmt{Lhs: []ast.Expr{tmp}, Tok: token.DEFINE, Rhs: []ast.Expr{hit}}
							for _, ep := range eps {
								if *ep == ast.Expr(hit) {
									*ep = ast.NewIdent(tmp.Name)
								} else {
									replaceIn(*ep, hit, ast.NewIdent(tmp.Name))
								}
							}
							out = append(out, def, st)
							did = true
							continue
						}
					}
				}
			case *ast.ExprStmt:
				if ce, ok := st.X.(*ast.CallExpr); ok && !isCand(ce) {
					// g(f(x)) is handled by the inliner's own argument hoisting; deeper nesting here
					nested := findNested(st.X, true)
					direct := false
					for _, a := range ce.Args {
						if ac, ok := a.(*ast.CallExpr); ok && isCand(ac) {
							direct = true
						}
					}
					if len(nested) == 1 && !direct {
						if repl := hoistFrom(st, []*ast.Expr{&st.X}); repl != nil {
							// hoistFrom refuses when other calls exist; the outer call g is one: allow it explicitly
							out = append(out, repl...)
							did = true
							continue
						}
					}
				}
			case *ast.IfStmt:
				if st.Init == nil {
					cond, _ := isNot(st.Cond)
					for {
						pe, isP := cond.(*ast.ParenExpr)
						if !isP {
							break
						}
						cond = pe.X
					}
					if ce, ok := cond.(*ast.CallExpr); ok && isCand(ce) {
						break
					}
					if repl := hoistFrom(st, []*ast.Expr{&st.Cond}); repl != nil {
						out = append(out, repl...)
						did = true
						continue
					}
				}
			}
			out = append(out, s)
		}
		return out
	}
	for _, f := range p.Syntax {
		for _, d := range f.Decls {
			fd, ok := d.(*ast.FuncDecl)
			if !ok || fd.Body == nil {
				continue
			}
			ast.Inspect(fd.Body, func(m ast.Node) bool {
				switch x := m.(type) {
				case *ast.BlockStmt:
					x.List = doList(x.List)
				case *ast.CaseClause:
					x.Body = doList(x.Body)
				case *ast.CommClause:
					x.Body = doList(x.Body)
				}
				return true
			})
		}
	}
	return did
}

// rewriteExprs applies f to every expression slot reachable from root (one level of replacement per slot).
func rewriteExprs(root ast.Node, f func(ast.Expr) ast.Expr) {
	ast.Inspect(root, func(n ast.Node) bool {
		switch x := n.(type) {
		case *ast.FuncLit:
			return false
		case *ast.BinaryExpr:
			x.X, x.Y = f(x.X), f(x.Y)
		case *ast.UnaryExpr:
			x.X = f(x.X)
		case *ast.ParenExpr:
			x.X = f(x.X)
		case *ast.CallExpr:
			for i := range x.Args {
				x.Args[i] = f(x.Args[i])
			}
		case *ast.IndexExpr:
			x.X, x.Index = f(x.X), f(x.Index)
		case *ast.SliceExpr:
			x.X = f(x.X)
			if x.Low != nil {
				x.Low = f(x.Low)
			}
			if x.High != nil {
				x.High = f(x.High)
			}
			if x.Max != nil {
				x.Max = f(x.Max)
			}
		case *ast.SelectorExpr:
			x.X = f(x.X)
		case *ast.StarExpr:
			x.X = f(x.X)
		case *ast.TypeAssertExpr:
			x.X = f(x.X)
		case *ast.KeyValueExpr:
			x.Value = f(x.Value)
		case *ast.CompositeLit:
			for i := range x.Elts {
				x.Elts[i] = f(x.Elts[i])
			}
		case *ast.AssignStmt:
			for i := range x.Rhs {
				x.Rhs[i] = f(x.Rhs[i])
			}
		case *ast.ReturnStmt:
			for i := range x.Results {
				x.Results[i] = f(x.Results[i])
			}
		case *ast.ExprStmt:
			x.X = f(x.X)
		case *ast.IfStmt:
			x.Cond = f(x.Cond)
			return false // only the condition belongs to this statement's evaluation
		}
		return true
	})
}
