package main

import (
	"fmt"
	"go/token"
	"go/types"
	"sort"
	"strings"

	"golang.org/x/tools/go/ssa"
)

func init() { register("C12", []string{"."}, runC12) }

// closeRoots: functions from which the shutdown is driven.
func closeReach(c *Ctx) map[*ssa.Function]bool {
	reach := map[*ssa.Function]bool{}
	for _, n := range []string{"Node.Close", "Node.run"} {
		if fn := c.Fn("root", n); fn != nil {
			for f := range c.reachableFns(fn) {
				reach[f] = true
			}
		}
	}
	return reach
}

func runC12(c *Ctx) {
	r := c.R
	r.NotDecided = append(r.NotDecided,
		"actual termination of Close under every schedule and the time it takes (a writer blocked in a net write delays Close up to WriteTimeout)",
		"port re-binding after Close, goroutine dumps",
		"behaviour of user-supplied transports (their Close must unblock their Read)")
	m := buildTermModel(c)
	reach := closeReach(c)

	auditBlocking(c, m, reach, "R12.1", true)
	ruleEpilogue(c, m)
	ruleGoroutines(c, m, "R12.3")
	ruleChannelTeardown(c, m, "R12.4")
	ruleFailedInit(c)
	ruleEndpointRelease(c)
	ruleLoopNonBlocking(c, "R12.7")
	ruleTransportHandOn(c, "R12.8")
}

// exception table for bare (non-select) blocking channel operations; one reason each. Keyed by
// function + role of the channel, all facts are re-verified structurally on every run.
//
// auditBlocking implements R12.1 (and is reused as R13.1's "no bare blocking op" part).
func auditBlocking(c *Ctx, m *termModel, reach map[*ssa.Function]bool, rule string, full bool) {
	r := c.R
	r.Rule(rule, "every blocking channel operation of package gomavlib is a select with a receive case on a termination source "+
		"(a chan struct{} field only ever closed by a plain close(), a ctx.Done() whose cancel func is called, or a terminate parameter), "+
		"or is non-blocking (default), or is a structurally verified join/handshake; every termination source is triggered in a function reachable from Node.Close / the node loop; "+
		"no time.Sleep; WaitGroup.Wait only in the node-loop epilogue", 30)
	usedSources := map[*types.Var]string{}
	for _, fn := range rootFns(c) {
		r.Functions[fnQual(fn)] = true
		for _, op := range chanOpsIn(fn) {
			key := fnQual(fn) + " " + op.String()
			pos := c.Pos(op.Instr.Pos())
			switch op.Kind {
			case "select":
				sel := op.Instr.(*ssa.Select)
				for _, s := range sel.States {
					if s.Dir == types.RecvOnly {
						if k, f := m.classify(s.Chan); (k == "term" || k == "ctx") && f != nil {
							usedSources[f] = k
						}
					}
				}
				if !op.Blocking {
					r.OK(rule, key, pos, "non-blocking select (default case)")
					continue
				}
				if ok, src := m.selectHasTerm(sel); ok {
					r.OK(rule, key, pos, "blocking select guarded by termination source "+src)
				} else {
					r.Fail(rule, key, pos, "blocking select without a receive case on any termination source: "+op.String()+" (Close can hang here)")
				}
			case "recv":
				u := op.Instr.(*ssa.UnOp)
				k, f := m.classify(u.X)
				switch {
				case k == "term" || k == "ctx" || k == "termparam":
					if f != nil {
						usedSources[f] = k
					}
					r.OK(rule, key, pos, "waits for the termination source itself")
				case k == "done":
					// join: must be dominated by the trigger of a term field of the same base object
					if joinDominatedByTrigger(m, fn, u) {
						r.OK(rule, key, pos, "join on a done signal, dominated by close() of the termination field of the same object")
					} else {
						r.Fail(rule, key, pos, "bare receive on done signal "+op.Chan+" is not dominated by the close() of a termination field of the same object")
					}
				case isHandshakeChan(u.X):
					r.OK(rule, key, pos, "reader/writer done handshake inside Channel.run (decided by the teardown typestate rule)")
				default:
					r.Fail(rule, key, pos, "bare blocking receive on "+op.Chan+" (no termination case)")
				}
			case "send":
				s := op.Instr.(*ssa.Send)
				if isHandshakeChan(s.Chan) {
					r.OK(rule, key, pos, "worker result hand-over to Channel.run (received on every teardown path: teardown typestate rule)")
				} else {
					r.Fail(rule, key, pos, "bare blocking send on "+op.Chan+" (no termination case)")
				}
			}
		}
		if !full {
			continue
		}
		// blocking library calls
		for _, ci := range callsIn(fn, func(n string, _ *ssa.CallCommon) bool {
			return n == "time.Sleep" || n == "(sync.WaitGroup).Wait"
		}) {
			n := calleeName(ci.Common())
			key := fnQual(fn) + " " + n
			if n == "time.Sleep" {
				r.Fail(rule, key, c.Pos(ci.Pos()), "time.Sleep in package gomavlib: an uninterruptible wait delays Close")
			} else if fnQual(fn) == "root:Node.run" {
				r.OK(rule, key, c.Pos(ci.Pos()), "WaitGroup.Wait in the node-loop epilogue (ordering decided by R12.2)")
			} else {
				r.Fail(rule, key, c.Pos(ci.Pos()), "WaitGroup.Wait outside the node-loop epilogue")
			}
		}
	}
	if !full {
		return
	}
	// every termination source used by a select must be triggered on the close path
	var fs []*types.Var
	for f := range usedSources {
		fs = append(fs, f)
	}
	sort.Slice(fs, func(i, j int) bool { return fieldOwner(c, fs[i]) < fieldOwner(c, fs[j]) })
	for _, f := range fs {
		ok, where := m.triggeredFrom(f, usedSources[f], reach)
		r.Check(ok, rule, "trigger "+fieldOwner(c, f), "-",
			"termination source triggered in "+where+" (reachable from Node.Close / node loop)",
			"termination source "+fieldOwner(c, f)+" is never closed/cancelled in any function reachable from Node.Close or the node loop: selects waiting on it never wake up on Close")
	}
}

// isHandshakeChan: a local (captured) unbuffered channel created in Channel.run and used to hand the
// worker's result back (readerDone / writerDone). Identified structurally: a local chan variable of a
// method of Channel that is captured by a go-launched closure.
func isHandshakeChan(v ssa.Value) bool {
	a := rootAlloc(v)
	if a == nil {
		return false
	}
	if _, ok := a.Type().(*types.Pointer).Elem().Underlying().(*types.Chan); !ok {
		return false
	}
	if a.Referrers() == nil {
		return false
	}
	for _, r := range *a.Referrers() {
		if mc, ok := r.(*ssa.MakeClosure); ok && mc.Referrers() != nil {
			for _, rr := range *mc.Referrers() {
				if _, ok := rr.(*ssa.Go); ok {
					return fnQual(a.Parent()) == "root:Channel.run"
				}
			}
		}
	}
	return false
}

// joinDominatedByTrigger: `<-X.done` is dominated, in the same function, by close(X.T) for a term field T
// of the same base X.
func joinDominatedByTrigger(m *termModel, fn *ssa.Function, recv *ssa.UnOp) bool {
	base := baseOfFieldLoad(recv.X)
	if base == "" {
		return false
	}
	for _, in := range allInstrs(fn) {
		call, ok := in.(*ssa.Call)
		if !ok {
			continue
		}
		b, ok := call.Call.Value.(*ssa.Builtin)
		if !ok || b.Name() != "close" || len(call.Call.Args) != 1 {
			continue
		}
		f := loadedField(call.Call.Args[0])
		if f == nil || !m.termField[f] {
			continue
		}
		if baseOfFieldLoad(call.Call.Args[0]) == base && instrDominates(call, recv) {
			return true
		}
	}
	return false
}

func baseOfFieldLoad(v ssa.Value) string {
	u, ok := v.(*ssa.UnOp)
	if !ok || u.Op != token.MUL {
		return ""
	}
	fa, ok := u.X.(*ssa.FieldAddr)
	if !ok {
		return ""
	}
	return strings.TrimPrefix(ex(fa.X), "&")
}

// R12.2 node-loop epilogue order.
func ruleEpilogue(c *Ctx, m *termModel) {
	r := c.R
	rule := "R12.2"
	r.Rule(rule, "Node.run: the epilogue is reachable only through the terminate case of the loop select; heartbeat/stream-request close, "+
		"close of every provider and of every channel all happen before wg.Wait, which happens before the single close(chEvent); close(n.done) is deferred; "+
		"Node.Close closes terminate (single site) and then joins on done", 9)
	run := c.Fn("root", "Node.run")
	cl := c.Fn("root", "Node.Close")
	if run == nil || cl == nil {
		return
	}
	find := func(name string) []ssa.CallInstruction { return callsNamed(run, name) }
	wait := find("(sync.WaitGroup).Wait")
	if len(wait) != 1 {
		r.Fail(rule, "Node.run wg.Wait", c.Pos(run.Pos()), fmt.Sprintf("expected exactly one WaitGroup.Wait in the node loop function, found %d: Close would return while provider/channel goroutines are still running", len(wait)))
		return
	}
	w := wait[0]
	r.OK(rule, "Node.run wg.Wait", c.Pos(w.Pos()), "single WaitGroup.Wait on "+ex(w.Common().Args[0]))
	// the loop select
	loopSel := widestLoopSelect(run)
	if loopSel == nil {
		r.Fail(rule, "Node.run loop select", c.Pos(run.Pos()), "no blocking select inside a loop found in the node loop function")
		return
	}
	// epilogue only via terminate case
	termIdx := -1
	for i, s := range loopSel.States {
		if k, _ := m.classify(s.Chan); k == "term" && s.Dir == types.RecvOnly {
			termIdx = i
		}
	}
	if termIdx < 0 {
		r.Fail(rule, "Node.run loop select", c.Pos(loopSel.Pos()), "node loop select has no terminate case")
		return
	}
	tb := selectCaseBlock(loopSel, termIdx)
	okExit := tb != nil
	if okExit {
		// every path from entry to wg.Wait passes the edge into the terminate case block
		for _, p := range tb.Preds {
			_ = p
		}
		blocked := map[*ssa.BasicBlock]bool{tb: true}
		okExit = !reachFrom(run.Blocks[0], nil, blocked)[w.Block()]
	}
	r.Check(okExit, rule, "Node.run epilogue entry", c.Pos(loopSel.Pos()),
		"wg.Wait/epilogue reachable only through the terminate case of the loop select",
		"the epilogue (wg.Wait) is reachable without passing the terminate case of the loop select")
	// closers before wait
	type closer struct{ name, what string }
	for _, cs := range []closer{
		{"(gomavlib.nodeHeartbeat).close", "heartbeat module"},
		{"(gomavlib.nodeStreamRequest).close", "stream-request module"},
		{"(gomavlib.channelProvider).close", "every channel provider"},
		{"(gomavlib.Channel).close", "every channel"},
	} {
		calls := find(cs.name)
		key := "Node.run " + cs.name + " before wg.Wait"
		if len(calls) == 0 && (strings.Contains(cs.name, "nodeHeartbeat") || strings.Contains(cs.name, "nodeStreamRequest")) {
			// the module's close() written out in the epilogue: close(x.terminate) followed by <-x.done
			mod := "recv." + strings.TrimSuffix(strings.TrimPrefix(cs.name, "(gomavlib."), ").close")
			for _, ci := range callsNamed(run, "close") {
				if ex(ci.Common().Args[0]) != mod+".terminate" {
					continue
				}
				for _, in := range allInstrs(run) {
					if u, isU := in.(*ssa.UnOp); isU && u.Op == token.ARROW && ex(u.X) == mod+".done" && reachInstr(ci, u) && orderedBefore(u, w) {
						calls = append(calls, ci)
					}
				}
			}
		}
		if len(calls) == 0 {
			r.Fail(rule, key, c.Pos(w.Pos()), "the node-loop epilogue never closes "+cs.what+" before waiting: its goroutines are never told to stop")
			continue
		}
		ok := false
		for _, call := range calls {
			if orderedBefore(call, w) && !reachInstr(call, loopSel) {
				ok = true
			}
		}
		r.Check(ok, rule, key, c.Pos(calls[0].Pos()),
			"closed in the epilogue, before wg.Wait, never after it",
			cs.what+" is not closed strictly before wg.Wait in the epilogue")
		// loops must range over the right collection
		if strings.Contains(cs.name, "channelProvider") || strings.Contains(cs.name, "Channel)") {
			arg := ex(calls[0].Common().Args[0])
			want := "next(range(recv.channelProviders))#1"
			if strings.Contains(cs.name, "Channel)") {
				want = "next(range(recv.channels))#1"
			}
			r.Check(arg == want, rule, key+" (range)", c.Pos(calls[0].Pos()),
				"applied to every element: "+arg, "close is applied to "+arg+", expected every element of the collection ("+want+")")
		}
	}
	// close(chEvent) after wait, single site in package
	evField := c.Field("root", "Node", "chEvent")
	if evField != nil {
		sites := m.closeSite[evField]
		if len(sites) != 1 {
			r.Fail(rule, "close(chEvent) sites", "-", fmt.Sprintf("expected exactly one close site of the event channel, found %d (double close panics / no close leaves range over Events() hanging)", len(sites)))
		} else {
			s := sites[0]
			_, isDefer := s.(*ssa.Defer)
			ok := s.Parent() == run && !isDefer && instrDominates(w, s)
			r.Check(ok, rule, "close(chEvent) after wg.Wait", c.Pos(s.Pos()),
				"event channel closed once, after every emitting goroutine has been joined",
				"the event channel is closed before the goroutines that send on it are joined (send on closed channel) or outside the node loop")
		}
	}
	// close(done) deferred in run
	doneF := c.Field("root", "Node", "done")
	termF := c.Field("root", "Node", "terminate")
	if doneF != nil {
		ok := false
		for _, d := range deferredCalls(run) {
			if b, isB := d.Call.Value.(*ssa.Builtin); isB && b.Name() == "close" && loadedField(d.Call.Args[0]) == doneF && d.Block() == run.Blocks[0] {
				ok = true
			}
		}
		r.Check(ok, rule, "Node.run defer close(done)", c.Pos(run.Pos()), "done closed by a defer registered in the entry block", "Node.run does not defer close(n.done) at entry: Close would never return (or return before the loop ended)")
	}
	if termF != nil && doneF != nil {
		sites := m.closeSite[termF]
		ok := len(sites) == 1 && sites[0].Parent() == cl
		var recvDone ssa.Instruction
		for _, op := range chanOpsIn(cl) {
			if op.Kind == "recv" && loadedField(op.Instr.(*ssa.UnOp).X) == doneF {
				recvDone = op.Instr
			}
		}
		ok = ok && recvDone != nil && instrDominates(sites[0], recvDone)
		r.Check(ok, rule, "Node.Close close(terminate); <-done", c.Pos(cl.Pos()),
			"Close closes terminate (the only close site) and then waits for the loop to finish",
			"Node.Close must close(terminate) exactly once (single site in the package) and then receive from done")
	}
}

// goroutine inventory (R12.3): every go statement must be in the table with a verified join.
func ruleGoroutines(c *Ctx, m *termModel, rule string) {
	r := c.R
	r.Rule(rule, "every go statement of package gomavlib is in the inventory with a verified join: provider/channel goroutines are counted in Node.wg "+
		"(wg.Add dominates the go statement, the goroutine function defers wg.Done in its entry block); module goroutines (heartbeat, stream request) defer close(done) "+
		"and their close() does close(terminate); <-done; reader/writer helpers are joined by Channel.run (R12.4); the node loop is joined through done", 7)
	type entry struct{ launcher, target, join string }
	table := []entry{
		{"root:Node.Initialize", "(gomavlib.nodeHeartbeat).run", "module"},
		{"root:Node.Initialize", "(gomavlib.nodeStreamRequest).run", "module"},
		{"root:Node.Initialize", "(gomavlib.Node).run", "loop"},
		{"root:channelProvider.start", "(gomavlib.channelProvider).run", "wg"},
		{"root:Channel.start", "(gomavlib.Channel).run", "wg"},
		{"root:Node.run", "(gomavlib.Channel).run", "wg"}, // Channel.start written in line in the node loop
		{"root:Channel.run", "closure:root:Channel.run$", "handshake"},
		{"root:Channel.run", "(gomavlib.Channel).runReader", "handshake"},
		{"root:Channel.run", "(gomavlib.Channel).runWriter", "handshake"},
	}
	for _, fn := range rootFns(c) {
		for _, g := range goStmts(fn) {
			tf, tname := goTarget(g)
			key := fnQual(fn) + " go " + tname
			var ent *entry
			for i := range table {
				if table[i].launcher == fnQual(fn) && (table[i].target == tname || (table[i].join == "handshake" && strings.HasPrefix(tname, "closure:root:Channel.run$"))) {
					ent = &table[i]
				}
			}
			if ent == nil {
				r.Fail(rule, key, c.Pos(g.Pos()), "goroutine launch not in the inventory: no join is known for it, Close may return while it is still running")
				continue
			}
			switch ent.join {
			case "wg":
				// wg.Add dominates go; target defers wg.Done in entry block
				okAdd := false
				for _, a := range callsNamed(fn, "(sync.WaitGroup).Add") {
					if wgx := ex(a.Common().Args[0]); instrDominates(a, g) && (strings.HasSuffix(wgx, ".node.wg") || (wgx == "&recv.wg" || wgx == "recv.wg") && strings.HasPrefix(fnLocalName(fn), "Node.")) {
						if k, ok := constInt(a.Common().Args[1]); ok && k == 1 {
							okAdd = true
						}
					}
				}
				okDone := false
				if tf != nil {
					for _, d := range deferredCalls(tf) {
						if calleeName(&d.Call) == "(sync.WaitGroup).Done" && d.Block() == tf.Blocks[0] && strings.HasSuffix(ex(d.Call.Args[0]), ".node.wg") {
							okDone = true
						}
					}
				}
				r.Check(okAdd && okDone, rule, key, c.Pos(g.Pos()), "wg.Add(1) dominates the launch; the goroutine defers wg.Done at entry",
					fmt.Sprintf("goroutine not correctly counted in Node.wg (wg.Add(1) before go: %v, deferred wg.Done at entry of target: %v): Close does not wait for it / waits forever", okAdd, okDone))
			case "module":
				ok := false
				why := "target not resolved"
				if tf != nil {
					ok, why = moduleJoinOK(c, m, tf)
				}
				r.Check(ok, rule, key, c.Pos(g.Pos()), "module goroutine: "+why, "module goroutine join broken: "+why)
			case "loop":
				r.OK(rule, key, c.Pos(g.Pos()), "node loop, joined by Node.Close through done (R12.2)")
			case "handshake":
				r.OK(rule, key, c.Pos(g.Pos()), "per-channel worker, joined by Channel.run (teardown typestate rule)")
			}
		}
	}
}

// moduleJoinOK: run defers close(recv.D) in its entry block; the sibling close() method does
// close(recv.T) then <-recv.D; every blocking select of run has a case on recv.T whose block returns.
func moduleJoinOK(c *Ctx, m *termModel, run *ssa.Function) (bool, string) {
	var doneF *types.Var
	for _, d := range deferredCalls(run) {
		if b, ok := d.Call.Value.(*ssa.Builtin); ok && b.Name() == "close" && d.Block() == run.Blocks[0] {
			if f := loadedField(d.Call.Args[0]); f != nil && ex(d.Call.Args[0]) == "recv."+f.Name() {
				doneF = f
			}
		}
	}
	if doneF == nil {
		return false, "run does not defer close(recv.<done>) at entry"
	}
	// sibling close method
	recvT := run.Signature.Recv().Type()
	var closeFn *ssa.Function
	for _, fn := range rootFns(c) {
		if fn.Name() == "close" && fn.Signature.Recv() != nil && types.Identical(fn.Signature.Recv().Type(), recvT) {
			closeFn = fn
		}
	}
	inline := false
	if closeFn == nil {
		// close() written out where it was called: the epilogue of the node loop
		closeFn, inline = c.FnOpt("root", "Node.run"), true
		if closeFn == nil {
			return false, "no close() method on the module type"
		}
	}
	ownerIs := func(v ssa.Value) bool {
		u, ok := v.(*ssa.UnOp)
		if !ok {
			return false
		}
		return !inline || "*"+fieldStructName(u.X) == typeStr(recvT)
	}
	var termF *types.Var
	var closeCall, join ssa.Instruction
	for _, in := range allInstrs(closeFn) {
		if call, ok := in.(*ssa.Call); ok {
			if b, ok := call.Call.Value.(*ssa.Builtin); ok && b.Name() == "close" {
				if f := loadedField(call.Call.Args[0]); f != nil && m.termField[f] && ownerIs(call.Call.Args[0]) {
					termF, closeCall = f, in
				}
			}
		}
		if u, ok := in.(*ssa.UnOp); ok && u.Op == token.ARROW && loadedField(u.X) == doneF && ownerIs(u.X) {
			join = in
		}
	}
	if termF == nil || join == nil || !instrDominates(closeCall, join) {
		return false, "close() does not do close(terminate) followed by <-done"
	}
	n := 0
	for _, op := range chanOpsIn(run) {
		if op.Kind != "select" || !op.Blocking {
			if op.Kind != "select" {
				return false, "bare channel operation in the module loop: " + op.String()
			}
			continue
		}
		sel := op.Instr.(*ssa.Select)
		found := false
		for i, s := range sel.States {
			if s.Dir == types.RecvOnly && loadedField(s.Chan) == termF {
				cb := selectCaseBlock(sel, i)
				if cb != nil && blockLeadsOnlyToReturn(cb) {
					found = true
				}
			}
		}
		if !found {
			return false, "a blocking select of run() has no case on " + termF.Name() + " that returns"
		}
		n++
	}
	if n == 0 {
		return false, "no blocking select in run()"
	}
	return true, "defers close(" + doneF.Name() + "); close() = close(" + termF.Name() + "); <-" + doneF.Name() + "; every select of run() returns on " + termF.Name()
}

// blockLeadsOnlyToReturn: from b, every path reaches a Return without passing a loop back edge into a select.
func blockLeadsOnlyToReturn(b *ssa.BasicBlock) bool {
	seen := map[*ssa.BasicBlock]bool{}
	var rec func(x *ssa.BasicBlock) bool
	rec = func(x *ssa.BasicBlock) bool {
		if seen[x] {
			return false // cycle
		}
		seen[x] = true
		for _, in := range x.Instrs {
			switch in.(type) {
			case *ssa.Select, *ssa.Send:
				return false
			}
		}
		if len(x.Succs) == 0 {
			_, isRet := x.Instrs[len(x.Instrs)-1].(*ssa.Return)
			return isRet
		}
		for _, s := range x.Succs {
			if !rec(s) {
				return false
			}
		}
		return true
	}
	return rec(b)
}

// R12.4 teardown typestate of Channel.run, by path enumeration.
func ruleChannelTeardown(c *Ctx, m *termModel, rule string) {
	r := c.R
	r.Rule(rule, "Channel.run, on every path from its blocking select to exit: the reader result and the writer result are each received exactly once; "+
		"close(writerTerminate) precedes the writer join; the transport is closed exactly once and, unless the reader result was already received, before the reader join; "+
		"ctxCancel is called; runWriter's loop select has a returning case on its terminate parameter", 4)
	run := c.Fn("root", "Channel.run")
	if run == nil {
		return
	}
	r.Functions[fnQual(run)] = true
	// identify the worker closures and their result channels
	var readerCh, writerCh, wtCh *ssa.Alloc
	for _, g := range goStmts(run) {
		tf, _ := goTarget(g)
		if tf == nil {
			continue
		}
		for _, in := range allInstrs(tf) {
			s, ok := in.(*ssa.Send)
			if !ok {
				continue
			}
			call, ok := s.X.(*ssa.Call)
			if !ok {
				continue
			}
			switch calleeName(&call.Call) {
			case "(gomavlib.Channel).runReader":
				readerCh = rootAlloc(s.Chan)
			case "(gomavlib.Channel).runWriter":
				writerCh = rootAlloc(s.Chan)
				if len(call.Call.Args) >= 2 {
					wtCh = rootAlloc(call.Call.Args[1])
				}
			}
		}
	}
	if readerCh == nil || writerCh == nil || wtCh == nil {
		r.Fail(rule, "Channel.run workers", c.Pos(run.Pos()), "could not find the reader and writer goroutines handing their result back on a local channel (reader/writer/terminate channels)")
		return
	}
	sel := awaitSelect(run)
	if sel == nil {
		r.Fail(rule, "Channel.run select", c.Pos(run.Pos()), "no blocking select in Channel.run")
		return
	}
	nPaths := 0
	bad := map[string]string{}
	writerSelf, readerSelf := true, true
	if rwf := c.FnOpt("root", "Channel.runWriter"); rwf != nil {
		writerSelf = len(selfInitiatedReturns(m, rwf)) > 0
	}
	if rrf := c.FnOpt("root", "Channel.runReader"); rrf != nil {
		readerSelf = len(selfInitiatedReturns(m, rrf)) > 0
	}
	okEnum := enumPaths(sel.Block(), nil, 2000, func(path []*ssa.BasicBlock) {
		last := path[len(path)-1]
		if isPanicBlock(last) {
			return
		}
		// a select case on the result of a worker that never ends on its own cannot fire first
		if t := selectTaken(sel, path); t >= 0 {
			if a := rootAlloc(sel.States[t].Chan); (a == writerCh && !writerSelf) || (a == readerCh && !readerSelf) {
				return
			}
		}
		nPaths++
		var ev []string
		taken := selectTaken(sel, path)
		if taken >= 0 && sel.States[taken].Dir == types.RecvOnly {
			switch rootAlloc(sel.States[taken].Chan) {
			case readerCh:
				ev = append(ev, "recvReader")
			case writerCh:
				ev = append(ev, "recvWriter")
			}
		}
		started := false
		for _, in := range pathInstrs(path) {
			if in == sel {
				started = true
				continue
			}
			if !started {
				continue
			}
			switch x := in.(type) {
			case *ssa.UnOp:
				if x.Op == token.ARROW {
					switch rootAlloc(x.X) {
					case readerCh:
						ev = append(ev, "recvReader")
					case writerCh:
						ev = append(ev, "recvWriter")
					}
				}
			case *ssa.Call:
				n := calleeName(&x.Call)
				switch {
				case n == "close" && rootAlloc(x.Call.Args[0]) == wtCh:
					ev = append(ev, "closeWT")
				case x.Call.IsInvoke() && x.Call.Method.Name() == "Close" && ex(x.Call.Value) == "recv.rwc":
					ev = append(ev, "rwcClose")
				case n == "" && ex(x.Call.Value) == "recv.ctxCancel":
					ev = append(ev, "ctxCancel")
				case n == "(gomavlib.Node).pushEvent":
					ev = append(ev, "pushEvent")
				}
			}
		}
		seq := strings.Join(ev, ",")
		cnt := func(e string) int {
			n := 0
			for _, x := range ev {
				if x == e {
					n++
				}
			}
			return n
		}
		idx := func(e string) int {
			for i, x := range ev {
				if x == e {
					return i
				}
			}
			return -1
		}
		switch {
		case cnt("recvReader") != 1:
			bad[seq] = "reader result received " + fmt.Sprint(cnt("recvReader")) + " times (must be exactly once: the reader goroutine would leak or Channel.run would block forever)"
		case cnt("recvWriter") != 1:
			bad[seq] = "writer result received " + fmt.Sprint(cnt("recvWriter")) + " times (must be exactly once)"
		case cnt("closeWT") != 1 || idx("closeWT") > idx("recvWriter"):
			bad[seq] = "close(writerTerminate) must happen exactly once and before the writer join"
		case cnt("rwcClose") != 1:
			bad[seq] = "transport closed " + fmt.Sprint(cnt("rwcClose")) + " times on this path (must be exactly once)"
		case idx("rwcClose") > idx("recvReader") && idx("recvReader") != 0:
			bad[seq] = "the reader join is awaited before the transport is closed: the reader stays blocked in Read"
		case idx("recvReader") == 0 && idx("rwcClose") > idx("recvWriter"):
			bad[seq] = "after the reader has failed the writer is joined before the transport is closed: a writer blocked in Write on a stalled transport is released only by Close, so the close event is never pushed, the channel stays registered and a one-channel-at-a-time endpoint never reconnects"
		case cnt("ctxCancel") < 1:
			bad[seq] = "ctxCancel not called on this path (context leak; Channel.write keeps enqueueing)"
		}
	})
	if !okEnum {
		r.Broken(rule, "Channel.run paths", "too many paths to enumerate")
		return
	}
	if len(bad) == 0 {
		r.OK(rule, "Channel.run teardown paths", c.Pos(sel.Pos()), fmt.Sprintf("%d exit paths enumerated, all satisfy the teardown typestate", nPaths))
	}
	var keys []string
	for k := range bad {
		keys = append(keys, k)
	}
	sort.Strings(keys)
	for _, k := range keys {
		r.Fail(rule, "Channel.run teardown paths", c.Pos(sel.Pos()), "path with events ["+k+"]: "+bad[k])
	}
	// select must wait for the reader and have a termination source
	hasReader := false
	for _, s := range sel.States {
		if s.Dir == types.RecvOnly && rootAlloc(s.Chan) == readerCh {
			hasReader = true
		}
	}
	okT, _ := m.selectHasTerm(sel)
	r.Check(hasReader && okT, rule, "Channel.run select cases", c.Pos(sel.Pos()), "waits for the reader result or the channel context",
		"Channel.run's select must have a case receiving the reader result and a termination case")
	// runWriter loop select returns on its terminate param
	rw := c.Fn("root", "Channel.runWriter")
	if rw != nil {
		ok := false
		for _, op := range chanOpsIn(rw) {
			if op.Kind == "select" && op.Blocking {
				s := op.Instr.(*ssa.Select)
				for i, st := range s.States {
					if st.Dir == types.RecvOnly && m.termParam(st.Chan) {
						if cb := selectCaseBlock(s, i); cb != nil && blockLeadsOnlyToReturn(cb) {
							ok = true
						}
					}
				}
			}
		}
		r.Check(ok, rule, "Channel.runWriter terminate case", c.Pos(rw.Pos()), "writer loop returns when its terminate parameter is closed",
			"runWriter's loop select has no returning case on the terminate channel it is given: the writer join in Channel.run never completes")
	}
	// deferred close(done) and wg.Done registered at entry
	okDefer := false
	for _, d := range deferredCalls(run) {
		if b, ok := d.Call.Value.(*ssa.Builtin); ok && b.Name() == "close" && ex(d.Call.Args[0]) == "recv.done" && d.Block() == run.Blocks[0] {
			okDefer = true
		}
	}
	r.Check(okDefer, rule, "Channel.run defer close(done)", c.Pos(run.Pos()), "close(ch.done) deferred at entry", "Channel.run does not defer close(ch.done) at entry: a one-channel-at-a-time provider waits forever")
}

// R12.5 failed initialisation leaves nothing behind.
func ruleFailedInit(c *Ctx) {
	r := c.R
	rule := "R12.5"
	r.Rule(rule, "Node.Initialize: every error return reachable after a channel provider has been registered is preceded by closing the existing providers "+
		"(except returns whose error comes from a callee that can only return nil or errSkip and that are guarded by errors.Is(err, errSkip): infeasible); "+
		"no goroutine is started before the last error return; endpoint initialize() functions have no error return after acquiring a resource without releasing it", 8)
	init := c.Fn("root", "Node.Initialize")
	if init == nil {
		return
	}
	r.Functions[fnQual(init)] = true
	// registration point: MapUpdate on recv.channelProviders
	var reg []ssa.Instruction
	for _, in := range allInstrs(init) {
		if mu, ok := in.(*ssa.MapUpdate); ok && ex(mu.Map) == "recv.channelProviders" {
			reg = append(reg, in)
		}
	}
	if len(reg) == 0 {
		r.Fail(rule, "Node.Initialize provider registration", c.Pos(init.Pos()), "no insertion into n.channelProviders found")
		return
	}
	// closeExisting closure: a closure that ranges recv.channelProviders and calls channelProvider.close
	isCloseExisting := func(in ssa.Instruction) bool {
		// in line: the range over the registered providers whose body closes each of them
		if rg, ok := in.(*ssa.Range); ok && ex(rg.X) == "recv.channelProviders" {
			for _, cc := range callsNamed(init, "(gomavlib.channelProvider).close") {
				if a := cc.Common().Args[0]; strings.HasPrefix(ex(a), "next(range(recv.channelProviders))") && dependsOn(a, rg) {
					return true
				}
			}
			return false
		}
		call, ok := in.(*ssa.Call)
		if !ok {
			return false
		}
		var f *ssa.Function
		if mc, ok := call.Call.Value.(*ssa.MakeClosure); ok {
			f = mc.Fn.(*ssa.Function)
		} else if sf := call.Call.StaticCallee(); sf != nil {
			f = sf
		}
		if f == nil {
			return false
		}
		for _, cc := range callsNamed(f, "(gomavlib.channelProvider).close") {
			if strings.HasPrefix(ex(cc.Common().Args[0]), "next(range(") && strings.Contains(ex(cc.Common().Args[0]), "channelProviders") {
				return true
			}
		}
		return false
	}
	for _, ret := range retInstrs(init) {
		if len(ret.Results) != 1 || isNilConst(ret.Results[0]) {
			continue
		}
		key := "Node.Initialize return " + shortErr(ret.Results[0])
		// reachable from a registration?
		reachable := false
		for _, rg := range reg {
			if reachInstr(rg, ret) {
				reachable = true
			}
		}
		if !reachable {
			r.OK(rule, key, c.Pos(ret.Pos()), "error return before any provider is registered")
			continue
		}
		// is there a path from registration to this return avoiding closeExisting?
		leak := false
		for _, rg := range reg {
			if _, ok := pathExistsAvoiding(rg, func(in ssa.Instruction) bool { return in == ret }, isCloseExisting); ok {
				leak = true
			}
		}
		if !leak {
			r.OK(rule, key, c.Pos(ret.Pos()), "preceded on every path by closing the registered providers")
			continue
		}
		// infeasible-branch exemption: value is result of callee with return set ⊆ {nil, errSkip}, guarded by errors.Is(v, errSkip)
		if call, ok := ret.Results[0].(*ssa.Call); ok {
			if f := call.Call.StaticCallee(); f != nil && f.Blocks != nil {
				rs := returnSet(f, 0)
				only := true
				for k := range rs {
					if k != "nil" && k != "gomavlib.errSkip" {
						only = false
					}
				}
				guarded := false
				for _, i := range ifsIn(init) {
					if cc, ok := i.Cond.(*ssa.Call); ok && calleeName(&cc.Call) == "errors.Is" && cc.Call.Args[0] == ret.Results[0] && ex(cc.Call.Args[1]) == "gomavlib.errSkip" {
						if edgeMustPass(init, edge{i.Block(), i.Block().Succs[1]}, ret.Block()) {
							guarded = true
						}
					}
				}
				if only && guarded {
					r.OK(rule, key, c.Pos(ret.Pos()), fmt.Sprintf("infeasible: %s returns only %v and the return is on the !errors.Is(err, errSkip) edge", funcName(f), keysOf(rs)))
					continue
				}
			}
		}
		r.Fail(rule, key, c.Pos(ret.Pos()), "error return reachable after providers were registered without closing them: listeners / contexts acquired by earlier endpoints leak")
	}
	// no goroutine before the last error return
	for _, in := range allInstrs(init) {
		var name string
		switch x := in.(type) {
		case *ssa.Go:
			_, name = goTarget(x)
			name = "go " + name
		case *ssa.Call:
			if n := calleeName(&x.Call); n == "(gomavlib.channelProvider).start" || n == "(gomavlib.Channel).start" {
				name = n
			}
		}
		if name == "" {
			continue
		}
		bad := false
		for _, ret := range retInstrs(init) {
			if len(ret.Results) == 1 && !isNilConst(ret.Results[0]) && reachInstr(in, ret) {
				bad = true
			}
		}
		r.Check(!bad, rule, "Node.Initialize "+name, c.Pos(in.Pos()), "started only after the last error return", "a goroutine is started before an error return of Initialize: a failed initialisation leaves it running")
	}
	// endpoint initialize(): no error return after an acquisition without release
	acq := map[string]bool{"net.Listen": true, "udp.Listen": true, "net.ListenPacket": true, "context.WithCancel": true}
	for _, fn := range rootFns(c) {
		if fn.Name() != "initialize" || fn.Signature.Recv() == nil {
			continue
		}
		if !strings.HasPrefix(fnLocalName(fn), "endpoint") {
			continue
		}
		bad := ""
		for _, a := range callsIn(fn, func(n string, _ *ssa.CallCommon) bool { return acq[n] }) {
			call, ok := a.(*ssa.Call)
			if !ok {
				continue
			}
			for _, ret := range retInstrs(fn) {
				if len(ret.Results) != 1 || isNilConst(ret.Results[0]) {
					continue
				}
				// the error return of the acquisition itself is fine
				if e, ok := ret.Results[0].(*ssa.Extract); ok && e.Tuple == call {
					continue
				}
				if p, ok := ret.Results[0].(*ssa.Phi); ok {
					_ = p
				}
				if reachInstr(a, ret) && !returnsOwnError(ret, call) {
					bad = calleeName(a.Common()) + " then error return at " + c.Pos(ret.Pos())
				}
			}
		}
		r.Check(bad == "", rule, fnLocalName(fn)+" acquisitions", c.Pos(fn.Pos()), "no error return after a successful resource acquisition", "resource leak on failed endpoint initialisation: "+bad)
	}
}

// returnsOwnError: the returned error is (directly or through a phi/store of the same variable) the error
// result of that very acquisition call, i.e. the acquisition itself failed.
func returnsOwnError(ret *ssa.Return, call *ssa.Call) bool {
	ev := errValueOf(call)
	if ev == nil {
		return false
	}
	// the acquisition's own error, possibly wrapped with context …
	if errDerivedFrom(ret.Results[0], ev, 0) {
		return true
	}
	// … or any error returned on the edge where the acquisition failed (nothing was acquired)
	fn := call.Parent()
	if iff, nonNil, _ := nilGuard(fn, ev); iff != nil && nonNil != nil && edgeMustPass(fn, edge{iff.Block(), nonNil}, ret.Block()) {
		return true
	}
	return false
}

func shortErr(v ssa.Value) string {
	s := ex(v)
	if len(s) > 70 {
		s = s[:70] + "…"
	}
	return s
}

func keysOf(m map[string]bool) []string {
	var out []string
	for k := range m {
		out = append(out, k)
	}
	sort.Strings(out)
	return out
}

// R12.6 sibling rule over the Endpoint implementations: what initialize() acquires, close() releases.
func ruleEndpointRelease(c *Ctx) {
	r := c.R
	rule := "R12.6"
	r.Rule(rule, "for every Endpoint implementation, each receiver field assigned in initialize() from a resource constructor (net.Listen, udp.Listen, net.ListenPacket, "+
		"context.WithCancel cancel func, the user's ReadWriteCloser) is released in close(); channelProvider.close closes its terminate and the endpoint; "+
		"a never-started channel closes its transport; the custom transport's real Close has exactly one call site (endpointCustom.close) and the per-channel wrapper's Close does not forward", 9)
	acq := map[string]bool{"net.Listen": true, "udp.Listen": true, "net.ListenPacket": true, "context.WithCancel": true}
	nImpl := 0
	for _, fn := range rootFns(c) {
		if fn.Name() != "initialize" || fn.Signature.Recv() == nil || !strings.HasPrefix(fnLocalName(fn), "endpoint") {
			continue
		}
		tname := strings.TrimSuffix(fnLocalName(fn), ".initialize")
		closeFn := c.FnOpt("root", tname+".close")
		if closeFn == nil {
			r.Fail(rule, tname+".close", c.Pos(fn.Pos()), "endpoint type without close()")
			continue
		}
		nImpl++
		r.Functions[fnQual(fn)] = true
		r.Functions[fnQual(closeFn)] = true
		for _, in := range allInstrs(fn) {
			st, ok := in.(*ssa.Store)
			if !ok {
				continue
			}
			f, base := fieldOfAddr(st.Addr)
			if f == nil || ex(base) != "recv" {
				continue
			}
			src := ""
			v := peel(st.Val)
			if e, ok := v.(*ssa.Extract); ok {
				if call, ok := e.Tuple.(*ssa.Call); ok && acq[calleeName(&call.Call)] {
					n := calleeName(&call.Call)
					if n == "context.WithCancel" && e.Index == 0 {
						continue // the context itself; its cancel func is the resource
					}
					src = n
				}
			}
			if strings.HasSuffix(ex(st.Val), ".ReadWriteCloser") {
				src = "user ReadWriteCloser"
			}
			if src == "" {
				continue
			}
			released := false
			for _, ci := range callsIn(closeFn, func(string, *ssa.CallCommon) bool { return true }) {
				cc := ci.Common()
				if cc.IsInvoke() && cc.Method.Name() == "Close" && ex(cc.Value) == "recv."+f.Name() {
					released = true
				}
				if !cc.IsInvoke() && cc.StaticCallee() == nil && ex(cc.Value) == "recv."+f.Name() {
					released = true
				}
			}
			r.Check(released, rule, tname+"."+f.Name(), c.Pos(st.Pos()), "acquired from "+src+" in initialize(), released in close()",
				"field "+f.Name()+" acquired from "+src+" in initialize() is not released in "+tname+".close(): listener / socket / context leaks after Close")
		}
	}
	if nImpl < 5 {
		r.Broken(rule, "endpoint implementations", fmt.Sprintf("found %d endpoint initialize/close pairs, expected 5", nImpl))
	}
	// channelProvider.close
	if cp := c.Fn("root", "channelProvider.close"); cp != nil {
		okT, okE := false, false
		for _, ci := range callsIn(cp, func(string, *ssa.CallCommon) bool { return true }) {
			cc := ci.Common()
			if calleeName(cc) == "close" && ex(cc.Args[0]) == "recv.terminate" {
				okT = true
			}
			if cc.IsInvoke() && cc.Method.Name() == "close" && ex(cc.Value) == "recv.endpoint" {
				okE = true
			}
		}
		r.Check(okT && okE, rule, "channelProvider.close", c.Pos(cp.Pos()), "closes its terminate channel and the endpoint", "channelProvider.close must close(terminate) and call endpoint.close()")
	}
	// never-started channel closes its transport
	if cc := c.Fn("root", "Channel.close"); cc != nil {
		okCancel, okClose := false, false
		for _, ci := range callsIn(cc, func(string, *ssa.CallCommon) bool { return true }) {
			cm := ci.Common()
			if !cm.IsInvoke() && cm.StaticCallee() == nil && ex(cm.Value) == "recv.ctxCancel" {
				okCancel = true
			}
			if cm.IsInvoke() && cm.Method.Name() == "Close" && ex(cm.Value) == "recv.rwc" {
				// must be on the !running edge
				for _, i := range ifsIn(cc) {
					if ex(i.Cond) == "recv.running" && edgeMustPass(cc, edge{i.Block(), i.Block().Succs[1]}, ci.Block()) {
						okClose = true
					}
				}
			}
		}
		r.Check(okCancel && okClose, rule, "Channel.close", c.Pos(cc.Pos()), "cancels the context; closes the transport exactly when the channel was never started",
			"Channel.close must cancel the context and close the transport only when the channel is not running (otherwise double close or leaked connection)")
	}
	// custom transport: wrapper Close does not forward; single real Close site
	if rc := c.Fn("root", "removeCloser.Close"); rc != nil {
		n := len(callsIn(rc, func(n string, cc *ssa.CallCommon) bool { return cc.IsInvoke() && cc.Method.Name() == "Close" }))
		r.Check(n == 0, rule, "removeCloser.Close", c.Pos(rc.Pos()), "per-channel wrapper does not close the user's transport", "removeCloser.Close forwards Close to the user's transport: it would be closed once per channel teardown and again by the endpoint")
	}
	nSites := 0
	var where []string
	for _, fn := range rootFns(c) {
		for _, ci := range callsIn(fn, func(n string, cc *ssa.CallCommon) bool { return cc.IsInvoke() && cc.Method.Name() == "Close" }) {
			v := ex(ci.Common().Value)
			if strings.HasPrefix(fnLocalName(fn), "endpointCustom") || strings.Contains(v, "ReadWriteCloser") || (strings.HasPrefix(fnLocalName(fn), "removeCloser") && strings.Contains(v, "wrapped")) {
				nSites++
				where = append(where, fnLocalName(fn))
			}
		}
	}
	r.Check(nSites == 1 && where[0] == "endpointCustom.close", rule, "custom transport Close sites", "-", "exactly one call site closes the user's transport: endpointCustom.close",
		fmt.Sprintf("the user's custom transport must be closed at exactly one site (endpointCustom.close); found %v", where))
	// provide() of custom endpoint wraps in removeCloser
	if pv := c.Fn("root", "endpointCustom.provide"); pv != nil {
		ok := false
		for _, ret := range retInstrs(pv) {
			if len(ret.Results) == 3 && strings.HasPrefix(ex(ret.Results[1]), "&lit:gomavlib.removeCloser") {
				ok = true
			}
		}
		r.Check(ok, rule, "endpointCustom.provide", c.Pos(pv.Pos()), "hands the channel a removeCloser wrapper", "endpointCustom.provide must wrap the user's transport in removeCloser (else each channel teardown closes it)")
	}
}

// ruleTransportHandOn (R12.8): a transport an endpoint has just opened is either handed on or closed.
// In every provide() / connect() method of the endpoint types, for each call that yields a closable value together
// with an error (connect(), net.Dial…, serialOpenFunc, Accept), every return reachable on the call's success edge
// either returns that value (possibly wrapped: timednetconn.New(conn), &removeCloser{conn}) or is preceded by a Close
// of it. A return of (nil, errTerminated) after a successful open leaks the connection / keeps the port busy.
func ruleTransportHandOn(c *Ctx, rule string) {
	r := c.R
	r.Rule(rule, "an opened transport is handed on or closed: in the endpoints' provide() / connect() methods every return reachable after a successful open either returns the opened value (possibly wrapped) or closes it first", 4)
	closable := func(t types.Type) bool {
		ms := types.NewMethodSet(t)
		for i := 0; i < ms.Len(); i++ {
			if ms.At(i).Obj().Name() == "Close" {
				return true
			}
		}
		return false
	}
	var derives func(v, src ssa.Value, d int) bool
	derives = func(v, src ssa.Value, d int) bool {
		if v == src {
			return true
		}
		if d > 5 || v == nil {
			return false
		}
		switch x := v.(type) {
		case *ssa.Phi:
			for _, e := range x.Edges {
				if derives(e, src, d+1) {
					return true
				}
			}
		case *ssa.MakeInterface:
			return derives(x.X, src, d+1)
		case *ssa.ChangeInterface:
			return derives(x.X, src, d+1)
		case *ssa.ChangeType:
			return derives(x.X, src, d+1)
		case *ssa.TypeAssert:
			return derives(x.X, src, d+1)
		case *ssa.Extract:
			return derives(x.Tuple, src, d+1)
		case *ssa.Call:
			for _, a := range argsDeep(&x.Call) {
				if derives(a, src, d+1) {
					return true
				}
			}
		case *ssa.Alloc:
			if x.Comment == "complit" {
				for _, fv := range litFields(x) {
					if derives(fv, src, d+1) {
						return true
					}
				}
			}
		}
		return false
	}
	n := 0
	for _, fn := range rootFns(c) {
		if (fn.Name() != "provide" && fn.Name() != "connect") || fn.Signature.Recv() == nil || !strings.HasPrefix(fnLocalName(fn), "endpoint") {
			continue
		}
		r.Functions[fnQual(fn)] = true
		bad := ""
		nAcq := 0
		for _, in := range allInstrs(fn) {
			call, ok := in.(*ssa.Call)
			if !ok {
				continue
			}
			tup, ok := call.Type().(*types.Tuple)
			if !ok || tup.Len() < 2 || typeStr(tup.At(tup.Len()-1).Type()) != "error" {
				continue
			}
			var val ssa.Value
			if call.Referrers() != nil {
				for _, rf := range *call.Referrers() {
					if e, ok := rf.(*ssa.Extract); ok && closable(e.Type()) {
						val = e
					}
				}
			}
			ev := errValueOf(call)
			if val == nil || ev == nil {
				continue
			}
			nAcq++
			iff, _, isNil := nilGuard(fn, ev)
			if iff == nil || isNil == nil {
				// `return open(…)`: value and error are passed on together
				isNil = call.Block()
			}
			succ := reachFrom(isNil, nil, nil)
			if isNil != call.Block() {
				succ = reachFrom(isNil, nil, map[*ssa.BasicBlock]bool{call.Block(): true})
			}
			for _, ret := range retInstrs(fn) {
				if !succ[ret.Block()] && ret.Block() != isNil {
					continue
				}
				handed := false
				for _, res := range ret.Results {
					if derives(res, val, 0) {
						handed = true
					}
				}
				if handed {
					continue
				}
				// closed on every path from the success edge to this return?
				closed := false
				for _, ci := range callsIn(fn, func(_ string, cc *ssa.CallCommon) bool {
					return cc.IsInvoke() && cc.Method.Name() == "Close" && derives(cc.Value, val, 0)
				}) {
					if _, leak := pathExistsAvoiding(startInstr(isNil, call), func(x ssa.Instruction) bool { return x == ssa.Instruction(ret) }, func(x ssa.Instruction) bool { return x == ci.(ssa.Instruction) }); !leak {
						closed = true
					}
				}
				if !closed {
					bad = fmt.Sprintf("after %s succeeded (%s) the return at %s neither hands the opened transport on nor closes it: the connection / port stays open although the endpoint reports termination or failure",
						calleeName(&call.Call), c.Pos(call.Pos()), c.Pos(ret.Pos()))
				}
			}
		}
		if nAcq == 0 {
			continue
		}
		n++
		r.Check(bad == "", rule, fnLocalName(fn)+" opened transport", c.Pos(fn.Pos()), fmt.Sprintf("%d open sites: every success path hands the transport on or closes it", nAcq), bad)
	}
	if n == 0 {
		r.Broken(rule, "open sites", "no provide()/connect() method opening a transport found")
	}
}

// startInstr: the instruction from which the success region of call starts: the first instruction of the success
// block, or the call itself when its error is not tested in this function.
func startInstr(b *ssa.BasicBlock, call *ssa.Call) ssa.Instruction {
	if b == call.Block() {
		return call
	}
	return b.Instrs[0]
}
