package main

import (
	"fmt"
	"go/constant"
	"go/token"
	"go/types"
	"sort"
	"strings"

	"golang.org/x/tools/go/ssa"
)

// ---------------------------------------------------------------------------------------------
// Provenance rendering: a canonical, spelling-independent access-path expression for an SSA value.
// Local variable names vanish (SSA registers); fields, callees, constants are resolved objects.
// ---------------------------------------------------------------------------------------------

func shortQual(p *types.Package) string {
	if p == nil {
		return ""
	}
	return p.Name()
}

func typeStr(t types.Type) string { return types.TypeString(t, shortQual) }

type exState struct {
	depth int
	seen  map[ssa.Value]bool
}

// ex renders v.
func ex(v ssa.Value) string {
	st := &exState{seen: map[ssa.Value]bool{}}
	return st.ex(v)
}

// spilledValue: for an Alloc that only ever receives one Store of a whole value and is otherwise
// only read (loads, field-address reads), return the stored value (value receivers / by-value params
// are spilled like this by go/ssa).
func spilledValue(a *ssa.Alloc) ssa.Value {
	if a.Referrers() == nil {
		return nil
	}
	var stored ssa.Value
	n := 0
	hasClosure := false
	for _, r := range *a.Referrers() {
		switch r := r.(type) {
		case *ssa.Store:
			if r.Addr == a {
				n++
				stored = r.Val
			} else {
				return nil // address escapes into memory
			}
		case *ssa.UnOp, *ssa.DebugRef:
		case *ssa.FieldAddr:
			if !addrOnlyRead(r) {
				return nil
			}
		case *ssa.IndexAddr, *ssa.Slice:
		case *ssa.MakeClosure:
			hasClosure = true
			fn := r.Fn.(*ssa.Function)
			for i, b := range r.Bindings {
				if b == a && !freeVarOnlyLoaded(fn, i, 0) {
					return nil
				}
			}
		default:
			return nil
		}
	}
	if n != 1 {
		return nil
	}
	if hasClosure {
		// a captured variable keeps its identity unless it is just the spill of a parameter
		if _, ok := stored.(*ssa.Parameter); !ok {
			return nil
		}
	}
	return stored
}

func addrOnlyRead(v ssa.Value) bool {
	if v.Referrers() == nil {
		return true
	}
	for _, rr := range *v.Referrers() {
		switch rr := rr.(type) {
		case *ssa.UnOp:
			if rr.Op != token.MUL {
				return false
			}
		case *ssa.DebugRef:
		case *ssa.FieldAddr:
			if !addrOnlyRead(rr) {
				return false
			}
		case *ssa.IndexAddr:
			if !addrOnlyRead(rr) {
				return false
			}
		case *ssa.Slice:
		default:
			return false
		}
	}
	return true
}

func freeVarOnlyLoaded(fn *ssa.Function, idx int, depth int) bool {
	if depth > 4 || idx >= len(fn.FreeVars) {
		return false
	}
	fv := fn.FreeVars[idx]
	if fv.Referrers() == nil {
		return true
	}
	for _, r := range *fv.Referrers() {
		switch r := r.(type) {
		case *ssa.UnOp:
			if r.Op != token.MUL {
				return false
			}
		case *ssa.DebugRef:
		case *ssa.FieldAddr:
			if !addrOnlyRead(r) {
				return false
			}
		case *ssa.MakeClosure:
			g := r.Fn.(*ssa.Function)
			for i, b := range r.Bindings {
				if b == fv && !freeVarOnlyLoaded(g, i, depth+1) {
					return false
				}
			}
		default:
			return false
		}
	}
	return true
}

// rootAlloc follows loads / free variables to the local variable cell (Alloc) a value is read from.
func rootAlloc(v ssa.Value) *ssa.Alloc {
	for i := 0; i < 10; i++ {
		switch x := v.(type) {
		case *ssa.Alloc:
			return x
		case *ssa.UnOp:
			if x.Op != token.MUL {
				return nil
			}
			v = x.X
		case *ssa.ChangeType:
			v = x.X // chan T → chan<- T / <-chan T when a channel is handed to a helper
		case *ssa.FreeVar:
			fn := x.Parent()
			idx := -1
			for i, fv := range fn.FreeVars {
				if fv == x {
					idx = i
				}
			}
			par := fn.Parent()
			if par == nil || idx < 0 {
				return nil
			}
			var next ssa.Value
			for _, b := range par.Blocks {
				for _, in := range b.Instrs {
					if mc, ok := in.(*ssa.MakeClosure); ok && mc.Fn == fn && idx < len(mc.Bindings) {
						next = mc.Bindings[idx]
					}
				}
			}
			if next == nil {
				return nil
			}
			v = next
		default:
			return nil
		}
	}
	return nil
}

func (s *exState) ex(v ssa.Value) string {
	if v == nil {
		return "_"
	}
	s.depth++
	defer func() { s.depth-- }()
	if s.depth > 24 {
		return "…"
	}
	switch v := v.(type) {
	case *ssa.Parameter:
		fn := v.Parent()
		// parameter of an immediately-invoked function literal: the actual argument, rendered in the caller
		if par := fn.Parent(); par != nil && fn.Signature.Recv() == nil {
			var site *ssa.CallCommon
			n := 0
			for _, b := range par.Blocks {
				for _, in := range b.Instrs {
					if ci, ok := in.(ssa.CallInstruction); ok {
						if mc, ok := ci.Common().Value.(*ssa.MakeClosure); ok && mc.Fn == fn {
							site = ci.Common()
							n++
						} else if sf, ok := ci.Common().Value.(*ssa.Function); ok && sf == fn {
							site = ci.Common()
							n++
						}
					}
				}
			}
			if n == 1 {
				for i, p := range fn.Params {
					if p == v && i < len(site.Args) {
						return s.ex(site.Args[i])
					}
				}
			}
		}
		for i, p := range fn.Params {
			if p == v {
				if fn.Signature.Recv() != nil {
					if i == 0 {
						return "recv"
					}
					return fmt.Sprintf("arg%d", i-1)
				}
				return fmt.Sprintf("arg%d", i)
			}
		}
		return "param:" + v.Name()
	case *ssa.FreeVar:
		// resolve through the (unique) MakeClosure binding when it is a parent's value
		fn := v.Parent()
		idx := -1
		for i, fv := range fn.FreeVars {
			if fv == v {
				idx = i
			}
		}
		if par := fn.Parent(); par != nil && idx >= 0 {
			for _, b := range par.Blocks {
				for _, in := range b.Instrs {
					if mc, ok := in.(*ssa.MakeClosure); ok && mc.Fn == fn && idx < len(mc.Bindings) {
						return "^" + s.ex(mc.Bindings[idx])
					}
				}
			}
		}
		return "free:" + v.Name()
	case *ssa.Const:
		if v.Value == nil {
			return "nil"
		}
		if v.Value.Kind() == constant.String {
			return fmt.Sprintf("%q", constant.StringVal(v.Value))
		}
		return v.Value.ExactString()
	case *ssa.Global:
		return "&" + shortQual(v.Pkg.Pkg) + "." + v.Name()
	case *ssa.Function:
		return "func:" + fnQual(v)
	case *ssa.Builtin:
		return v.Name()
	case *ssa.Alloc:
		if sv := spilledValue(v); sv != nil {
			return "&" + s.ex(sv)
		}
		if v.Comment == "complit" {
			return "&lit:" + typeStr(v.Type().(*types.Pointer).Elem())
		}
		if v.Comment != "" {
			return "&local:" + v.Comment
		}
		return "&new:" + typeStr(v.Type().(*types.Pointer).Elem())
	case *ssa.FieldAddr:
		st := v.X.Type().Underlying().(*types.Pointer).Elem().Underlying().(*types.Struct)
		base := s.ex(v.X)
		if strings.HasPrefix(base, "&") {
			base = base[1:]
		} else if strings.HasPrefix(base, "^&") {
			base = base[2:]
		}
		return "&" + base + "." + st.Field(v.Field).Name()
	case *ssa.Field:
		st := v.X.Type().Underlying().(*types.Struct)
		return s.ex(v.X) + "." + st.Field(v.Field).Name()
	case *ssa.UnOp:
		if g, ok := v.X.(*ssa.Global); ok && v.Op == token.MUL {
			if iv := newGlobalInit(g); iv != nil {
				return s.ex(iv)
			}
		}
		if fa, ok := v.X.(*ssa.FieldAddr); ok && v.Op == token.MUL {
			if sv := localLitField(fa); sv != nil {
				return s.ex(sv)
			}
			if sv := newFieldInit(fa); sv != nil {
				return s.ex(sv)
			}
		}
		x := s.ex(v.X)
		switch v.Op {
		case token.MUL:
			if strings.HasPrefix(x, "&") {
				return x[1:]
			}
			if strings.HasPrefix(x, "^&") {
				return x[2:]
			}
			return "*" + x
		case token.ARROW:
			if v.CommaOk {
				return "<-?" + x
			}
			return "<-" + x
		default:
			return v.Op.String() + x
		}
	case *ssa.BinOp:
		return "(" + s.ex(v.X) + " " + v.Op.String() + " " + s.ex(v.Y) + ")"
	case *ssa.Call:
		return s.call(&v.Call)
	case *ssa.Convert:
		return typeStr(v.Type()) + "(" + s.ex(v.X) + ")"
	case *ssa.ChangeType:
		// chan T handed on as <-chan T / chan<- T is the same channel
		if _, isCh := v.Type().Underlying().(*types.Chan); isCh {
			return s.ex(v.X)
		}
		return typeStr(v.Type()) + "(" + s.ex(v.X) + ")"
	case *ssa.ChangeInterface:
		return s.ex(v.X)
	case *ssa.MakeInterface:
		return s.ex(v.X)
	case *ssa.SliceToArrayPointer:
		return typeStr(v.Type()) + "(" + s.ex(v.X) + ")"
	case *ssa.Phi:
		if tv := threadedValue(v); tv != nil {
			return s.ex(tv)
		}
		if s.seen[v] {
			return "phi@" + v.Name()
		}
		s.seen[v] = true
		defer delete(s.seen, v)
		var parts []string
		m := map[string]bool{}
		for _, e := range v.Edges {
			t := s.ex(e)
			if !m[t] {
				m[t] = true
				parts = append(parts, t)
			}
		}
		sort.Strings(parts)
		return "phi[" + strings.Join(parts, "|") + "]"
	case *ssa.Extract:
		return s.ex(v.Tuple) + "#" + fmt.Sprint(v.Index)
	case *ssa.TypeAssert:
		if v.CommaOk {
			return s.ex(v.X) + ".(" + typeStr(v.AssertedType) + ")?"
		}
		return s.ex(v.X) + ".(" + typeStr(v.AssertedType) + ")"
	case *ssa.Slice:
		x := s.ex(v.X)
		if strings.HasPrefix(x, "&") {
			x = x[1:]
		}
		f := func(a ssa.Value) string {
			if a == nil {
				return ""
			}
			return s.ex(a)
		}
		r := x + "[" + f(v.Low) + ":" + f(v.High)
		if v.Max != nil {
			r += ":" + f(v.Max)
		}
		return r + "]"
	case *ssa.IndexAddr:
		x := s.ex(v.X)
		if strings.HasPrefix(x, "&") {
			x = x[1:]
		}
		return "&" + x + "[" + s.ex(v.Index) + "]"
	case *ssa.Index:
		return s.ex(v.X) + "[" + s.ex(v.Index) + "]"
	case *ssa.Lookup:
		if v.CommaOk {
			return s.ex(v.X) + "[" + s.ex(v.Index) + "]?"
		}
		return s.ex(v.X) + "[" + s.ex(v.Index) + "]"
	case *ssa.MakeSlice:
		return "make(" + typeStr(v.Type()) + "," + s.ex(v.Len) + "," + s.ex(v.Cap) + ")"
	case *ssa.MakeMap:
		return "makemap(" + typeStr(v.Type()) + ")"
	case *ssa.MakeChan:
		return "makechan(" + typeStr(v.Type()) + "," + s.ex(v.Size) + ")"
	case *ssa.MakeClosure:
		return "closure:" + fnQual(v.Fn.(*ssa.Function))
	case *ssa.Select:
		return "select@" + v.Parent().Name()
	case *ssa.Range:
		return "range(" + s.ex(v.X) + ")"
	case *ssa.Next:
		return "next(" + s.ex(v.Iter) + ")"
	}
	return fmt.Sprintf("?%T", v)
}

func (s *exState) call(c *ssa.CallCommon) string {
	var args []string
	for _, a := range c.Args {
		args = append(args, s.ex(a))
	}
	name := calleeName(c)
	if c.IsInvoke() {
		return name + "(" + strings.Join(append([]string{s.ex(c.Value)}, args...), ",") + ")"
	}
	if name == "" {
		// dynamic call through a function value; immediately-invoked closures are rendered by name
		return "dyn(" + s.ex(c.Value) + ")(" + strings.Join(args, ",") + ")"
	}
	return name + "(" + strings.Join(args, ",") + ")"
}

// calleeName names the resolved callee: "pkg.Func", "(pkg.T).Method", "(pkg.I).Method" for an
// interface invoke, builtin name, or "" when the callee is a dynamic function value.
func calleeName(c *ssa.CallCommon) string {
	if c.IsInvoke() {
		recv := c.Value.Type()
		return "(" + typeStr(recv) + ")." + c.Method.Name()
	}
	switch f := c.Value.(type) {
	case *ssa.Builtin:
		return f.Name()
	case *ssa.Function:
		return funcName(f)
	case *ssa.MakeClosure:
		return "closure:" + fnQual(f.Fn.(*ssa.Function))
	}
	return ""
}

// funcName: "pkg.Func" or "(pkg.T).Method" (pointer-ness of the receiver dropped).
func funcName(f *ssa.Function) string {
	if f.Signature.Recv() != nil {
		t := f.Signature.Recv().Type()
		if pt, ok := t.(*types.Pointer); ok {
			t = pt.Elem()
		}
		return "(" + typeStr(t) + ")." + f.Name()
	}
	if f.Parent() != nil {
		return "closure:" + fnQual(f)
	}
	if f.Pkg != nil {
		return shortQual(f.Pkg.Pkg) + "." + f.Name()
	}
	if f.Object() != nil && f.Object().Pkg() != nil {
		return shortQual(f.Object().Pkg()) + "." + f.Name()
	}
	return f.Name()
}

// ---------------------------------------------------------------------------------------------
// Instruction / CFG helpers
// ---------------------------------------------------------------------------------------------

func allInstrs(fn *ssa.Function) []ssa.Instruction {
	var out []ssa.Instruction
	for _, b := range fn.Blocks {
		out = append(out, b.Instrs...)
	}
	return out
}

func instrIndex(in ssa.Instruction) int {
	for i, x := range in.Block().Instrs {
		if x == in {
			return i
		}
	}
	return -1
}

// instrDominates: a executes before b on every path reaching b.
func instrDominates(a, b ssa.Instruction) bool {
	if a.Block() == b.Block() {
		return instrIndex(a) < instrIndex(b)
	}
	return a.Block().Dominates(b.Block())
}

type edge struct{ from, to *ssa.BasicBlock }

// reachable blocks from start, not traversing cut edges nor entering blocked blocks.
func reachFrom(start *ssa.BasicBlock, cut map[edge]bool, blocked map[*ssa.BasicBlock]bool) map[*ssa.BasicBlock]bool {
	seen := map[*ssa.BasicBlock]bool{}
	if blocked[start] {
		return seen
	}
	var st []*ssa.BasicBlock
	st = append(st, start)
	seen[start] = true
	for len(st) > 0 {
		b := st[len(st)-1]
		st = st[:len(st)-1]
		for _, s := range b.Succs {
			if cut[edge{b, s}] || blocked[s] || seen[s] {
				continue
			}
			seen[s] = true
			st = append(st, s)
		}
	}
	return seen
}

// edgeMustPass: every path from the function entry to target traverses edge e.
func edgeMustPass(fn *ssa.Function, e edge, target *ssa.BasicBlock) bool {
	r := reachFrom(fn.Blocks[0], map[edge]bool{e: true}, nil)
	return !r[target]
}

// callsIn returns the call-like instructions (call, go, defer) of fn whose callee name satisfies pred.
func callsIn(fn *ssa.Function, pred func(name string, c *ssa.CallCommon) bool) []ssa.CallInstruction {
	var out []ssa.CallInstruction
	for _, in := range allInstrs(fn) {
		if ci, ok := in.(ssa.CallInstruction); ok {
			if pred(calleeName(ci.Common()), ci.Common()) {
				out = append(out, ci)
			}
		}
	}
	return out
}

func callsNamed(fn *ssa.Function, names ...string) []ssa.CallInstruction {
	return callsIn(fn, func(n string, _ *ssa.CallCommon) bool {
		for _, x := range names {
			if n == x {
				return true
			}
		}
		return false
	})
}

// callArgs returns receiver+args uniformly (invoke: value first).
func callArgs(c *ssa.CallCommon) []ssa.Value {
	if c.IsInvoke() {
		return append([]ssa.Value{c.Value}, c.Args...)
	}
	return c.Args
}

// storesTo returns the Store instructions of fn whose address renders (via ex) to addr.
func storesTo(fn *ssa.Function, match func(addr string) bool) []*ssa.Store {
	var out []*ssa.Store
	for _, in := range allInstrs(fn) {
		if st, ok := in.(*ssa.Store); ok {
			if match(ex(st.Addr)) {
				out = append(out, st)
			}
		}
	}
	return out
}

// fieldStores: every store in fn into field `f` (resolved field object) of any base.
type fieldStore struct {
	Store *ssa.Store
	Base  string // rendering of the struct base
	Fn    *ssa.Function
}

func fieldOfAddr(addr ssa.Value) (*types.Var, ssa.Value) {
	if fa, ok := addr.(*ssa.FieldAddr); ok {
		st := fa.X.Type().Underlying().(*types.Pointer).Elem().Underlying().(*types.Struct)
		return st.Field(fa.Field), fa.X
	}
	return nil, nil
}

func (c *Ctx) fieldStoresAll(f *types.Var) []fieldStore {
	var out []fieldStore
	for _, fn := range c.AllFns {
		for _, in := range allInstrs(fn) {
			st, ok := in.(*ssa.Store)
			if !ok {
				continue
			}
			if fv, base := fieldOfAddr(st.Addr); fv == f {
				b := ex(base)
				out = append(out, fieldStore{st, strings.TrimPrefix(b, "&"), fn})
			}
		}
	}
	return out
}

// retInstrs returns all Return instructions.
func retInstrs(fn *ssa.Function) []*ssa.Return {
	var out []*ssa.Return
	for _, b := range fn.Blocks {
		if len(b.Instrs) == 0 {
			continue
		}
		if r, ok := b.Instrs[len(b.Instrs)-1].(*ssa.Return); ok {
			out = append(out, r)
		}
	}
	return out
}

func isNilConst(v ssa.Value) bool {
	c, ok := v.(*ssa.Const)
	return ok && c.Value == nil
}

// constInt returns the integer value of a constant SSA value.
func constInt(v ssa.Value) (int64, bool) {
	c, ok := v.(*ssa.Const)
	if !ok || c.Value == nil {
		return 0, false
	}
	if c.Value.Kind() != constant.Int {
		return 0, false
	}
	i, ok := constant.Int64Val(c.Value)
	if !ok {
		u, ok2 := constant.Uint64Val(c.Value)
		return int64(u), ok2
	}
	return i, true
}

// blockIf returns the If terminating b (nil if none).
func blockIf(b *ssa.BasicBlock) *ssa.If {
	if len(b.Instrs) == 0 {
		return nil
	}
	i, _ := b.Instrs[len(b.Instrs)-1].(*ssa.If)
	return i
}

// ifsIn returns all If instructions of fn.
func ifsIn(fn *ssa.Function) []*ssa.If {
	var out []*ssa.If
	for _, b := range fn.Blocks {
		if i := blockIf(b); i != nil {
			out = append(out, i)
		}
	}
	return out
}

// stripNot peels `!x` and returns (x, negated).
func stripNot(v ssa.Value) (ssa.Value, bool) {
	neg := false
	for {
		u, ok := v.(*ssa.UnOp)
		if !ok || u.Op != token.NOT {
			return v, neg
		}
		neg = !neg
		v = u.X
	}
}

// postDominates: every path from a's block to a function exit passes through b (instruction level:
// b after a in same block, or b's block post-dominates a's). Exits: Return and Panic blocks.
func postDominatesInstr(fn *ssa.Function, b, a ssa.Instruction) bool {
	if a.Block() == b.Block() {
		return instrIndex(b) > instrIndex(a)
	}
	// remove b's block: no exit may be reachable from a's block
	blocked := map[*ssa.BasicBlock]bool{b.Block(): true}
	r := reachFrom(a.Block(), nil, blocked)
	for blk := range r {
		if len(blk.Succs) == 0 {
			return false
		}
	}
	return true
}

// pathExistsAvoiding: is there a path from instruction `from` (exclusive) to an instruction
// satisfying `target` that does not pass an instruction satisfying `avoid`?
func pathExistsAvoiding(from ssa.Instruction, target, avoid func(ssa.Instruction) bool) (ssa.Instruction, bool) {
	type item struct {
		b   *ssa.BasicBlock
		idx int
	}
	seen := map[*ssa.BasicBlock]bool{}
	st := []item{{from.Block(), instrIndex(from) + 1}}
	for len(st) > 0 {
		it := st[len(st)-1]
		st = st[:len(st)-1]
		stopped := false
		for i := it.idx; i < len(it.b.Instrs); i++ {
			in := it.b.Instrs[i]
			if avoid != nil && avoid(in) {
				stopped = true
				break
			}
			if target(in) {
				return in, true
			}
		}
		if stopped {
			continue
		}
		for _, s := range it.b.Succs {
			if !seen[s] {
				seen[s] = true
				st = append(st, item{s, 0})
			}
		}
	}
	return nil, false
}

// pathFromEntryAvoiding: path from function entry to target avoiding `avoid`.
func pathFromEntryAvoiding(fn *ssa.Function, target, avoid func(ssa.Instruction) bool) (ssa.Instruction, bool) {
	type item struct {
		b   *ssa.BasicBlock
		idx int
	}
	seen := map[*ssa.BasicBlock]bool{fn.Blocks[0]: true}
	st := []item{{fn.Blocks[0], 0}}
	for len(st) > 0 {
		it := st[len(st)-1]
		st = st[:len(st)-1]
		stopped := false
		for i := it.idx; i < len(it.b.Instrs); i++ {
			in := it.b.Instrs[i]
			if avoid != nil && avoid(in) {
				stopped = true
				break
			}
			if target(in) {
				return in, true
			}
		}
		if stopped {
			continue
		}
		for _, s := range it.b.Succs {
			if !seen[s] {
				seen[s] = true
				st = append(st, item{s, 0})
			}
		}
	}
	return nil, false
}

// inLoop: block is on a CFG cycle.
func inLoop(b *ssa.BasicBlock) bool {
	for _, s := range b.Succs {
		if s == b {
			return true
		}
		if reachFrom(s, nil, nil)[b] {
			return true
		}
	}
	return false
}

// ---------------------------------------------------------------------------------------------
// Channel operations / select audit
// ---------------------------------------------------------------------------------------------

type chanOp struct {
	Instr    ssa.Instruction
	Kind     string // "send", "recv", "select"
	Chan     string // rendering (send/recv)
	Blocking bool
	Cases    []selCase // select only
	Fn       *ssa.Function
}

type selCase struct {
	Dir  string // "send" | "recv"
	Chan string
	Val  string
	St   *ssa.SelectState
}

func chanOpsIn(fn *ssa.Function) []chanOp {
	var out []chanOp
	for _, in := range allInstrs(fn) {
		switch v := in.(type) {
		case *ssa.Send:
			out = append(out, chanOp{Instr: in, Kind: "send", Chan: ex(v.Chan), Blocking: true, Fn: fn})
		case *ssa.UnOp:
			if v.Op == token.ARROW {
				out = append(out, chanOp{Instr: in, Kind: "recv", Chan: ex(v.X), Blocking: true, Fn: fn})
			}
		case *ssa.Select:
			op := chanOp{Instr: in, Kind: "select", Blocking: v.Blocking, Fn: fn}
			for _, s := range v.States {
				d := "recv"
				val := ""
				if s.Dir == types.SendOnly {
					d = "send"
					val = ex(s.Send)
				}
				op.Cases = append(op.Cases, selCase{Dir: d, Chan: ex(s.Chan), Val: val, St: s})
			}
			out = append(out, op)
		}
	}
	return out
}

func (o chanOp) String() string {
	if o.Kind != "select" {
		return o.Kind + " " + o.Chan
	}
	var p []string
	for _, c := range o.Cases {
		if c.Dir == "send" {
			p = append(p, c.Chan+"<-")
		} else {
			p = append(p, "<-"+c.Chan)
		}
	}
	if !o.Blocking {
		p = append(p, "default")
	}
	return "select{" + strings.Join(p, "; ") + "}"
}

// selectCaseBlock returns the block executed when case idx of a select fires (nil if it cannot be
// determined). go/ssa lowers a select into an index extract followed by a chain of `idx == k` tests.
func selectCaseBlock(sel *ssa.Select, idx int) *ssa.BasicBlock {
	// find Extract #0 of sel
	var idxVal ssa.Value
	if sel.Referrers() != nil {
		for _, r := range *sel.Referrers() {
			if e, ok := r.(*ssa.Extract); ok && e.Index == 0 {
				idxVal = e
			}
		}
	}
	if idxVal == nil || idxVal.Referrers() == nil {
		return nil
	}
	for _, r := range *idxVal.Referrers() {
		b, ok := r.(*ssa.BinOp)
		if !ok || b.Op != token.EQL {
			continue
		}
		k, ok := constInt(b.Y)
		if !ok || int(k) != idx {
			continue
		}
		if b.Referrers() == nil {
			continue
		}
		for _, rr := range *b.Referrers() {
			if i, ok := rr.(*ssa.If); ok {
				return i.Block().Succs[0]
			}
		}
	}
	return nil
}

// selectRecvValue returns the value received by recv-case idx of sel (the Extract), or nil.
func selectRecvValue(sel *ssa.Select, idx int) ssa.Value {
	// tuple layout: (index int, recvOk bool, r_0 T_0, ... r_n-1 T_n-1) for each receive state in order
	pos := 2
	for i, s := range sel.States {
		if s.Dir == types.RecvOnly {
			if i == idx {
				if sel.Referrers() != nil {
					for _, r := range *sel.Referrers() {
						if e, ok := r.(*ssa.Extract); ok && e.Index == pos {
							return e
						}
					}
				}
				return nil
			}
			pos++
		}
	}
	return nil
}

// ---------------------------------------------------------------------------------------------
// Call graph (static + CHA-lite over repo types for interface invokes)
// ---------------------------------------------------------------------------------------------

// staticCallees: functions called from fn (call / defer only when includeGo false; go statements
// are separate goroutine roots).
func (c *Ctx) callees(fn *ssa.Function, includeGo bool) []*ssa.Function {
	var out []*ssa.Function
	seen := map[*ssa.Function]bool{}
	add := func(f *ssa.Function) {
		if f != nil && !seen[f] {
			seen[f] = true
			out = append(out, f)
		}
	}
	for _, in := range allInstrs(fn) {
		ci, ok := in.(ssa.CallInstruction)
		if !ok {
			if mc, ok := in.(*ssa.MakeClosure); ok {
				// closures created here and called here (or deferred): treat as callee unless launched by go
				f := mc.Fn.(*ssa.Function)
				launchedByGo := false
				if mc.Referrers() != nil {
					for _, r := range *mc.Referrers() {
						if g, ok := r.(*ssa.Go); ok && g.Call.Value == mc {
							launchedByGo = true
						}
					}
				}
				if !launchedByGo || includeGo {
					add(f)
				}
			}
			continue
		}
		if _, isGo := in.(*ssa.Go); isGo && !includeGo {
			continue
		}
		cc := ci.Common()
		if cc.IsInvoke() {
			for _, f := range c.implementations(cc) {
				add(f)
			}
			continue
		}
		if f := cc.StaticCallee(); f != nil {
			add(f)
		}
	}
	return out
}

// implementations: repo methods that can be the target of an interface invoke (CHA over repo types).
func (c *Ctx) implementations(cc *ssa.CallCommon) []*ssa.Function {
	var out []*ssa.Function
	iface, ok := cc.Value.Type().Underlying().(*types.Interface)
	if !ok {
		return nil
	}
	for _, fn := range c.AllFns {
		if fn.Signature.Recv() == nil || fn.Name() != cc.Method.Name() {
			continue
		}
		rt := fn.Signature.Recv().Type()
		if types.Implements(rt, iface) || types.Implements(types.NewPointer(rt), iface) {
			out = append(out, fn)
		}
	}
	return out
}

// reachableFns: functions reachable from root via calls/defer (not go).
func (c *Ctx) reachableFns(root *ssa.Function) map[*ssa.Function]bool {
	seen := map[*ssa.Function]bool{root: true}
	st := []*ssa.Function{root}
	for len(st) > 0 {
		f := st[len(st)-1]
		st = st[:len(st)-1]
		if f.Blocks == nil {
			continue
		}
		for _, g := range c.callees(f, false) {
			if !seen[g] {
				seen[g] = true
				st = append(st, g)
			}
		}
	}
	return seen
}

// callersOf: (fn, call instruction) pairs in repo functions that statically call target
// (or may call through an interface invoke resolved by CHA).
type callSite struct {
	Fn   *ssa.Function
	Call ssa.CallInstruction
}

func (c *Ctx) callersOf(target *ssa.Function) []callSite {
	var out []callSite
	for _, fn := range c.AllFns {
		for _, in := range allInstrs(fn) {
			ci, ok := in.(ssa.CallInstruction)
			if !ok {
				continue
			}
			cc := ci.Common()
			if cc.IsInvoke() {
				for _, f := range c.implementations(cc) {
					if f == target {
						out = append(out, callSite{fn, ci})
					}
				}
				continue
			}
			if cc.StaticCallee() == target {
				out = append(out, callSite{fn, ci})
			} else if mc, ok := cc.Value.(*ssa.MakeClosure); ok && mc.Fn == target {
				out = append(out, callSite{fn, ci})
			}
		}
	}
	return out
}

// ---------------------------------------------------------------------------------------------
// Path enumeration (acyclic unrolling: every CFG edge at most once per path)
// ---------------------------------------------------------------------------------------------

// enumPaths enumerates paths of blocks from start until a block with no successors (exit) or until
// stop(block) is true (the stopping block is included). Each edge is used at most once per path.
// Returns false if more than max paths exist (undecided).
func enumPaths(start *ssa.BasicBlock, stop func(*ssa.BasicBlock) bool, max int, visit func(path []*ssa.BasicBlock)) bool {
	count := 0
	ok := true
	var rec func(b *ssa.BasicBlock, path []*ssa.BasicBlock, used map[edge]bool)
	rec = func(b *ssa.BasicBlock, path []*ssa.BasicBlock, used map[edge]bool) {
		if !ok {
			return
		}
		path = append(path, b)
		if len(b.Succs) == 0 || (stop != nil && stop(b) && len(path) > 1) {
			count++
			if count > max {
				ok = false
				return
			}
			cp := make([]*ssa.BasicBlock, len(path))
			copy(cp, path)
			visit(cp)
			return
		}
		progressed := false
		for _, s := range b.Succs {
			e := edge{b, s}
			if used[e] {
				continue
			}
			used[e] = true
			progressed = true
			rec(s, path, used)
			delete(used, e)
		}
		if !progressed {
			// dead end of the unrolling (all out-edges already used): treat as truncated path, ignore
			return
		}
	}
	rec(start, nil, map[edge]bool{})
	return ok
}

// constOnAllPaths: on every feasible path from the function entry to target, the branch conditions comparing v with
// integer constants (v == k, v != k, either operand order) imply v == k for one and the same k. Paths whose conditions
// contradict each other are infeasible and ignored. ok is false when some feasible path leaves v undetermined.
func constOnAllPaths(fn *ssa.Function, v ssa.Value, target *ssa.BasicBlock) (int64, bool) {
	var res int64
	have, bad := false, false
	done := constFactsOnPaths(fn, v, target, func(eq, ne map[int64]bool) {
		for k := range eq {
			if have && res != k {
				bad = true
			}
			res, have = k, true
			return
		}
		bad = true // a feasible path that does not determine v
	})
	return res, done && have && !bad
}

// excludedOnAllPaths: on every feasible path from the entry to target the comparisons imply v != k for every k given
// (and do not pin v to a constant).
func excludedOnAllPaths(fn *ssa.Function, v ssa.Value, target *ssa.BasicBlock, ks ...int64) bool {
	ok, any := true, false
	done := constFactsOnPaths(fn, v, target, func(eq, ne map[int64]bool) {
		any = true
		if len(eq) > 0 {
			ok = false
		}
		for _, k := range ks {
			if !ne[k] {
				ok = false
			}
		}
	})
	return done && any && ok
}

// constFactsOnPaths enumerates the feasible paths entry → target and hands the equalities / inequalities between v and
// integer constants collected along each to visit.
func constFactsOnPaths(fn *ssa.Function, v ssa.Value, target *ssa.BasicBlock, visit func(eq, ne map[int64]bool)) bool {
	return enumPaths(fn.Blocks[0], func(b *ssa.BasicBlock) bool { return b == target }, 20000, func(path []*ssa.BasicBlock) {
		if path[len(path)-1] != target {
			return
		}
		eq := map[int64]bool{}
		ne := map[int64]bool{}
		for i := 0; i+1 < len(path); i++ {
			iff := blockIf(path[i])
			if iff == nil || path[i].Succs[0] == path[i].Succs[1] {
				continue
			}
			cond, neg := stripNot(iff.Cond)
			b, isB := cond.(*ssa.BinOp)
			if !isB || (b.Op != token.EQL && b.Op != token.NEQ) {
				continue
			}
			var k int64
			var isK bool
			if b.X == v {
				k, isK = constInt(b.Y)
			} else if b.Y == v {
				k, isK = constInt(b.X)
			}
			if !isK {
				continue
			}
			isEq := (b.Op == token.EQL) == (path[i+1] == path[i].Succs[0])
			if neg {
				isEq = !isEq
			}
			if isEq {
				eq[k] = true
			} else {
				ne[k] = true
			}
		}
		if len(eq) > 1 {
			return // infeasible
		}
		for k := range eq {
			if ne[k] {
				return // infeasible
			}
		}
		visit(eq, ne)
	})
}

// isPanicBlock: block ends in panic (infeasible "blocking select matched no case" arms, explicit panics).
func isPanicBlock(b *ssa.BasicBlock) bool {
	if len(b.Instrs) == 0 {
		return false
	}
	_, ok := b.Instrs[len(b.Instrs)-1].(*ssa.Panic)
	return ok
}

// pathInstrs flattens a block path into its instruction sequence.
func pathInstrs(path []*ssa.BasicBlock) []ssa.Instruction {
	var out []ssa.Instruction
	for _, b := range path {
		out = append(out, b.Instrs...)
	}
	return out
}

// selectTaken: along a block path, which case index of sel was taken (-1 unknown).
func selectTaken(sel *ssa.Select, path []*ssa.BasicBlock) int {
	for i := range sel.States {
		cb := selectCaseBlock(sel, i)
		if cb == nil {
			continue
		}
		for _, b := range path {
			if b == cb {
				return i
			}
		}
	}
	return -1
}

// deferredCalls lists the Defer instructions of fn in order.
func deferredCalls(fn *ssa.Function) []*ssa.Defer {
	var out []*ssa.Defer
	for _, in := range allInstrs(fn) {
		if d, ok := in.(*ssa.Defer); ok {
			out = append(out, d)
		}
	}
	return out
}

// goStmts lists the Go instructions of fn.
func goStmts(fn *ssa.Function) []*ssa.Go {
	var out []*ssa.Go
	for _, in := range allInstrs(fn) {
		if g, ok := in.(*ssa.Go); ok {
			out = append(out, g)
		}
	}
	return out
}

// goTarget names the function launched by a go statement; for closures it returns the closure fn.
func goTarget(g *ssa.Go) (*ssa.Function, string) {
	cc := g.Common()
	if f := cc.StaticCallee(); f != nil {
		return f, funcName(f)
	}
	if mc, ok := cc.Value.(*ssa.MakeClosure); ok {
		f := mc.Fn.(*ssa.Function)
		return f, funcName(f)
	}
	return nil, calleeName(cc)
}

// reachInstr: is there a CFG path from instruction a to instruction b (a != b)?
func reachInstr(a, b ssa.Instruction) bool {
	_, ok := pathExistsAvoiding(a, func(in ssa.Instruction) bool { return in == b }, nil)
	return ok
}

// orderedBefore: a can be followed by b, and b is never followed by a.
func orderedBefore(a, b ssa.Instruction) bool { return reachInstr(a, b) && !reachInstr(b, a) }

// returnSetSummary: the set of renderings an error-typed result #idx of fn can take.
func returnSet(fn *ssa.Function, idx int) map[string]bool {
	out := map[string]bool{}
	for _, r := range retInstrs(fn) {
		if idx < len(r.Results) {
			v := r.Results[idx]
			if p, ok := v.(*ssa.Phi); ok {
				for _, e := range p.Edges {
					out[ex(e)] = true
				}
				continue
			}
			out[ex(v)] = true
		}
	}
	return out
}

// litFields: for a composite-literal Alloc, the rendering of the value stored into each field.
func litFields(a *ssa.Alloc) map[string]ssa.Value {
	out := map[string]ssa.Value{}
	if a.Referrers() == nil {
		return out
	}
	for _, r := range *a.Referrers() {
		fa, ok := r.(*ssa.FieldAddr)
		if !ok || fa.Referrers() == nil {
			continue
		}
		st := fa.X.Type().Underlying().(*types.Pointer).Elem().Underlying().(*types.Struct)
		for _, rr := range *fa.Referrers() {
			if s, ok := rr.(*ssa.Store); ok && s.Addr == fa {
				out[st.Field(fa.Field).Name()] = s.Val
			}
		}
	}
	return out
}

// litAllocs: composite literal allocations of the named type (short-qualified, e.g. "gomavlib.EventFrame") in fn.
func litAllocs(fn *ssa.Function, typ string) []*ssa.Alloc {
	var out []*ssa.Alloc
	for _, in := range allInstrs(fn) {
		if a, ok := in.(*ssa.Alloc); ok {
			if typeStr(a.Type().(*types.Pointer).Elem()) == typ {
				out = append(out, a)
			}
		}
	}
	return out
}

// underlyingAlloc peels MakeInterface / ChangeInterface to find a literal allocation.
func underlyingAlloc(v ssa.Value) *ssa.Alloc {
	for i := 0; i < 5; i++ {
		switch x := v.(type) {
		case *ssa.Alloc:
			return x
		case *ssa.MakeInterface:
			v = x.X
		case *ssa.ChangeInterface:
			v = x.X
		default:
			return nil
		}
	}
	return nil
}

// ---------------------------------------------------------------------------------------------
// Condition normalisation: a rule states a condition in one spelling; the code may test the negation,
// swap the operands or wrap it in `!`. condVariants enumerates the equivalent renderings of an If
// condition together with the successor index taken when that rendering is TRUE.
// ---------------------------------------------------------------------------------------------

var negOp = map[token.Token]token.Token{token.EQL: token.NEQ, token.NEQ: token.EQL, token.LSS: token.GEQ, token.GEQ: token.LSS, token.GTR: token.LEQ, token.LEQ: token.GTR}
var swapOp = map[token.Token]token.Token{token.EQL: token.EQL, token.NEQ: token.NEQ, token.LSS: token.GTR, token.GTR: token.LSS, token.LEQ: token.GEQ, token.GEQ: token.LEQ}

func condVariants(v ssa.Value) map[string]int {
	out := map[string]int{}
	var rec func(v ssa.Value, flip int)
	rec = func(v ssa.Value, flip int) {
		switch x := v.(type) {
		case *ssa.UnOp:
			if x.Op == token.NOT {
				rec(x.X, 1-flip)
				return
			}
		case *ssa.BinOp:
			if _, ok := negOp[x.Op]; ok {
				a, b := ex(x.X), ex(x.Y)
				out["("+a+" "+x.Op.String()+" "+b+")"] = flip
				out["("+b+" "+swapOp[x.Op].String()+" "+a+")"] = flip
				n := negOp[x.Op]
				out["("+a+" "+n.String()+" "+b+")"] = 1 - flip
				out["("+b+" "+swapOp[n].String()+" "+a+")"] = 1 - flip
				return
			}
		}
		s := ex(v)
		out[s] = flip
		out["!"+s] = 1 - flip
	}
	rec(v, 0)
	return out
}

// succWhen: the successor of iff taken when the condition `want` holds, and the other one.
func succWhen(iff *ssa.If, want string) (then, els *ssa.BasicBlock, ok bool) {
	idx, ok := condVariants(iff.Cond)[want]
	if !ok {
		return nil, nil, false
	}
	return iff.Block().Succs[idx], iff.Block().Succs[1-idx], true
}

// succWhenFunc: like succWhen but the wanted condition is recognised by a predicate over the
// equivalent renderings.
func succWhenFunc(iff *ssa.If, pred func(string) bool) (then, els *ssa.BasicBlock, cond string, ok bool) {
	vs := condVariants(iff.Cond)
	var keys []string
	for k := range vs {
		keys = append(keys, k)
	}
	sort.Strings(keys)
	for _, k := range keys {
		if pred(k) {
			idx := vs[k]
			return iff.Block().Succs[idx], iff.Block().Succs[1-idx], k, true
		}
	}
	return nil, nil, "", false
}

// condTrueAt: the rendered condition `want` is known to hold at block b (b is reachable only through the
// edge on which `want` is true, of some If of fn).
func condTrueAt(fn *ssa.Function, want string, b *ssa.BasicBlock) bool {
	for _, iff := range ifsIn(fn) {
		if tb, _, ok := succWhen(iff, want); ok && edgeMustPass(fn, edge{iff.Block(), tb}, b) {
			return true
		}
	}
	return false
}

// nilGuard: the If testing v against nil; nonNil / isNil are the successors for v != nil / v == nil.
func nilGuard(fn *ssa.Function, v ssa.Value) (iff *ssa.If, nonNil, isNil *ssa.BasicBlock) {
	for _, i := range ifsIn(fn) {
		b, ok := i.Cond.(*ssa.BinOp)
		if !ok {
			continue
		}
		var other ssa.Value
		switch {
		case b.X == v:
			other = b.Y
		case b.Y == v:
			other = b.X
		default:
			continue
		}
		if !isNilConst(other) {
			continue
		}
		switch b.Op {
		case token.NEQ:
			return i, i.Block().Succs[0], i.Block().Succs[1]
		case token.EQL:
			return i, i.Block().Succs[1], i.Block().Succs[0]
		}
	}
	// the error joined with those of other attempts in one variable (`for err != nil { …; x, err = open() }`): the
	// test of that variable guards this value as well
	for _, i := range ifsIn(fn) {
		b, ok := i.Cond.(*ssa.BinOp)
		if !ok || !isNilConst(b.Y) {
			continue
		}
		p, isPhi := b.X.(*ssa.Phi)
		if !isPhi || typeStr(p.Type()) != "error" {
			continue
		}
		has := false
		for _, e := range p.Edges {
			if e == v {
				has = true
			}
		}
		if !has {
			continue
		}
		switch b.Op {
		case token.NEQ:
			return i, i.Block().Succs[0], i.Block().Succs[1]
		case token.EQL:
			return i, i.Block().Succs[1], i.Block().Succs[0]
		}
	}
	return nil, nil, nil
}

// canonEdgeCond: canonical rendering of the condition that holds on successor edge idx of iff: comparisons
// are expressed without a leading negation (the operator is flipped instead) and with a constant operand on the
// right; other conditions get a leading "!" on the false edge.
func canonEdgeCond(iff *ssa.If, idx int, norm func(string) string) string {
	if norm == nil {
		norm = func(s string) string { return s }
	}
	v := iff.Cond
	for {
		u, ok := v.(*ssa.UnOp)
		if !ok || u.Op != token.NOT {
			break
		}
		v = u.X
		idx = 1 - idx
	}
	if b, ok := v.(*ssa.BinOp); ok {
		if _, isCmp := negOp[b.Op]; isCmp {
			op := b.Op
			if idx == 1 {
				op = negOp[op]
			}
			x, y := b.X, b.Y
			if _, xc := x.(*ssa.Const); xc {
				if _, yc := y.(*ssa.Const); !yc {
					x, y = y, x
					op = swapOp[op]
				}
			}
			return "(" + norm(ex(x)) + " " + op.String() + " " + norm(ex(y)) + ")"
		}
	}
	s := norm(ex(v))
	if idx == 1 {
		return "!" + s
	}
	return s
}

var globalInitCache = map[*ssa.Global]ssa.Value{}

// newGlobalInit: for a private package variable that does not exist on the reference tree (a hoisted constant
// such as a pre-compiled regexp) and is assigned exactly once, in the package initialiser, from a value built
// of constants: that value. The variable is then rendered as its initialiser, i.e. as the expression it was
// hoisted from. nil otherwise.
func newGlobalInit(g *ssa.Global) ssa.Value {
	if v, ok := globalInitCache[g]; ok {
		return v
	}
	globalInitCache[g] = nil
	if g.Pkg == nil || token.IsExported(g.Name()) || !strings.HasPrefix(g.Pkg.Pkg.Path(), modPath) {
		return nil
	}
	if _, known := knownMembers[pkgKey(g.Pkg.Pkg.Path())+":var:"+g.Name()]; known || len(knownMembers) == 0 {
		return nil
	}
	v := onceInit(g)
	globalInitCache[g] = v
	return v
}

// onceInit: the constant-built value a package variable is assigned exactly once, in the package initialiser
// (its address is never taken and nothing else stores to it); nil otherwise.
func onceInit(g *ssa.Global) ssa.Value {
	var val ssa.Value
	n := 0
	addrTaken := false
	var scan func(fn *ssa.Function)
	scan = func(fn *ssa.Function) {
		for _, b := range fn.Blocks {
			for _, in := range b.Instrs {
				if st, ok := in.(*ssa.Store); ok && st.Addr == ssa.Value(g) {
					n++
					if fn.Name() == "init" && fn.Parent() == nil {
						val = st.Val
					}
					continue
				}
				for _, op := range in.Operands(nil) {
					if *op == ssa.Value(g) {
						if u, ok := in.(*ssa.UnOp); !ok || u.Op != token.MUL {
							addrTaken = true
						}
					}
				}
			}
		}
		for _, af := range fn.AnonFuncs {
			scan(af)
		}
	}
	for _, m := range g.Pkg.Members {
		switch x := m.(type) {
		case *ssa.Function:
			scan(x)
		case *ssa.Type:
			for _, t := range []types.Type{x.Type(), types.NewPointer(x.Type())} {
				ms := g.Pkg.Prog.MethodSets.MethodSet(t)
				for i := 0; i < ms.Len(); i++ {
					if f := g.Pkg.Prog.MethodValue(ms.At(i)); f != nil && f.Pkg == g.Pkg {
						scan(f)
					}
				}
			}
		}
	}
	if n != 1 || val == nil || addrTaken || !constBuilt(val, 0) {
		return nil
	}
	return val
}

// constBuilt: the value is a constant or a call / conversion whose operands are constBuilt.
func constBuilt(v ssa.Value, depth int) bool {
	if depth > 4 {
		return false
	}
	switch x := v.(type) {
	case *ssa.Const:
		return true
	case *ssa.Call:
		if x.Call.IsInvoke() || x.Call.StaticCallee() == nil {
			return false
		}
		for _, a := range x.Call.Args {
			if !constBuilt(a, depth+1) {
				return false
			}
		}
		return true
	case *ssa.Convert:
		return constBuilt(x.X, depth+1)
	case *ssa.MakeInterface:
		return constBuilt(x.X, depth+1)
	}
	return false
}

// selectsBy: v is `cond ? whenTrue : whenFalse` — a phi whose every incoming edge lies on one side of an If on
// cond (rendered by ex, any equivalent form) and carries the corresponding value. Integer conversions around
// v and around the edge values are ignored.
func selectsBy(fn *ssa.Function, v ssa.Value, cond, whenTrue, whenFalse string) bool {
	peelConv := func(v ssa.Value) ssa.Value {
		for {
			cv, ok := v.(*ssa.Convert)
			if !ok || intWidth(cv.Type()) == 0 || intWidth(cv.X.Type()) == 0 {
				return v
			}
			v = cv.X
		}
	}
	p, ok := peelConv(v).(*ssa.Phi)
	if !ok {
		return false
	}
	nT, nF := 0, 0
	for i, e := range p.Edges {
		pred := p.Block().Preds[i]
		side := -1
		for _, iff := range ifsIn(fn) {
			t, f, hit := succWhen(iff, cond)
			if !hit || t == f {
				continue
			}
			switch {
			case iff.Block() == pred && t == p.Block(), edgeMustPass(fn, edge{iff.Block(), t}, pred):
				side = 1
			case iff.Block() == pred && f == p.Block(), edgeMustPass(fn, edge{iff.Block(), f}, pred):
				side = 0
			}
		}
		val := ex(peelConv(e))
		switch {
		case side == 1 && val == whenTrue:
			nT++
		case side == 0 && val == whenFalse:
			nF++
		default:
			return false
		}
	}
	return nT > 0 && nF > 0
}

// awaitSelect: the blocking select of fn that waits for a local result channel (a channel allocated in fn, as
// opposed to a field of the receiver): the select by which a supervisor awaits its workers. Other blocking
// selects (e.g. an inlined hand-over to the node) are not confused with it. Falls back to the select with the
// most cases.
func awaitSelect(fn *ssa.Function) *ssa.Select {
	var best, widest *ssa.Select
	for _, in := range allInstrs(fn) {
		s, ok := in.(*ssa.Select)
		if !ok || !s.Blocking {
			continue
		}
		if widest == nil || len(s.States) > len(widest.States) {
			widest = s
		}
		for _, st := range s.States {
			if st.Dir == types.RecvOnly && rootAlloc(st.Chan) != nil && best == nil {
				best = s
			}
		}
	}
	if best != nil {
		return best
	}
	return widest
}

// widestLoopSelect: the blocking select inside a loop of fn with the most cases (the event loop's own select,
// as opposed to a hand-over select inlined into one of its cases).
func widestLoopSelect(fn *ssa.Function) *ssa.Select {
	var widest *ssa.Select
	for _, in := range allInstrs(fn) {
		if s, ok := in.(*ssa.Select); ok && s.Blocking && inLoop(s.Block()) {
			if widest == nil || len(s.States) > len(widest.States) {
				widest = s
			}
		}
	}
	return widest
}

// dependsOn: v is computed from src through extractions, Next, conversions and loads only.
func dependsOn(v, src ssa.Value) bool {
	for i := 0; i < 8 && v != nil; i++ {
		if v == src {
			return true
		}
		switch x := v.(type) {
		case *ssa.Extract:
			v = x.Tuple
		case *ssa.Next:
			v = x.Iter
		case *ssa.ChangeType:
			v = x.X
		case *ssa.Convert:
			v = x.X
		case *ssa.UnOp:
			v = x.X
		default:
			return false
		}
	}
	return false
}

// computedFrom: src is among the (transitive) operands of v.
func computedFrom(v, src ssa.Value, depth int, seen map[ssa.Value]bool) bool {
	if v == src {
		return true
	}
	if v == nil || depth > 12 || seen[v] {
		return false
	}
	seen[v] = true
	in, ok := v.(ssa.Instruction)
	if !ok {
		return false
	}
	for _, op := range in.Operands(nil) {
		if *op != nil && computedFrom(*op, src, depth+1, seen) {
			return true
		}
	}
	return false
}

// argsDeep: the arguments of a call, with a variadic `...interface{}` slice replaced by the values stored into it
// (interface wrappers peeled).
func argsDeep(cc *ssa.CallCommon) []ssa.Value {
	var out []ssa.Value
	peel := func(v ssa.Value) ssa.Value {
		for {
			switch x := v.(type) {
			case *ssa.MakeInterface:
				v = x.X
			case *ssa.ChangeInterface:
				v = x.X
			default:
				return v
			}
		}
	}
	for _, a := range cc.Args {
		if sl, ok := a.(*ssa.Slice); ok {
			if al, ok := sl.X.(*ssa.Alloc); ok && al.Referrers() != nil {
				for _, rf := range *al.Referrers() {
					if ia, ok := rf.(*ssa.IndexAddr); ok && ia.Referrers() != nil {
						for _, rr := range *ia.Referrers() {
							if st, ok := rr.(*ssa.Store); ok && st.Addr == ssa.Value(ia) {
								out = append(out, peel(st.Val))
							}
						}
					}
				}
				continue
			}
		}
		out = append(out, peel(a))
	}
	return out
}

// errDerivedFrom: the error value v is src itself, or built from it: a phi with src (derived) on an edge, an
// interface conversion, or the result of an error-returning call that receives src (fmt.Errorf("…: %w", err),
// errors.Join, a repo wrapper) — i.e. returning v reports the failure src reported.
func errDerivedFrom(v, src ssa.Value, depth int) bool {
	if v == src {
		return true
	}
	if depth > 5 || v == nil {
		return false
	}
	switch x := v.(type) {
	case *ssa.Phi:
		for _, e := range x.Edges {
			if errDerivedFrom(e, src, depth+1) {
				return true
			}
		}
	case *ssa.MakeInterface:
		return errDerivedFrom(x.X, src, depth+1)
	case *ssa.ChangeInterface:
		return errDerivedFrom(x.X, src, depth+1)
	case *ssa.Extract:
		return errDerivedFrom(x.Tuple, src, depth+1)
	case *ssa.Call:
		if !returnsError(x) {
			return false
		}
		for _, a := range argsDeep(&x.Call) {
			if errDerivedFrom(a, src, depth+1) {
				return true
			}
		}
	case *ssa.Alloc:
		// &T{…, err} error value built as a literal carrying src
		if x.Comment == "complit" {
			for _, fv := range litFields(x) {
				if errDerivedFrom(fv, src, depth+1) {
					return true
				}
			}
		}
	}
	return false
}

func returnsError(call *ssa.Call) bool {
	if typeStr(call.Type()) == "error" {
		return true
	}
	if tup, ok := call.Type().(*types.Tuple); ok {
		for i := 0; i < tup.Len(); i++ {
			if typeStr(tup.At(i).Type()) == "error" {
				return true
			}
		}
	}
	return false
}

// fieldInfluence lists the reads of struct field f (anywhere in the repo) whose value can influence behaviour:
// reads whose value flows — through arithmetic, conversions and phis — only into a store to the same field
// (x.f++ / x.f += n: an accumulator) or into the result of a function that stores nothing (a getter) are not
// listed. A field with no listed read is write-only bookkeeping (statistics), not state.
func (c *Ctx) fieldInfluence(f *types.Var) []string {
	var out []string
	for _, fn := range c.AllFns {
		// storesAny: the function writes a struct field other than one of its own local variables (not a getter)
		storesAny := false
		for _, in := range allInstrs(fn) {
			if st, ok := in.(*ssa.Store); ok {
				if fv, base := fieldOfAddr(st.Addr); fv != nil {
					if _, local := base.(*ssa.Alloc); !local {
						storesAny = true
					}
				}
			}
		}
		for _, in := range allInstrs(fn) {
			var loaded ssa.Value
			switch x := in.(type) {
			case *ssa.UnOp:
				if x.Op == token.MUL {
					if fv, _ := fieldOfAddr(x.X); fv == f {
						loaded = x
					}
				}
			case *ssa.Field:
				if st, ok := x.X.Type().Underlying().(*types.Struct); ok && st.Field(x.Field) == f {
					loaded = x
				}
			case *ssa.FieldAddr:
				// address escapes other than load/store (passed to a call: e.g. atomic ops are calls on &x.f, fine for
				// sync/atomic types; anything else is treated as an influencing read)
				if fv, _ := fieldOfAddr(x); fv == f && x.Referrers() != nil {
					for _, rf := range *x.Referrers() {
						switch y := rf.(type) {
						case *ssa.Store:
							if y.Addr != ssa.Value(x) {
								out = append(out, c.Pos(y.Pos())+" (address stored)")
							}
						case *ssa.UnOp, *ssa.DebugRef:
						case ssa.CallInstruction:
							n := calleeName(y.Common())
							if !(strings.HasPrefix(n, "(atomic.") && (strings.HasSuffix(n, ").Add") || strings.HasSuffix(n, ").Store") || (strings.HasSuffix(n, ").Load") && !storesAny))) {
								out = append(out, c.Pos(y.Pos())+" ("+n+")")
							}
						default:
							out = append(out, c.Pos(rf.Pos())+" (address used)")
						}
					}
				}
			}
			if loaded == nil {
				continue
			}
			seen := map[ssa.Value]bool{}
			var harmful func(v ssa.Value) bool
			harmful = func(v ssa.Value) bool {
				if seen[v] {
					return false
				}
				seen[v] = true
				refs := v.Referrers()
				if refs == nil {
					return false
				}
				for _, rf := range *refs {
					switch y := rf.(type) {
					case *ssa.DebugRef:
					case *ssa.BinOp:
						if harmful(y) {
							return true
						}
					case *ssa.Convert:
						if harmful(y) {
							return true
						}
					case *ssa.ChangeType:
						if harmful(y) {
							return true
						}
					case *ssa.Phi:
						if harmful(y) {
							return true
						}
					case *ssa.Store:
						fv, base := fieldOfAddr(y.Addr)
						if fv == f && y.Val == v {
							continue
						}
						// copied into a field of a local struct (a snapshot literal): follow the local
						if la, local := base.(*ssa.Alloc); local && fv != nil && la.Referrers() != nil {
							bad := false
							for _, lr := range *la.Referrers() {
								switch z := lr.(type) {
								case *ssa.FieldAddr, *ssa.DebugRef:
								case *ssa.UnOp:
									if harmful(z) {
										bad = true
									}
								default:
									bad = true
								}
							}
							if bad {
								return true
							}
							continue
						}
						return true
					case *ssa.Return:
						if storesAny {
							return true
						}
					default:
						return true
					}
				}
				return false
			}
			if harmful(loaded) {
				out = append(out, fnLocalName(fn)+" reads it at "+c.Pos(in.Pos()))
			}
		}
	}
	sort.Strings(out)
	return out
}

// localLitField: fa addresses field f of a local struct variable (possibly captured by closures) whose field f is
// assigned exactly once, in the declaring function (typically by its composite literal), and whose address is
// never handed out: the value assigned. A read of `key.SystemID` after `key := streamNode{SystemID: x}` is x.
func localLitField(fa *ssa.FieldAddr) ssa.Value {
	var a *ssa.Alloc
	switch b := fa.X.(type) {
	case *ssa.Alloc:
		a = b
	case *ssa.FreeVar:
		a = rootAlloc(b)
	}
	if a == nil {
		return nil
	}
	if _, ok := a.Type().(*types.Pointer).Elem().Underlying().(*types.Struct); !ok {
		return nil
	}
	var stores []*ssa.Store
	ok := true
	var visit func(alias ssa.Value)
	visit = func(alias ssa.Value) {
		refs := alias.Referrers()
		if refs == nil {
			return
		}
		for _, rf := range *refs {
			switch x := rf.(type) {
			case *ssa.DebugRef:
			case *ssa.UnOp:
				if x.Op != token.MUL {
					ok = false
				}
			case *ssa.FieldAddr:
				if x.Field != fa.Field || x.Referrers() == nil {
					continue
				}
				for _, rr := range *x.Referrers() {
					switch y := rr.(type) {
					case *ssa.Store:
						if y.Addr == ssa.Value(x) {
							stores = append(stores, y)
						} else {
							ok = false
						}
					case *ssa.UnOp, *ssa.DebugRef:
					default:
						ok = false
					}
				}
			case *ssa.MakeClosure:
				cf := x.Fn.(*ssa.Function)
				for i, b := range x.Bindings {
					if b == alias && i < len(cf.FreeVars) {
						visit(cf.FreeVars[i])
					}
				}
			default:
				ok = false
			}
		}
	}
	visit(a)
	if !ok || len(stores) != 1 || stores[0].Parent() != a.Parent() {
		return nil
	}
	// not inside a loop relative to the allocation (one value per variable instance)
	if inLoop(stores[0].Block()) && !inLoop(a.Block()) {
		return nil
	}
	return stores[0].Val
}

// allFnsGlobal: the functions of the program being analysed (set by the loader) for whole-program lookups made
// while rendering.
var allFnsGlobal []*ssa.Function
var fieldInitCache = map[*types.Var]ssa.Value{}
var debugEx = false

// newFieldInit: fa addresses, through the receiver of a method, a private struct field that does not exist on the
// reference tree and is assigned exactly once in the whole program — in a method of the same type, through its
// receiver, from constants and other receiver fields (a value cached at initialisation, e.g. a reflect.Type):
// the value assigned. The field is then rendered as the expression it caches.
func newFieldInit(fa *ssa.FieldAddr) ssa.Value {
	isRecv := func(v ssa.Value) bool {
		// the receiver itself, or its spill slot when closures capture it
		if u, ok := v.(*ssa.UnOp); ok && u.Op == token.MUL {
			if a, ok := u.X.(*ssa.Alloc); ok {
				if sv := spilledValue(a); sv != nil {
					v = sv
				}
			}
		}
		p, ok := v.(*ssa.Parameter)
		return ok && p.Parent().Signature.Recv() != nil && len(p.Parent().Params) > 0 && p.Parent().Params[0] == p
	}
	if !isRecv(fa.X) || len(knownMembers) == 0 {
		return nil
	}
	st := fa.X.Type().Underlying().(*types.Pointer).Elem().Underlying().(*types.Struct)
	f := st.Field(fa.Field)
	if v, ok := fieldInitCache[f]; ok {
		return v
	}
	fieldInitCache[f] = nil
	named, ok := fa.X.Type().Underlying().(*types.Pointer).Elem().(*types.Named)
	if !ok || f.Exported() || f.Pkg() == nil || !strings.HasPrefix(f.Pkg().Path(), modPath) {
		return nil
	}
	if _, known := knownMembers[pkgKey(f.Pkg().Path())+":field:"+named.Obj().Name()+"."+f.Name()]; known {
		return nil
	}
	var val ssa.Value
	n := 0
	for _, fn := range allFnsGlobal {
		for _, in := range allInstrs(fn) {
			switch x := in.(type) {
			case *ssa.Store:
				if fv, base := fieldOfAddr(x.Addr); fv == f {
					n++
					if isRecv(base) && !inLoop(x.Block()) {
						val = x.Val
					}
				}
			case *ssa.FieldAddr:
				// address handed out
				if fv, _ := fieldOfAddr(x); fv == f && x.Referrers() != nil {
					for _, rf := range *x.Referrers() {
						switch y := rf.(type) {
						case *ssa.Store:
							if y.Addr != ssa.Value(x) {
								n += 2
							}
						case *ssa.UnOp, *ssa.DebugRef:
						default:
							n += 2
						}
					}
				}
			}
		}
	}
	var recvBuilt func(v ssa.Value, d int) bool
	recvBuilt = func(v ssa.Value, d int) bool {
		if d > 14 {
			return false
		}
		if isRecv(v) {
			return true
		}
		switch x := v.(type) {
		case *ssa.Const:
			return true
		case *ssa.UnOp:
			return x.Op == token.MUL && recvBuilt(x.X, d+1)
		case *ssa.FieldAddr:
			return recvBuilt(x.X, d+1)
		case *ssa.Convert:
			return recvBuilt(x.X, d+1)
		case *ssa.MakeInterface:
			return recvBuilt(x.X, d+1)
		case *ssa.ChangeInterface:
			return recvBuilt(x.X, d+1)
		case *ssa.TypeAssert:
			return recvBuilt(x.X, d+1)
		case *ssa.Extract:
			return recvBuilt(x.Tuple, d+1)
		case *ssa.Call:
			if !x.Call.IsInvoke() && x.Call.StaticCallee() == nil {
				return false
			}
			if x.Call.IsInvoke() && !recvBuilt(x.Call.Value, d+1) {
				return false
			}
			for _, a := range x.Call.Args {
				if !recvBuilt(a, d+1) {
					return false
				}
			}
			return true
		}
		return false
	}
	if debugEx {
		fmt.Printf("newFieldInit %s: n=%d val=%v built=%v\n", f.Name(), n, val != nil, val != nil && recvBuilt(val, 0))
	}
	if n != 1 || val == nil || !recvBuilt(val, 0) {
		return nil
	}
	fieldInitCache[f] = val
	return val
}

// nilOnlyVia: v is herr itself, or an error-threaded phi (the joined error of an in-lined helper) that can be nil only
// when it came in through herr: every other edge carries an error that is non-nil on that edge (the edge leaves the
// true side of `e != nil`, or carries a non-nil constant / fresh error). Then `v == nil` implies that the call
// producing herr was executed and succeeded.
func nilOnlyVia(v, herr ssa.Value) bool {
	if v == herr {
		return true
	}
	p, ok := v.(*ssa.Phi)
	if !ok {
		return false
	}
	via := false
	for i, e := range p.Edges {
		if e == herr {
			via = true
			continue
		}
		if q, isPhi := e.(*ssa.Phi); isPhi && nilOnlyVia(q, herr) {
			via = true
			continue
		}
		if isNilConst(e) {
			return false
		}
		// non-nil on this edge?
		pred := p.Block().Preds[i]
		nonNil := false
		if call, isCall := e.(*ssa.Call); isCall {
			n := calleeName(&call.Call)
			if n == "fmt.Errorf" || n == "errors.New" {
				nonNil = true
			}
		}
		if _, isMI := e.(*ssa.MakeInterface); isMI {
			nonNil = true
		}
		for b, hops := pred, 0; b != nil && hops < 4 && !nonNil; hops++ {
			if len(b.Preds) != 1 {
				break
			}
			if iff := blockIf(b.Preds[0]); iff != nil {
				if bo, isB := iff.Cond.(*ssa.BinOp); isB && bo.X == e && isNilConst(bo.Y) {
					if (bo.Op == token.NEQ && b.Preds[0].Succs[0] == b) || (bo.Op == token.EQL && b.Preds[0].Succs[1] == b) {
						nonNil = true
					}
				}
			}
			b = b.Preds[0]
		}
		if !nonNil {
			return false
		}
	}
	return via
}

// threadedValue: p joins the results of a (typically inlined) helper that returns (value, error): in p's block
// there is an error-typed phi that is nil exactly on the edges where the helper succeeded and non-nil on the others,
// and p carries a zero constant on the failing edges. On every use that is guarded by the usual `err != nil → return`
// the value of p is its success-edge value; that value is returned when it is unique, nil otherwise.
func threadedValue(p *ssa.Phi) ssa.Value {
	if typeStr(p.Type()) == "error" || len(p.Edges) < 2 {
		return nil
	}
	var errPhi *ssa.Phi
	for _, in := range p.Block().Instrs {
		q, ok := in.(*ssa.Phi)
		if !ok {
			break
		}
		if q != p && typeStr(q.Type()) == "error" {
			errPhi = q
		}
	}
	if errPhi == nil {
		return nil
	}
	var val ssa.Value
	nFail := 0
	for i, e := range p.Edges {
		if isNilConst(errPhi.Edges[i]) {
			if val != nil && val != e {
				return nil
			}
			val = e
			continue
		}
		// failing edge: p must carry the zero value there
		nFail++
		c, isC := e.(*ssa.Const)
		if !isC {
			return nil
		}
		if c.Value != nil {
			if k, ok := constInt(c); !ok || k != 0 {
				return nil
			}
		}
	}
	if nFail == 0 || val == nil {
		return nil
	}
	// the error must be tested right after the join: an If on errPhi != nil in the block or its single successor chain
	tested := false
	if errPhi.Referrers() != nil {
		for _, rf := range *errPhi.Referrers() {
			if b, ok := rf.(*ssa.BinOp); ok && (b.Op == token.NEQ || b.Op == token.EQL) && (isNilConst(b.X) || isNilConst(b.Y)) {
				tested = true
			}
		}
	}
	if !tested {
		return nil
	}
	return val
}
