package main

import (
	"go/constant"
	"fmt"
	"go/token"
	"go/types"
	"sort"
	"strings"

	"golang.org/x/tools/go/ssa"
)

// ---------------------------------------------------------------------------------------------
// Symbolic byte-buffer interpreter (design P3/P5).
//
// For straight-line / branching (acyclic) marshal code it computes, per byte buffer, which symbolic
// byte is stored at which offset. Offsets are affine in one length symbol L (the run-time length of the
// payload copied into the buffer):   off = c + k·L.
//
// A symbolic byte is one of
//     const:N            a constant byte
//     V(<expr>)          a byte-typed value (field load, parameter)
//     B(<expr>,k)        byte k (little-endian numbering) of an integer expression
//     run(<expr>)        a variable-length run of bytes (a whole slice copied / hashed)
// ---------------------------------------------------------------------------------------------

type aff struct{ c, k int }

func (a aff) String() string {
	switch {
	case a.k == 0:
		return fmt.Sprint(a.c)
	case a.k == 1:
		return fmt.Sprintf("%d+L", a.c)
	}
	return fmt.Sprintf("%d+%dL", a.c, a.k)
}

type cell struct {
	off  aff
	val  string
	n    aff // length: {1,0} for single bytes, {0,1} for an L-run, {6,0} for fixed runs
	cond string
	pos  token.Pos
}

type bufInterp struct {
	c       *Ctx
	fn      *ssa.Function
	lenSym  func(v ssa.Value) bool // is v the value whose length is L (the payload slice)?
	cells   map[ssa.Value][]cell   // buffer root -> cells
	emits   map[ssa.Value][]cell   // hash object -> emitted byte sequence (in order)
	undec   []string
	conds   map[*ssa.BasicBlock]string
	helpers map[*ssa.Function][]cell // encode helper summaries (cells of their arg0, values in terms of "arg1")
	norm    func(string) string
}

func newBufInterp(c *Ctx, fn *ssa.Function, lenSym func(ssa.Value) bool, norm func(string) string) *bufInterp {
	if norm == nil {
		norm = func(s string) string { return s }
	}
	return &bufInterp{c: c, fn: fn, lenSym: lenSym, cells: map[ssa.Value][]cell{}, emits: map[ssa.Value][]cell{},
		conds: map[*ssa.BasicBlock]string{}, helpers: map[*ssa.Function][]cell{}, norm: norm}
}

// affine evaluates an integer SSA value to c + k·L.
func (bi *bufInterp) affine(v ssa.Value) (aff, bool) {
	switch x := v.(type) {
	case *ssa.Const:
		if k, ok := constInt(x); ok {
			return aff{int(k), 0}, true
		}
	case *ssa.BinOp:
		a, ok1 := bi.affine(x.X)
		b, ok2 := bi.affine(x.Y)
		if ok1 && ok2 {
			switch x.Op {
			case token.ADD:
				return aff{a.c + b.c, a.k + b.k}, true
			case token.SUB:
				return aff{a.c - b.c, a.k - b.k}, true
			}
		}
	case *ssa.Call:
		n := calleeName(&x.Call)
		if n == "copy" {
			// copy returns min(len(dst), len(src)); dst capacity is checked separately (R1.6)
			if bi.lenSym != nil && bi.lenSym(x.Call.Args[1]) {
				return aff{0, 1}, true
			}
			if k, ok := staticLen(x.Call.Args[1]); ok {
				return aff{k, 0}, true
			}
		}
		if n == "len" {
			if bi.lenSym != nil && bi.lenSym(x.Call.Args[0]) {
				return aff{0, 1}, true
			}
			if k, ok := staticLen(x.Call.Args[0]); ok {
				return aff{k, 0}, true
			}
		}
	case *ssa.Convert:
		return bi.affine(x.X)
	case *ssa.Phi:
		var vals []aff
		for _, e := range x.Edges {
			a, ok := bi.affine(e)
			if !ok {
				return aff{}, false
			}
			vals = append(vals, a)
		}
		all := true
		for _, a := range vals {
			if a != vals[0] {
				all = false
			}
		}
		if all && len(vals) > 0 {
			return vals[0], true
		}
		// {c, c+L} joined under a guard `len(payload) > 0` (or != 0): c == c+L when L == 0
		if len(vals) == 2 && vals[0].c == vals[1].c && ((vals[0].k == 0 && vals[1].k == 1) || (vals[0].k == 1 && vals[1].k == 0)) {
			for _, p := range x.Block().Preds {
				if iff := blockIf(p); iff != nil {
					if b, ok := iff.Cond.(*ssa.BinOp); ok && (b.Op == token.GTR || b.Op == token.NEQ) {
						if a, ok := bi.affine(b.X); ok && a == (aff{0, 1}) {
							if z, ok := constInt(b.Y); ok && z == 0 {
								return aff{vals[0].c, 1}, true
							}
						}
					}
				}
			}
		}
	}
	return aff{}, false
}

// staticLen: statically known length of an array-backed slice value (e.g. sig[:] of a [6]byte).
func staticLen(v ssa.Value) (int, bool) {
	switch x := v.(type) {
	case *ssa.Slice:
		t := x.X.Type()
		if p, ok := t.Underlying().(*types.Pointer); ok {
			if arr, ok := p.Elem().Underlying().(*types.Array); ok {
				lo, hi := 0, int(arr.Len())
				if x.Low != nil {
					k, ok := constInt(x.Low)
					if !ok {
						return 0, false
					}
					lo = int(k)
				}
				if x.High != nil {
					k, ok := constInt(x.High)
					if !ok {
						return 0, false
					}
					hi = int(k)
				}
				return hi - lo, true
			}
		}
		// slice of slice with constant bounds
		if x.Low != nil && x.High != nil {
			lo, ok1 := constInt(x.Low)
			hi, ok2 := constInt(x.High)
			if ok1 && ok2 {
				return int(hi - lo), true
			}
		}
		if x.High != nil && x.Low == nil {
			if hi, ok := constInt(x.High); ok {
				return int(hi), true
			}
		}
	case *ssa.MakeSlice:
		if k, ok := constInt(x.Len); ok {
			return int(k), true
		}
	}
	return 0, false
}

// bufRef resolves a slice / pointer value to (root buffer, base offset).
func (bi *bufInterp) bufRef(v ssa.Value) (ssa.Value, aff, bool) {
	switch x := v.(type) {
	case *ssa.Parameter:
		if isByteSlice(x.Type()) {
			return x, aff{}, true
		}
	case *ssa.Alloc:
		if isByteArrayPtr(x.Type()) {
			return x, aff{}, true
		}
	case *ssa.MakeSlice:
		if isByteSlice(x.Type()) {
			return x, aff{}, true
		}
	case *ssa.Slice:
		root, base, ok := bi.bufRef(x.X)
		if !ok {
			return nil, aff{}, false
		}
		if x.Low == nil {
			return root, base, true
		}
		lo, ok := bi.affine(x.Low)
		if !ok {
			return nil, aff{}, false
		}
		return root, aff{base.c + lo.c, base.k + lo.k}, true
	}
	return nil, aff{}, false
}

func isByteSlice(t types.Type) bool {
	s, ok := t.Underlying().(*types.Slice)
	if !ok {
		return false
	}
	b, ok := s.Elem().Underlying().(*types.Basic)
	return ok && b.Kind() == types.Uint8
}

func isByteArrayPtr(t types.Type) bool {
	p, ok := t.Underlying().(*types.Pointer)
	if !ok {
		return false
	}
	a, ok := p.Elem().Underlying().(*types.Array)
	if !ok {
		return false
	}
	b, ok := a.Elem().Underlying().(*types.Basic)
	return ok && b.Kind() == types.Uint8
}

func intWidth(t types.Type) int {
	b, ok := t.Underlying().(*types.Basic)
	if !ok {
		return 0
	}
	switch b.Kind() {
	case types.Uint8, types.Int8:
		return 1
	case types.Uint16, types.Int16:
		return 2
	case types.Uint32, types.Int32:
		return 4
	case types.Uint64, types.Int64, types.Int, types.Uint, types.Uintptr:
		return 8
	}
	return 0
}

// byteOf: symbolic byte k of integer value v (peels shifts by multiples of 8 and conversions that
// preserve the addressed byte).
func (bi *bufInterp) byteOf(v ssa.Value, k int) string {
	for i := 0; i < 8; i++ {
		switch x := v.(type) {
		case *ssa.Convert:
			from, to := intWidth(x.X.Type()), intWidth(x.Type())
			if from == 0 || to == 0 {
				return "B(" + bi.norm(ex(v)) + "," + fmt.Sprint(k) + ")"
			}
			if k >= to {
				return "const:0" // beyond the width of the converted value (zero extension of unsigned)
			}
			if k >= from {
				// widening: bytes above the source width are zero for unsigned sources
				if b, ok := x.X.Type().Underlying().(*types.Basic); ok && b.Info()&types.IsUnsigned != 0 {
					return "const:0"
				}
				return "B(" + bi.norm(ex(v)) + "," + fmt.Sprint(k) + ")"
			}
			v = x.X
			continue
		case *ssa.BinOp:
			if x.Op == token.SHR {
				if s, ok := constInt(x.Y); ok && s%8 == 0 {
					k += int(s / 8)
					v = x.X
					continue
				}
			}
		case *ssa.Const:
			if c, ok := constInt(x); ok {
				return fmt.Sprintf("const:%d", (uint64(c)>>(8*uint(k)))&0xFF)
			}
		}
		break
	}
	if intWidth(v.Type()) == 1 && k == 0 {
		if c, ok := constInt(v); ok {
			return fmt.Sprintf("const:%d", c&0xFF)
		}
		return "V(" + bi.norm(ex(v)) + ")"
	}
	if w := intWidth(v.Type()); w > 0 && k >= w {
		return "const:0"
	}
	return "B(" + bi.norm(ex(v)) + "," + fmt.Sprint(k) + ")"
}

func (bi *bufInterp) put(root ssa.Value, cl cell) { bi.cells[root] = append(bi.cells[root], cl) }

// condOf: the conjunction of If conditions whose specific edge must be traversed to reach b
// (only conditions that are not trivially about lengths are kept by the caller).
func (bi *bufInterp) condOf(b *ssa.BasicBlock) string {
	if s, ok := bi.conds[b]; ok {
		return s
	}
	var parts []string
	for _, iff := range ifsIn(bi.fn) {
		if iff.Block() == b {
			continue
		}
		t := edgeMustPass(bi.fn, edge{iff.Block(), iff.Block().Succs[0]}, b)
		f := edgeMustPass(bi.fn, edge{iff.Block(), iff.Block().Succs[1]}, b)
		if t && !f {
			parts = append(parts, canonEdgeCond(iff, 0, bi.norm))
		} else if f && !t {
			parts = append(parts, canonEdgeCond(iff, 1, bi.norm))
		}
	}
	sort.Strings(parts)
	s := strings.Join(parts, " && ")
	bi.conds[b] = s
	return s
}

// helperSummary: for an encode helper f(buf []byte, v uintN) that only does buf[i] = byte(v >> s),
// the cells of buf in terms of parameter 1.
func (bi *bufInterp) helperSummary(f *ssa.Function) ([]cell, bool) {
	if s, ok := bi.helpers[f]; ok {
		return s, s != nil
	}
	bi.helpers[f] = nil
	if f.Blocks == nil || len(f.Params) != 2 || !isByteSlice(f.Params[0].Type()) || intWidth(f.Params[1].Type()) == 0 || f.Signature.Results().Len() != 0 {
		return nil, false
	}
	sub := newBufInterp(bi.c, f, nil, nil)
	sub.run()
	if len(sub.undec) > 0 {
		return nil, false
	}
	cs := sub.cells[f.Params[0]]
	if len(cs) == 0 {
		return nil, false
	}
	bi.helpers[f] = cs
	return cs, true
}

// run interprets every instruction of fn (blocks in index order; the analysed functions are acyclic).
func (bi *bufInterp) run() {
	for _, b := range bi.fn.Blocks {
		if b == bi.fn.Recover {
			continue
		}
		for _, in := range b.Instrs {
			switch x := in.(type) {
			case *ssa.Store:
				ia, ok := x.Addr.(*ssa.IndexAddr)
				if !ok {
					continue
				}
				root, base, ok := bi.bufRef(ia.X)
				if !ok {
					continue
				}
				idx, ok := bi.affine(ia.Index)
				if !ok {
					bi.undec = append(bi.undec, "store at non-affine index "+ex(ia.Index)+" ("+bi.c.Pos(x.Pos())+")")
					continue
				}
				bi.put(root, cell{off: aff{base.c + idx.c, base.k + idx.k}, val: bi.byteOf(x.Val, 0), n: aff{1, 0}, cond: bi.condOf(b), pos: x.Pos()})
			case *ssa.Call:
				bi.call(x, b)
			}
		}
	}
}

func (bi *bufInterp) call(x *ssa.Call, b *ssa.BasicBlock) {
	n := calleeName(&x.Call)
	args := x.Call.Args
	switch {
	case n == "copy":
		root, base, ok := bi.bufRef(args[0])
		if !ok {
			return
		}
		var ln aff
		if bi.lenSym != nil && bi.lenSym(args[1]) {
			ln = aff{0, 1}
		} else if k, ok := staticLen(args[1]); ok {
			ln = aff{k, 0}
		} else {
			bi.undec = append(bi.undec, "copy of a source with unknown length "+ex(args[1])+" ("+bi.c.Pos(x.Pos())+")")
			return
		}
		bi.put(root, cell{off: base, val: "run(" + bi.norm(strings.TrimSuffix(ex(args[1]), "[:]")) + ")", n: ln, cond: bi.condOf(b), pos: x.Pos()})
	case strings.HasPrefix(n, "(binary.littleEndian).PutUint") || strings.HasPrefix(n, "(binary.bigEndian).PutUint"):
		w := map[string]int{"16": 2, "32": 4, "64": 8}[n[len(n)-2:]]
		root, base, ok := bi.bufRef(args[1])
		if !ok || w == 0 {
			return
		}
		for i := 0; i < w; i++ {
			k := i
			if strings.Contains(n, "bigEndian") {
				k = w - 1 - i
			}
			bi.put(root, cell{off: aff{base.c + i, base.k}, val: bi.byteOf(args[2], k), n: aff{1, 0}, cond: bi.condOf(b), pos: x.Pos()})
		}
	case n == "(x25.X25).Write" || (x.Call.IsInvoke() && x.Call.Method.Name() == "Write" && strings.Contains(typeStr(x.Call.Value.Type()), "hash.Hash")):
		var h ssa.Value
		var data ssa.Value
		if x.Call.IsInvoke() {
			h, data = x.Call.Value, args[0]
		} else {
			h, data = args[0], args[1]
		}
		bi.emit(h, data, x, b)
	default:
		if f := x.Call.StaticCallee(); f != nil && len(args) == 2 {
			if root, base, ok := bi.bufRef(args[0]); ok {
				if cs, ok := bi.helperSummary(f); ok {
					for _, hc := range cs {
						// substitute arg1 by the actual argument: re-derive the byte index from the helper's symbolic byte
						k := -1
						fmt.Sscanf(hc.val, "B(arg1,%d)", &k)
						if hc.val == "V(arg1)" {
							k = 0
						}
						if k < 0 {
							bi.undec = append(bi.undec, "helper "+funcName(f)+" stores "+hc.val)
							continue
						}
						bi.put(root, cell{off: aff{base.c + hc.off.c, base.k}, val: bi.byteOf(args[1], k), n: aff{1, 0}, cond: bi.condOf(b), pos: x.Pos()})
					}
					return
				}
				// an unknown function receives the buffer
				if f.Pkg != nil && strings.HasPrefix(f.Pkg.Pkg.Path(), modPath) {
					bi.undec = append(bi.undec, "buffer passed to "+funcName(f)+" whose effect is not summarised ("+bi.c.Pos(x.Pos())+")")
				}
			}
		}
	}
}

// emit appends the symbolic content of slice `data` to the byte stream fed to hash object h.
func (bi *bufInterp) emit(h, data ssa.Value, at *ssa.Call, b *ssa.BasicBlock) {
	hk := hashKey(h)
	root, base, ok := bi.bufRef(data)
	if !ok {
		// a slice that is not a tracked local buffer: a run of its bytes
		s := ex(data)
		s = strings.TrimSuffix(s, "[:]")
		bi.emits[hk] = append(bi.emits[hk], cell{val: "run(" + bi.norm(s) + ")", n: aff{0, 1}, cond: bi.condOf(b), pos: at.Pos()})
		return
	}
	// determine [lo, hi)
	lo := base
	hi := -1
	if sl, ok := data.(*ssa.Slice); ok && sl.High != nil {
		if k, ok := constInt(sl.High); ok {
			// High is relative to sl.X's base
			_, xb, _ := bi.bufRef(sl.X)
			hi = xb.c + int(k)
		}
	}
	if hi < 0 {
		if k, ok := bufLen(root); ok {
			hi = k
		}
	}
	if hi < 0 || lo.k != 0 {
		bi.undec = append(bi.undec, "hash input slice with unknown bounds ("+bi.c.Pos(at.Pos())+")")
		return
	}
	for off := lo.c; off < hi; off++ {
		val := "const:0" // fresh arrays / make are zero-initialised
		if _, isParam := root.(*ssa.Parameter); isParam {
			val = "unknown"
		}
		// last store before this point wins
		for _, cl := range bi.cells[root] {
			if cl.off == (aff{off, 0}) {
				val = cl.val
			}
		}
		bi.emits[hk] = append(bi.emits[hk], cell{val: val, n: aff{1, 0}, cond: bi.condOf(b), pos: at.Pos()})
	}
}

func hashKey(h ssa.Value) ssa.Value {
	// the hash object: result of x25.New() / sha256.New(); peel loads
	return h
}

func bufLen(root ssa.Value) (int, bool) {
	switch x := root.(type) {
	case *ssa.Alloc:
		if a, ok := x.Type().Underlying().(*types.Pointer).Elem().Underlying().(*types.Array); ok {
			return int(a.Len()), true
		}
	case *ssa.MakeSlice:
		if k, ok := constInt(x.Len); ok {
			return int(k), true
		}
	}
	return 0, false
}

// layoutString renders the final content of a buffer as "off:val[@cond]" entries sorted by offset.
func layoutOf(cells []cell) []string {
	cs := append([]cell{}, cells...)
	sort.SliceStable(cs, func(i, j int) bool {
		if cs[i].off.k != cs[j].off.k {
			return cs[i].off.k < cs[j].off.k
		}
		return cs[i].off.c < cs[j].off.c
	})
	var out []string
	for _, cl := range cs {
		s := cl.off.String() + ":" + cl.val
		if cl.n != (aff{1, 0}) {
			s += "*" + cl.n.String()
		}
		if cl.cond != "" {
			s += " @" + cl.cond
		}
		out = append(out, s)
	}
	return out
}

func seqOf(cells []cell) []string {
	var out []string
	for _, cl := range cells {
		out = append(out, cl.val)
	}
	return out
}

// ---------------------------------------------------------------------------------------------
// Decoder shift tables: value = OR_i  T(buf[i]) << s_i
// ---------------------------------------------------------------------------------------------

// orTerms decomposes v into index->shift for terms `conv(buf[i]) << s` OR-ed together, where buf is the
// value `bufMatch` accepts. Returns ok=false on any other shape.
func orTerms(v ssa.Value, bufMatch func(ssa.Value) bool) (map[int]int, bool) {
	out := map[int]int{}
	var rec func(v ssa.Value) bool
	// multi: a (possibly converted) binary.{Little,Big}Endian.UintNN(buf[base:]) read, shifted left by sh bits
	multi := func(v ssa.Value, sh int) bool {
		for {
			cv, ok := v.(*ssa.Convert)
			if !ok {
				break
			}
			v = cv.X
		}
		x, ok := v.(*ssa.Call)
		if !ok {
			return false
		}
		n := calleeName(&x.Call)
		big := strings.HasPrefix(n, "(binary.bigEndian).Uint")
		if !(strings.HasPrefix(n, "(binary.littleEndian).Uint") || big) || len(x.Call.Args) != 2 {
			return false
		}
		w := map[string]int{"16": 2, "32": 4, "64": 8}[n[len(n)-2:]]
		arg, base, okB := sliceBase(x.Call.Args[1])
		if !okB || w == 0 || !bufMatch(arg) {
			return false
		}
		for i := 0; i < w; i++ {
			if _, dup := out[base+i]; dup {
				return false
			}
			if big {
				out[base+i] = sh + 8*(w-1-i)
			} else {
				out[base+i] = sh + 8*i
			}
		}
		return true
	}
	rec = func(v ssa.Value) bool {
		if cv, ok := v.(*ssa.Convert); ok {
			switch cv.X.(type) {
			case *ssa.BinOp, *ssa.Call, *ssa.Convert:
				return rec(cv.X)
			}
		}
		switch x := v.(type) {
		case *ssa.Call:
			if multi(x, 0) {
				return true
			}
			// a repo decode helper applied to (a re-slicing of) the buffer: its own table, shifted by the slice offset
			if f := x.Call.StaticCallee(); f != nil && f.Blocks != nil && len(f.Params) == 1 && len(x.Call.Args) == 1 && f.Signature.Results().Len() == 1 {
				arg, base, okB := sliceBase(x.Call.Args[0])
				rets := retInstrs(f)
				if okB && bufMatch(arg) && len(rets) == 1 {
					sub, okS := orTerms(rets[0].Results[0], func(v ssa.Value) bool { return v == ssa.Value(f.Params[0]) })
					if okS {
						for i, sh := range sub {
							if _, dup := out[base+i]; dup {
								return false
							}
							out[base+i] = sh
						}
						return true
					}
				}
			}
			return false
		case *ssa.BinOp:
			if x.Op == token.OR || x.Op == token.ADD {
				return rec(x.X) && rec(x.Y)
			}
			if x.Op == token.AND {
				// wide read masked down to fewer bytes: Uint64(b[0:8]) & 0x0000FFFFFFFFFFFF keeps bytes 0..5
				val, mk := x.X, x.Y
				if _, isC := val.(*ssa.Const); isC {
					val, mk = mk, val
				}
				mc, isC := mk.(*ssa.Const)
				if !isC || mc.Value == nil {
					return false
				}
				mask, exact := constant.Uint64Val(constant.ToInt(mc.Value))
				if !exact {
					return false
				}
				sub, okS := orTerms(val, bufMatch)
				if !okS {
					return false
				}
				for i, sh := range sub {
					if sh < 0 || sh > 56 {
						return false
					}
					bits := uint64(0xFF) << uint(sh)
					switch mask & bits {
					case bits:
						if _, dup := out[i]; dup {
							return false
						}
						out[i] = sh
					case 0:
						// masked away entirely
					default:
						return false
					}
				}
				return true
			}
			if x.Op == token.SHL {
				s, ok := constInt(x.Y)
				if !ok {
					return false
				}
				// shifted multi-byte read
				if intWidth(x.X.Type())*8 > int(s) && multi(x.X, int(s)) {
					return true
				}
				i, ok := byteIndex(x.X, bufMatch)
				if !ok {
					return false
				}
				if _, dup := out[i]; dup {
					return false
				}
				// the shift must happen in the wide type (a shift in uint8 loses the bits)
				if intWidth(x.X.Type())*8 <= int(s) {
					out[i] = -1
					return true
				}
				out[i] = int(s)
				return true
			}
		default:
			i, ok := byteIndex(v, bufMatch)
			if !ok {
				return false
			}
			if _, dup := out[i]; dup {
				return false
			}
			out[i] = 0
			return true
		}
		return false
	}
	if !rec(v) {
		return nil, false
	}
	return out, true
}

func byteIndex(v ssa.Value, bufMatch func(ssa.Value) bool) (int, bool) {
	if c, ok := v.(*ssa.Convert); ok {
		v = c.X
	}
	u, ok := v.(*ssa.UnOp)
	if !ok || u.Op != token.MUL {
		return 0, false
	}
	ia, ok := u.X.(*ssa.IndexAddr)
	if !ok {
		return 0, false
	}
	base, off, ok := sliceBase(ia.X)
	if !ok || !bufMatch(base) {
		return 0, false
	}
	k, ok := constInt(ia.Index)
	return off + int(k), ok
}

// sliceBase peels constant-offset re-slicings: x[a:][b:] → (x, a+b).
func sliceBase(v ssa.Value) (ssa.Value, int, bool) {
	off := 0
	for {
		sl, ok := v.(*ssa.Slice)
		if !ok {
			return v, off, true
		}
		if sl.Low != nil {
			k, ok := constInt(sl.Low)
			if !ok {
				return nil, 0, false
			}
			off += int(k)
		}
		v = sl.X
	}
}
