package main

import (
	"encoding/json"
	"fmt"
	"os"
	"path/filepath"
	"sort"
	"strings"
	"time"
)

// Status of an obligation.
const (
	StOK        = "ok"
	StViolation = "violation"
	StBroken    = "broken" // undecided / unresolved anchor / count below minimum: the check itself is broken
	StKnown     = "known-finding"
)

type Obligation struct {
	Rule      string `json:"rule"`
	Construct string `json:"construct"` // stable key: function / field / constant name, never a line
	Pos       string `json:"pos,omitempty"`
	Detail    string `json:"detail"`
	Status    string `json:"status"`
}

type Report struct {
	Prop        string
	Tier        string
	Obls        []Obligation
	RuleText    map[string]string // rule id -> rule text
	RuleMin     map[string]int    // rule id -> minimum number of obligations (no vacuous pass)
	Assumptions []string
	NotDecided  []string
	Packages    []string
	Functions   map[string]bool
	Exhaustive  bool
	Notes       []string
}

func NewReport(prop, tier string) *Report {
	return &Report{Prop: prop, Tier: tier, RuleText: map[string]string{}, RuleMin: map[string]int{}, Functions: map[string]bool{}}
}

func (r *Report) Rule(id, text string, min int) {
	r.RuleText[id] = text
	r.RuleMin[id] = min
}

func (r *Report) add(rule, construct, pos, detail, st string) {
	r.Obls = append(r.Obls, Obligation{Rule: rule, Construct: construct, Pos: pos, Detail: detail, Status: st})
}
func (r *Report) OK(rule, construct, pos, detail string) { r.add(rule, construct, pos, detail, StOK) }
func (r *Report) Fail(rule, construct, pos, detail string) {
	r.add(rule, construct, pos, detail, StViolation)
}
func (r *Report) Broken(rule, construct, detail string) { r.add(rule, construct, "", detail, StBroken) }

// Check records ok/violation depending on cond.
func (r *Report) Check(cond bool, rule, construct, pos, okDetail, failDetail string) bool {
	if cond {
		r.OK(rule, construct, pos, okDetail)
	} else {
		r.Fail(rule, construct, pos, failDetail)
	}
	return cond
}

type KnownFinding struct {
	Status    string `json:"status"` // open | fixed
	Property  string `json:"property"`
	Rule      string `json:"rule"`
	Construct string `json:"construct"`
	What      string `json:"what"`
	Commit    string `json:"commit,omitempty"`
}

func loadKnown(path string) ([]KnownFinding, error) {
	b, err := os.ReadFile(path)
	if err != nil {
		if os.IsNotExist(err) {
			return nil, nil
		}
		return nil, err
	}
	var k []KnownFinding
	if err := json.Unmarshal(b, &k); err != nil {
		return nil, err
	}
	return k, nil
}

// Finish applies minimum counts and known findings, writes evidence and violation files, prints the
// contract lines and returns the exit code.
func (r *Report) Finish(verifDir string, seed int64, start time.Time) int {
	// minimum instance counts: a rule that matches fewer sites than confirmed by hand is broken.
	counts := map[string]int{}
	for _, o := range r.Obls {
		counts[o.Rule]++
	}
	var ruleIDs []string
	for id := range r.RuleText {
		ruleIDs = append(ruleIDs, id)
	}
	sort.Strings(ruleIDs)
	for _, id := range ruleIDs {
		if counts[id] < r.RuleMin[id] {
			r.Broken(id, "instance-count", fmt.Sprintf("rule matched %d sites, fewer than the %d confirmed on the reference tree (vacuous pass refused)", counts[id], r.RuleMin[id]))
		}
	}
	known, err := loadKnown(filepath.Join(verifDir, "known_findings.json"))
	if err != nil {
		r.Broken("known-findings", "known_findings.json", err.Error())
	}
	for i := range r.Obls {
		o := &r.Obls[i]
		if o.Status != StViolation {
			continue
		}
		for _, k := range known {
			if k.Status == "open" && k.Property == r.Prop && k.Rule == o.Rule && k.Construct == o.Construct {
				o.Status = StKnown
			}
		}
	}
	nOK, nViol, nBroken, nKnown := 0, 0, 0, 0
	distinct := map[string]bool{}
	for _, o := range r.Obls {
		switch o.Status {
		case StOK:
			nOK++
		case StViolation:
			nViol++
		case StBroken:
			nBroken++
		case StKnown:
			nKnown++
		}
		if o.Rule != "anchor" {
			distinct[o.Rule+"|"+o.Construct] = true
		}
	}
	// evidence
	var samples []Obligation
	perRule := map[string]int{}
	for _, o := range r.Obls {
		if o.Status != StOK || perRule[o.Rule] < 2 {
			if len(samples) < 60 || o.Status != StOK {
				samples = append(samples, o)
			}
			perRule[o.Rule]++
		}
	}
	var rulesOut []map[string]interface{}
	for _, id := range ruleIDs {
		rulesOut = append(rulesOut, map[string]interface{}{"id": id, "text": r.RuleText[id], "sites": counts[id], "min_sites": r.RuleMin[id]})
	}
	var fns []string
	for f := range r.Functions {
		fns = append(fns, f)
	}
	sort.Strings(fns)
	var expl []string
	for _, id := range ruleIDs {
		expl = append(expl, id+": "+r.RuleText[id])
	}
	assumptions := append([]string{}, r.Assumptions...)
	for _, nd := range r.NotDecided {
		assumptions = append(assumptions, "NOT DECIDED by this check: "+nd)
	}
	assumptions = append(assumptions, "trusted base: Go type checker, golang.org/x/tools v0.29.0 SSA construction, contracts of bufio/encoding/binary/crypto/sha256/strconv/sync/net/context")
	ev := map[string]interface{}{
		"property_id": r.Prop,
		"tier":        r.Tier,
		"seed":        seed,
		"level":       "other",
		"coverage": map[string]interface{}{
			"explanation": "Static analysis of /repo's current working tree (go/packages + go/types + go/ssa; no gomavlib code is executed). " +
				"Each rule is a structural necessary condition of the property, decided on every path / call site of the resolved program. Rules: " + strings.Join(expl, " || "),
			"exhaustive":          r.Exhaustive,
			"evaluations":         len(r.Obls),
			"distinct_nontrivial": len(distinct),
			"rule":                "one evaluation = one obligation (rule instance at a resolved construct: function, call site, field, constant, select statement); distinct = distinct (rule, construct) pairs, anchors excluded",
			"obligations":         len(r.Obls),
			"discharged":          nOK,
			"known_findings":      nKnown,
			"broken":              nBroken,
			"samples":             samples,
			"rules":               rulesOut,
			"packages_analysed":   r.Packages,
			"functions_analysed":  fns,
			"notes":               r.Notes,
		},
		"assumptions": assumptions,
		"wall_s":      time.Since(start).Seconds(),
		"violations":  nViol,
	}
	os.MkdirAll(filepath.Join(verifDir, "evidence"), 0o755)
	os.MkdirAll(filepath.Join(verifDir, "out"), 0o755)
	b, _ := json.MarshalIndent(ev, "", " ")
	if err := os.WriteFile(filepath.Join(verifDir, "evidence", r.Prop+".json"), b, 0o644); err != nil {
		fmt.Printf("CHECK-BROKEN: property=%s cannot write evidence: %v\n", r.Prop, err)
		return 2
	}
	fmt.Printf("gmvcheck property=%s tier=%s obligations=%d ok=%d known=%d violations=%d broken=%d rules=%d wall=%.1fs\n",
		r.Prop, r.Tier, len(r.Obls), nOK, nKnown, nViol, nBroken, len(ruleIDs), time.Since(start).Seconds())
	for _, o := range r.Obls {
		if o.Status == StKnown {
			fmt.Printf("KNOWN-FINDING: property=%s %s %s %s (%s)\n", r.Prop, o.Rule, o.Construct, o.Detail, o.Pos)
		}
	}
	violFile := filepath.Join(verifDir, "out", r.Prop+".violation.json")
	os.Remove(violFile)
	if nBroken > 0 {
		for _, o := range r.Obls {
			if o.Status == StBroken {
				fmt.Printf("CHECK-BROKEN: property=%s [%s] %s: %s\n", r.Prop, o.Rule, o.Construct, o.Detail)
			}
		}
	}
	if nViol > 0 {
		var v []Obligation
		for _, o := range r.Obls {
			if o.Status == StViolation {
				v = append(v, o)
				fmt.Printf("%s: [%s] %s: %s\n", o.Pos, o.Rule, o.Construct, o.Detail)
			}
		}
		vb, _ := json.MarshalIndent(map[string]interface{}{"property": r.Prop, "tier": r.Tier, "violations": v}, "", " ")
		os.WriteFile(violFile, vb, 0o644)
		fmt.Printf("VIOLATION property=%s replay=%s\n", r.Prop, violFile)
		return 1
	}
	if nBroken > 0 {
		return 2
	}
	return 0
}

// borrowRules runs another property's rule set on the same loaded program and takes over the obligations of the
// listed rules under this property's own rule ids (from → to). A rule is borrowed when it is a necessary condition
// of both properties (e.g. the emit-buffer capacity rule of the wire format is also necessary for a full-size
// signed frame to be written with its whole signature); the rule text says where it comes from.
func borrowRules(c *Ctx, fromProp string, run func(*Ctx), mapping map[string]string, why string) {
	saved := c.R
	sub := NewReport(saved.Prop, saved.Tier)
	c.R = sub
	func() {
		defer func() { c.R = saved }()
		run(c)
	}()
	for from, to := range mapping {
		txt, ok := sub.RuleText[from]
		if !ok {
			saved.Broken(to, "borrowed rule", "rule "+from+" of "+fromProp+" was not produced")
			continue
		}
		saved.Rule(to, "(= "+from+" of "+fromProp+"; "+why+") "+txt, sub.RuleMin[from])
	}
	for _, o := range sub.Obls {
		if to, ok := mapping[o.Rule]; ok {
			o.Rule = to
			saved.Obls = append(saved.Obls, o)
		}
	}
}
