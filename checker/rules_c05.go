package main

import (
	"fmt"
	"go/token"
	"go/types"
	"sort"
	"strings"

	"golang.org/x/tools/go/ssa"
)

func init() { register("C05", []string{"./pkg/frame", "./pkg/tlog"}, runC05) }

func inPkg(fn *ssa.Function, suffix string) bool {
	p := fn
	for p.Parent() != nil {
		p = p.Parent()
	}
	return p.Pkg != nil && strings.HasSuffix(p.Pkg.Pkg.Path(), suffix)
}

// consuming calls on the byte stream
func isConsuming(n string) bool {
	switch n {
	case "(bufio.Reader).ReadByte", "frame.peekAndDiscard", "io.ReadFull", "(bufio.Reader).Discard", "(bufio.Reader).Read", "(bufio.Reader).Peek":
		return true
	}
	return false
}

func runC05(c *Ctx) {
	r := c.R
	defer ruleReadErrorsPropagate(c, "R5.9")
	defer rulePayloadOwnership(c, "R5.10", "C05: every frame returned corresponds to the bytes consumed for that call, also after later calls")
	r.NotDecided = append(r.NotDecided,
		"absence of panics in general and independence from the segmentation as observed behaviours: they follow from R5.1/R5.2/R5.5/R5.8 plus bufio's and io.ReadFull's contracts, which are trusted, not analysed",
		"the n+1 call bound as an observation")
	rd := c.Fn("pkg/frame", "Reader.Read")
	if rd == nil {
		return
	}
	r.Functions[fnQual(rd)] = true

	// R5.1
	r.Rule("R5.1", "Reader.Read: the ReadByte of the marker dominates every return; its error is returned unchanged (the only error that is not a ReadError, so the channel reader stops only on transport errors); "+
		"every other return lies on its success edge, hence at least one byte is consumed per call that does not report a transport error; every other error return is a ReadError built by newError", 3)
	rbs := callsNamed(rd, "(bufio.Reader).ReadByte")
	if len(rbs) != 1 {
		r.Fail("R5.1", "Reader.Read marker read", c.Pos(rd.Pos()), fmt.Sprintf("%d ReadByte calls, expected one", len(rbs)))
		return
	}
	rb := rbs[0].(*ssa.Call)
	var rbErr ssa.Value
	for _, rf := range *rb.Referrers() {
		if e, ok := rf.(*ssa.Extract); ok && e.Index == 1 {
			rbErr = e
		}
	}
	okDom, okRaw, okRE := true, false, true
	nRE := 0
	for _, ret := range retInstrs(rd) {
		if ret.Block() == rd.Recover {
			continue
		}
		if !instrDominates(rb, ret) {
			okDom = false
		}
		if len(ret.Results) != 2 {
			continue
		}
		ev := ret.Results[1]
		switch {
		case isNilConst(ev):
		case ev == rbErr:
			okRaw = true
		default:
			mi, isMI := ev.(*ssa.MakeInterface)
			call, isCall := ssa.Value(nil), false
			if isMI {
				call, isCall = mi.X, true
			}
			if cc, ok := call.(*ssa.Call); isCall && ok && calleeName(&cc.Call) == "frame.newError" {
				nRE++
			} else {
				okRE = false
			}
		}
	}
	r.Check(okDom, "R5.1", "Reader.Read progress", c.Pos(rb.Pos()), "marker ReadByte dominates every return", "a return of Reader.Read is reachable without consuming the marker byte: no progress on that path")
	r.Check(okRaw, "R5.1", "Reader.Read transport error", c.Pos(rb.Pos()), "transport error of the marker read returned unchanged", "the error of the marker ReadByte is not returned unchanged (wrapping it in a ReadError makes the channel reader spin forever on EOF)")
	r.Check(okRE && nRE >= 7, "R5.1", "Reader.Read parse errors", c.Pos(rd.Pos()), fmt.Sprintf("%d non-fatal error returns, all ReadError", nRE), "an error return after the marker is not a frame.ReadError (a non-fatal parse error would close the channel)")
	// the unmarshal error must be converted, never returned raw
	um := callsIn(rd, func(n string, cc *ssa.CallCommon) bool { return cc.IsInvoke() && cc.Method.Name() == "unmarshal" })
	if len(um) == 1 {
		raw := false
		for _, ret := range retInstrs(rd) {
			if len(ret.Results) == 2 && ret.Results[1] == ssa.Value(um[0].(*ssa.Call)) {
				raw = true
			}
		}
		r.Check(!raw, "R5.1", "Reader.Read unmarshal error", c.Pos(um[0].Pos()), "truncated-frame errors are reported as ReadError", "the unmarshal error is returned raw")
	}

	// R5.2 consumption primitives
	r.Rule("R5.2", "in pkg/frame and pkg/tlog the byte stream is consumed only through ReadByte, Peek(n)+Discard(n) with the same n (Discard on Peek's success edge) and io.ReadFull; "+
		"a plain Read on the bufio.Reader / io.Reader (short reads: results would depend on the segmentation) is a violation", 4)
	nSites := 0
	for _, fn := range c.AllFns {
		if !inPkg(fn, "pkg/frame") && !inPkg(fn, "pkg/tlog") {
			continue
		}
		for _, ci := range callsIn(fn, func(n string, cc *ssa.CallCommon) bool { return true }) {
			cc := ci.Common()
			n := calleeName(cc)
			key := fnLocalName(fn) + " " + n
			switch {
			case n == "(bufio.Reader).Read" || n == "(bufio.Reader).ReadString" || n == "(bufio.Reader).ReadBytes" || n == "(bufio.Reader).ReadSlice" || n == "(bufio.Reader).ReadLine" || n == "(bufio.Reader).WriteTo",
				cc.IsInvoke() && cc.Method.Name() == "Read" && strings.Contains(typeStr(cc.Value.Type()), "io.Reader"):
				nSites++
				r.Fail("R5.2", key, c.Pos(ci.Pos()), "the stream is consumed with a short-read primitive ("+n+"): a frame split across transport reads is mis-parsed")
			case n == "(bufio.Reader).Buffered":
				nSites++
				r.Fail("R5.2", key, c.Pos(ci.Pos()), "the parser looks at how many bytes the bufio window happens to hold (Buffered()): what it does then depends on how the transport segmented the stream")
			case n == "(bufio.Reader).ReadByte" || n == "io.ReadFull":
				nSites++
				r.OK("R5.2", key, c.Pos(ci.Pos()), "exact-length primitive")
			case n == "(bufio.Reader).Discard":
				nSites++
				// same n as a Peek whose success edge dominates
				ok := false
				for _, pk := range callsNamed(fn, "(bufio.Reader).Peek") {
					pc := pk.(*ssa.Call)
					sameSize := pc.Call.Args[1] == cc.Args[1]
					if k1, ok1 := constInt(pc.Call.Args[1]); ok1 {
						if k2, ok2 := constInt(cc.Args[1]); ok2 && k1 == k2 {
							sameSize = true
						}
					}
					if pc.Call.Args[0] != cc.Args[0] || !sameSize {
						continue
					}
					for _, iff := range ifsIn(fn) {
						b, isB := iff.Cond.(*ssa.BinOp)
						if !isB || b.Op != token.NEQ || !isNilConst(b.Y) {
							continue
						}
						if e, isE := b.X.(*ssa.Extract); isE && e.Tuple == ssa.Value(pc) && e.Index == 1 {
							if edgeMustPass(fn, edge{iff.Block(), iff.Block().Succs[1]}, ci.Block()) {
								ok = true
							}
						}
					}
				}
				r.Check(ok, "R5.2", key, c.Pos(ci.Pos()), "Discard(n) after a successful Peek(n) of the same n on the same reader", "Discard is not paired with a successful Peek of the same size on the same reader: bytes are skipped or re-read")
			}
		}
	}

	// R5.3 consumed = parsed
	r.Rule("R5.3", "bytes consumed per frame by unmarshal (marker + header + payload + checksum [+ signature]) equal the length the writer emits for the same frame (R1.1's returned length)", 2)
	for _, v := range []struct {
		fn  string
		w   string
		sum int
	}{{"V1Frame", "8+L", 8}, {"V2Frame", "12+L", 12}} {
		um := c.Fn("pkg/frame", v.fn+".unmarshal")
		mt := c.Fn("pkg/frame", v.fn+".marshalTo")
		if um == nil || mt == nil {
			continue
		}
		total := int64(1)
		if np, nr := len(callsNamed(um, "frame.peekAndDiscard", "(bufio.Reader).Peek")), len(callsNamed(um, "io.ReadFull")); np < 2 || nr != 1 {
			if nr == 0 && np >= 3 {
				r.Fail("R5.3", v.fn+" consumed vs written", c.Pos(um.Pos()), "the payload is not read with io.ReadFull into a buffer of its own but peeked: a Peek of up to 255 bytes fails with ErrBufferFull on small user-supplied readers and the bytes it returns do not survive the next read")
				continue
			}
			r.Broken("R5.3", v.fn+" consumed vs written", fmt.Sprintf("consumption idiom not understood (%d peekAndDiscard, %d io.ReadFull)", np, nr))
			continue
		}
		for i, p := range callsNamed(um, "frame.peekAndDiscard", "(bufio.Reader).Peek") {
			k, _ := constInt(p.Common().Args[1])
			if i < 2 {
				total += k
			}
		}
		bi := newBufInterp(c, mt, payloadParam, normMsg)
		min := -1
		for _, ret := range retInstrs(mt) {
			if len(ret.Results) == 2 && isNilConst(ret.Results[1]) {
				vals := []ssa.Value{ret.Results[0]}
				if p, ok := ret.Results[0].(*ssa.Phi); ok {
					vals = p.Edges
				}
				for _, rv := range vals {
					if a, ok := bi.affine(rv); ok && a.k == 1 && (min < 0 || a.c < min) {
						min = a.c
					}
				}
			}
		}
		r.Check(int(total) == min && min == v.sum, "R5.3", v.fn+" consumed vs written", c.Pos(um.Pos()), fmt.Sprintf("reader consumes %d+L, writer emits %d+L", total, min),
			fmt.Sprintf("reader consumes %d+L bytes for an unsigned frame but the writer emits %d+L (spec %d+L): the stream desynchronises after this frame", total, min, v.sum))
	}

	// R5.4 resync
	r.Rule("R5.4", "on the path to the `invalid magic byte` return nothing but the marker byte is consumed, so a frame marker following junk is seen by the next call; no other rejection precedes unmarshal", 2)
	var badRet *ssa.Return
	nEarly := 0
	for _, ret := range retInstrs(rd) {
		if len(ret.Results) == 2 && !isNilConst(ret.Results[1]) && ret.Results[1] != rbErr && len(um) == 1 && !instrDominates(um[0], ret) {
			badRet = ret
			nEarly++
		}
	}
	// the unknown-marker return is the only rejection issued before the frame has been consumed: any other rejection
	// made with just the marker byte read (e.g. "this kind of frame will be refused anyway") leaves the rest of a
	// well-formed frame in the stream, where its payload bytes are rescanned for markers and can swallow later frames
	r.Check(nEarly <= 1, "R5.4", "Reader.Read early rejections", c.Pos(rd.Pos()), "only the unknown-marker rejection precedes unmarshal",
		fmt.Sprintf("%d error returns of Reader.Read are reachable before the frame has been consumed by unmarshal (only the unknown-marker one may be): a frame rejected with only its marker byte read desynchronises the stream", nEarly))
	if badRet == nil {
		r.Fail("R5.4", "Reader.Read invalid marker", c.Pos(rd.Pos()), "no error return for an unknown marker byte before unmarshal: junk bytes would be parsed as frames")
	} else {
		_, extra := pathExistsAvoiding(rb, func(in ssa.Instruction) bool { return in == badRet }, nil)
		consumed := false
		if extra {
			// any consuming call that can lie on a path rb -> badRet
			for _, ci := range callsIn(rd, func(n string, cc *ssa.CallCommon) bool {
				return isConsuming(n) || (cc.IsInvoke() && cc.Method.Name() == "unmarshal")
			}) {
				if ci != ssa.CallInstruction(rb) && reachInstr(rb, ci) && reachInstr(ci, badRet) {
					consumed = true
				}
			}
		}
		r.Check(!consumed, "R5.4", "Reader.Read invalid marker", c.Pos(badRet.Pos()), "exactly one byte skipped per unknown marker", "more than the marker byte is consumed before reporting an invalid marker: a valid frame right after junk is skipped")
	}

	// R5.5 / R5.7 / R5.8 over the unmarshal functions
	r.Rule("R5.5", "every constant index / slice bound applied to a buffer returned by peekAndDiscard(br, N) — directly or inside the decode helpers — is < N (≤ N for slice bounds): no index panic on any input", 3)
	r.Rule("R5.7", "no 8-bit arithmetic on bytes taken from the wire (e.g. length+2 computed in uint8 wraps for 254/255 and panics or desynchronises)", 2)
	r.Rule("R5.8", "the slice returned by Peek aliases bufio's internal buffer: no byte of it is read after a later consuming call on the same reader (a refill would have overwritten it, making results depend on the segmentation)", 2)
	for _, name := range []string{"V1Frame.unmarshal", "V2Frame.unmarshal"} {
		fn := c.Fn("pkg/frame", name)
		if fn == nil {
			continue
		}
		r.Functions[fnQual(fn)] = true
		peeks := callsNamed(fn, "frame.peekAndDiscard", "(bufio.Reader).Peek")
		allConsuming := callsIn(fn, func(n string, cc *ssa.CallCommon) bool { return isConsuming(n) })
		nIdx, bad55 := 0, ""
		bad58 := ""
		for _, p := range peeks {
			pc := p.(*ssa.Call)
			N, okN := constInt(pc.Call.Args[1])
			var buf ssa.Value
			for _, rf := range *pc.Referrers() {
				if e, ok := rf.(*ssa.Extract); ok && e.Index == 0 {
					buf = e
				}
			}
			if buf == nil || !okN {
				continue
			}
			// uses of buf
			var walk func(v ssa.Value, base int64)
			walk = func(v ssa.Value, base int64) {
				if v.Referrers() == nil {
					return
				}
				for _, u := range *v.Referrers() {
					// R5.8: the use must not come after a later consuming call
					for _, k := range callsIn(fn, func(n string, cc *ssa.CallCommon) bool { return isConsuming(n) }) {
						if k != ssa.CallInstruction(pc) && !harmlessDiscard(pc, k, allConsuming) && reachInstr(pc, k) && reachInstr(k, u) {
							if _, isSl := u.(*ssa.Slice); !isSl {
								if _, isIA := u.(*ssa.IndexAddr); !isIA {
									bad58 = fmt.Sprintf("%s uses bytes peeked at %s after the later read at %s", c.Pos(u.Pos()), c.Pos(pc.Pos()), c.Pos(k.Pos()))
								}
							}
						}
					}
					switch x := u.(type) {
					case *ssa.IndexAddr:
						nIdx++
						if k, ok := constInt(x.Index); ok {
							if base+k >= N {
								bad55 = fmt.Sprintf("index %d of a %d-byte peek at %s", base+k, N, c.Pos(x.Pos()))
							}
						} else {
							bad55 = "non-constant index into a peeked buffer at " + c.Pos(x.Pos())
						}
						// loads through this address after a later consuming call
						if x.Referrers() != nil {
							for _, ld := range *x.Referrers() {
								for _, k := range callsIn(fn, func(n string, cc *ssa.CallCommon) bool { return isConsuming(n) }) {
									if k != ssa.CallInstruction(pc) && !harmlessDiscard(pc, k, allConsuming) && reachInstr(pc, k) && reachInstr(k, ld) {
										bad58 = fmt.Sprintf("%s reads a byte peeked at %s after the later read at %s", c.Pos(ld.Pos()), c.Pos(pc.Pos()), c.Pos(k.Pos()))
									}
								}
							}
						}
					case *ssa.Slice:
						lo := int64(0)
						if x.Low != nil {
							k, ok := constInt(x.Low)
							if !ok {
								bad55 = "non-constant slice bound at " + c.Pos(x.Pos())
							}
							lo = k
						}
						if x.High != nil {
							if k, ok := constInt(x.High); !ok || base+k > N {
								bad55 = fmt.Sprintf("slice high bound beyond a %d-byte peek at %s", N, c.Pos(x.Pos()))
							}
						}
						if base+lo > N {
							bad55 = fmt.Sprintf("slice low bound %d beyond a %d-byte peek at %s", base+lo, N, c.Pos(x.Pos()))
						}
						walk(x, base+lo)
					case *ssa.Call:
						// helper receiving the (sub)slice: its max constant index
						if f := x.Call.StaticCallee(); f != nil && f.Blocks != nil && len(f.Params) >= 1 {
							mx := int64(-1)
							for _, in := range allInstrs(f) {
								if ia, ok := in.(*ssa.IndexAddr); ok && ia.X == ssa.Value(f.Params[0]) {
									if k, ok := constInt(ia.Index); ok && k > mx {
										mx = k
									}
								}
							}
							nIdx++
							if base+mx >= N {
								bad55 = fmt.Sprintf("%s reads index %d of a %d-byte peek (call at %s)", funcName(f), base+mx, N, c.Pos(x.Pos()))
							}
						} else if n := calleeName(&x.Call); n == "copy" {
							nIdx++
						} else if strings.HasPrefix(n, "(binary.littleEndian).Uint") {
							w := int64(map[string]int{"16": 2, "32": 4, "64": 8}[n[len(n)-2:]])
							nIdx++
							if base+w > N {
								bad55 = fmt.Sprintf("%s needs %d bytes at offset %d of a %d-byte peek", n, w, base, N)
							}
						}
					}
				}
			}
			walk(buf, 0)
		}
		r.Check(bad55 == "" && nIdx > 0, "R5.5", name+" peek indices", c.Pos(fn.Pos()), fmt.Sprintf("%d constant indices/bounds inside their peeked block", nIdx), "out-of-range access: "+bad55)
		if bad58 == "" {
			bad58 = peekLifetimeProblem(c, fn)
		}
		r.Check(bad58 == "", "R5.8", name+" peek lifetime", c.Pos(fn.Pos()), "peeked bytes are copied out before the next read", bad58)
		// R5.7
		bad57 := ""
		for _, in := range allInstrs(fn) {
			b, ok := in.(*ssa.BinOp)
			if !ok {
				continue
			}
			switch b.Op {
			case token.ADD, token.SUB, token.MUL, token.SHL:
			default:
				continue
			}
			if intWidth(b.Type()) != 1 {
				continue
			}
			if strings.Contains(ex(b), "peekAndDiscard") {
				bad57 = c.Pos(b.Pos()) + ": " + b.Op.String() + " in 8-bit arithmetic on a wire byte"
			}
		}
		r.Check(bad57 == "", "R5.7", name+" byte arithmetic", c.Pos(fn.Pos()), "wire bytes are widened before arithmetic", bad57)
	}
	// peekAndDiscard itself: Peek error returned; buffer returned is the peeked one
	if pd := c.FnOpt("pkg/frame", "peekAndDiscard"); pd == nil {
		// written out at its call sites: the pairing Peek(n) → success → Discard(n) is R5.2's obligation at each site
		r.OK("R5.5", "peekAndDiscard", "-", "no helper: Peek / Discard are written out in unmarshal (paired by R5.2)")
	} else {
		pk := callsNamed(pd, "(bufio.Reader).Peek")
		ok := len(pk) == 1 && ex(pk[0].Common().Args[0]) == "arg0" && ex(pk[0].Common().Args[1]) == "arg1"
		if ok {
			okRet := false
			for _, ret := range retInstrs(pd) {
				if len(ret.Results) == 2 && isNilConst(ret.Results[1]) {
					if e, isE := ret.Results[0].(*ssa.Extract); isE && e.Tuple == ssa.Value(pk[0].(*ssa.Call)) && e.Index == 0 {
						okRet = true
					}
				}
			}
			ok = okRet
		}
		r.Check(ok, "R5.5", "peekAndDiscard", c.Pos(pd.Pos()), "returns exactly the n peeked bytes of its reader", "peekAndDiscard does not return the n bytes it peeked from its reader argument")
	}

	ruleTlogReader(c, "R5.6")
}

// tlog reader (R5.6 / R20.4)
func ruleTlogReader(c *Ctx, rule string) {
	r := c.R
	r.Rule(rule, "tlog.Reader: the 8-byte stamp is read with io.ReadFull from the very bufio.Reader that is plumbed into the frame reader (no read-ahead is lost between entries); "+
		"an Entry is constructed only on the path where both the stamp read and the frame read returned nil; on error the returned entry is nil and the error is returned", 4)
	ini := c.Fn("pkg/tlog", "Reader.Initialize")
	rd := c.Fn("pkg/tlog", "Reader.Read")
	if ini == nil || rd == nil {
		return
	}
	r.Functions[fnQual(ini)] = true
	r.Functions[fnQual(rd)] = true
	// plumbing
	okPl := false
	got := ""
	for _, a := range litAllocs(ini, "frame.Reader") {
		lf := litFields(a)
		got = "BufByteReader=" + exOrNil(lf["BufByteReader"]) + " DialectRW=" + exOrNil(lf["DialectRW"])
		if exOrNil(lf["BufByteReader"]) == "recv.br" && exOrNil(lf["DialectRW"]) == "recv.DialectRW" && lf["ByteReader"] == nil {
			okPl = true
		}
	}
	brOK := false
	for _, fs := range c.fieldStoresAll(c.Field("pkg/tlog", "Reader", "br")) {
		if strings.HasPrefix(ex(fs.Store.Val), "bufio.NewReader") && strings.Contains(ex(fs.Store.Val), "recv.ByteReader") {
			brOK = true
		}
	}
	r.Check(okPl && brOK, rule, "tlog.Reader.Initialize plumbing", c.Pos(ini.Pos()), got, "the frame reader must share the tlog reader's bufio.Reader over the user's ByteReader (got "+got+"): a second buffer swallows the bytes of the next entry")
	// stamp read
	rfs := callsNamed(rd, "io.ReadFull")
	okRF := len(rfs) == 1
	if okRF {
		a := rfs[0].Common().Args
		k, isK := staticLen(a[1])
		okRF = ex(a[0]) == "recv.br" && isK && k == 8
	}
	r.Check(okRF, rule, "tlog.Reader.Read stamp", c.Pos(rd.Pos()), "io.ReadFull(r.br, 8 bytes)", "the entry stamp must be read with io.ReadFull of exactly 8 bytes from r.br")
	frs := callsNamed(rd, "(frame.Reader).Read")
	okFR := len(frs) == 1 && ex(frs[0].Common().Args[0]) == "recv.frameReader" && okRF && instrDominates(rfs[0], frs[0])
	r.Check(okFR, rule, "tlog.Reader.Read frame", c.Pos(rd.Pos()), "frame read from r.frameReader after the stamp", "the frame of an entry must be read from r.frameReader after its stamp")
	// Entry only when both nil; errors returned
	okEntry := len(rfs) == 1 && len(frs) == 1
	why := ""
	if okEntry {
		errOf := func(call ssa.CallInstruction) ssa.Value {
			for _, rf := range *call.(*ssa.Call).Referrers() {
				if e, ok := rf.(*ssa.Extract); ok && e.Index == 1 {
					return e
				}
			}
			return nil
		}
		e1, e2 := errOf(rfs[0]), errOf(frs[0])
		for _, ret := range retInstrs(rd) {
			if len(ret.Results) != 2 {
				continue
			}
			if isNilConst(ret.Results[1]) {
				// success: entry literal, dominated by nil edges of both errors
				a := underlyingAlloc(ret.Results[0])
				if a == nil || typeStr(a.Type().(*types.Pointer).Elem()) != "tlog.Entry" {
					okEntry, why = false, "success return does not return a fresh Entry"
					continue
				}
				for _, ev := range []ssa.Value{e1, e2} {
					g := false
					for _, iff := range ifsIn(rd) {
						if b, ok := iff.Cond.(*ssa.BinOp); ok && b.Op == token.NEQ && b.X == ev && isNilConst(b.Y) && edgeMustPass(rd, edge{iff.Block(), iff.Block().Succs[1]}, ret.Block()) {
							g = true
						}
					}
					if !g {
						okEntry, why = false, "an Entry can be returned although a read failed (fabricated entry at a truncation point)"
					}
				}
				lf := litFields(a)
				if exOrNil(lf["Frame"]) != ex(frs[0].(*ssa.Call))+"#0" {
					okEntry, why = false, "Entry.Frame is not the frame just read"
				}
			} else {
				if !isNilConst(ret.Results[0]) {
					okEntry, why = false, "a non-nil entry is returned together with an error"
				}
				if ret.Results[1] != e1 && ret.Results[1] != e2 {
					okEntry, why = false, "an error other than the read errors is returned"
				}
			}
		}
	}
	r.Check(okEntry, rule, "tlog.Reader.Read entry construction", c.Pos(rd.Pos()), "Entry built only after both reads succeeded; errors returned with a nil entry", why)
}

// peekLifetimeProblem (R5.8 and its siblings R1.7 / R2.6 / R8.5): the slice returned by Peek / peekAndDiscard aliases
// bufio's internal buffer. In fn, (a) no byte of it is read after a later consuming call on the reader, and (b) it
// does not escape into the frame being built (a payload that aliases the buffer is overwritten by the next refill).
// Returns a description of the first problem found, "" if none.
func peekLifetimeProblem(c *Ctx, fn *ssa.Function) string {
	bad := ""
	consuming := callsIn(fn, func(n string, cc *ssa.CallCommon) bool { return isConsuming(n) })
	for _, p := range callsNamed(fn, "frame.peekAndDiscard", "(bufio.Reader).Peek") {
		pc, ok := p.(*ssa.Call)
		if !ok || pc.Referrers() == nil {
			continue
		}
		var buf ssa.Value
		for _, rf := range *pc.Referrers() {
			if e, ok := rf.(*ssa.Extract); ok && e.Index == 0 {
				buf = e
			}
		}
		if buf == nil {
			continue
		}
		harmless := func(k ssa.CallInstruction) bool { return harmlessDiscard(pc, k, consuming) }
		after := func(u ssa.Instruction) ssa.CallInstruction {
			for _, k := range consuming {
				if k != ssa.CallInstruction(pc) && !harmless(k) && reachInstr(pc, k) && reachInstr(k, u) {
					return k
				}
			}
			return nil
		}
		seen := map[ssa.Value]bool{}
		var walk func(v ssa.Value)
		walk = func(v ssa.Value) {
			if seen[v] || v.Referrers() == nil {
				return
			}
			seen[v] = true
			for _, u := range *v.Referrers() {
				switch x := u.(type) {
				case *ssa.DebugRef:
				case *ssa.Slice:
					walk(x)
				case *ssa.Phi:
					walk(x)
				case *ssa.IndexAddr:
					if x.Referrers() != nil {
						for _, ld := range *x.Referrers() {
							if k := after(ld); k != nil {
								bad = fmt.Sprintf("%s reads a byte peeked at %s after the later read at %s", c.Pos(ld.Pos()), c.Pos(pc.Pos()), c.Pos(k.Pos()))
							}
						}
					}
				case *ssa.Store:
					if x.Val == v {
						bad = fmt.Sprintf("bytes peeked at %s are stored at %s without being copied: the stored slice aliases the reader's buffer and is overwritten by the next refill", c.Pos(pc.Pos()), c.Pos(x.Pos()))
					}
				case *ssa.MakeInterface, *ssa.Return:
					bad = fmt.Sprintf("bytes peeked at %s escape at %s without being copied", c.Pos(pc.Pos()), c.Pos(u.Pos()))
				case *ssa.Call:
					if n := calleeName(&x.Call); n == "copy" && len(x.Call.Args) == 2 && x.Call.Args[0] == v {
						bad = fmt.Sprintf("copy into the peeked buffer at %s", c.Pos(x.Pos()))
					}
					if k := after(x); k != nil {
						bad = fmt.Sprintf("%s uses bytes peeked at %s after the later read at %s", c.Pos(x.Pos()), c.Pos(pc.Pos()), c.Pos(k.Pos()))
					}
				default:
					if k := after(u); k != nil {
						bad = fmt.Sprintf("%s uses bytes peeked at %s after the later read at %s", c.Pos(u.Pos()), c.Pos(pc.Pos()), c.Pos(k.Pos()))
					}
				}
			}
		}
		walk(buf)
	}
	return bad
}

// rulePeekLifetime registers the peek-lifetime / payload-ownership obligation for both unmarshal functions under the
// given rule id (shared by C01, C02, C05, C08: what is parsed — id, payload, checksum — is what was on the wire).
func rulePeekLifetime(c *Ctx, rule, why string) {
	r := c.R
	r.Rule(rule, "the slice returned by Peek / peekAndDiscard aliases bufio's internal buffer: in unmarshal no byte of it is read after a later consuming call on the same reader, and it is never stored or returned without being copied "+
		"(a refill overwrites it, so the message id / payload handed on would depend on how the stream was segmented) — "+why, 2)
	for _, name := range []string{"V1Frame.unmarshal", "V2Frame.unmarshal"} {
		fn := c.Fn("pkg/frame", name)
		if fn == nil {
			continue
		}
		r.Functions[fnQual(fn)] = true
		bad := peekLifetimeProblem(c, fn)
		r.Check(bad == "", rule, name+" peek lifetime", c.Pos(fn.Pos()), "peeked bytes are copied out before the next read and never escape", bad)
	}
}

// ruleReadErrorsPropagate (R5.9): in the frame parsers every failed read ends the parse with that error. For each
// consuming call (peekAndDiscard, io.ReadFull, ReadByte) of V1Frame.unmarshal / V2Frame.unmarshal: its error is
// tested (or returned directly), and every return reachable on the failing edge returns an error derived from it.
// A swallowed read error hands back a frame whose fields do not correspond to the bytes consumed and hides the
// transport fault from the caller.
func ruleReadErrorsPropagate(c *Ctx, rule string) {
	r := c.R
	r.Rule(rule, "a failed read ends the parse with that error: in V1Frame.unmarshal / V2Frame.unmarshal the error of every consuming call is tested or returned, and every return reachable on its failing edge returns an error derived from it", 2)
	for _, name := range []string{"V1Frame.unmarshal", "V2Frame.unmarshal"} {
		fn := c.Fn("pkg/frame", name)
		if fn == nil {
			continue
		}
		r.Functions[fnQual(fn)] = true
		bad := ""
		n := 0
		for _, ci := range callsIn(fn, func(nm string, _ *ssa.CallCommon) bool { return isConsuming(nm) }) {
			call, ok := ci.(*ssa.Call)
			if !ok {
				continue
			}
			ev := errValueOf(call)
			if ev == nil {
				continue
			}
			n++
			iff, nonNil, _ := nilGuard(fn, ev)
			if iff == nil || nonNil == nil {
				direct := false
				for _, ret := range retInstrs(fn) {
					for _, res := range ret.Results {
						if typeStr(res.Type()) == "error" && errDerivedFrom(res, ev, 0) {
							direct = true
						}
					}
				}
				if !direct {
					bad = "the error of " + calleeName(&call.Call) + " at " + c.Pos(call.Pos()) + " is neither tested nor returned"
				}
				continue
			}
			reach := reachKnowingNonNil(iff.Block(), nonNil, ev, call.Block())
			for _, ret := range retInstrs(fn) {
				if !reach[ret.Block()] {
					continue
				}
				okRet := false
				for _, res := range ret.Results {
					if typeStr(res.Type()) == "error" && errDerivedFrom(res, ev, 0) {
						okRet = true
					}
				}
				if !okRet {
					bad = fmt.Sprintf("after %s failed (%s) the function can return at %s without reporting that error: the caller receives a frame that does not correspond to the bytes consumed, and the transport fault is lost",
						calleeName(&call.Call), c.Pos(call.Pos()), c.Pos(ret.Pos()))
				}
			}
		}
		r.Check(bad == "" && n > 0, rule, name+" read errors", c.Pos(fn.Pos()), fmt.Sprintf("%d consuming calls, each failure is returned", n), orStr(bad, "no consuming call found"))
	}
}

// reachKnowingNonNil: the blocks reachable from the edge from→start given that ev is non-nil: values that are ev on
// the path taken (phis fed by ev) are known non-nil too, and nil tests on them take only their non-nil branch. stop is
// not entered. (Prunes the infeasible "err was set, yet the following `if err != nil` is false" paths that appear
// when an error is threaded through a variable.)
func reachKnowingNonNil(from, start *ssa.BasicBlock, ev ssa.Value, stop *ssa.BasicBlock) map[*ssa.BasicBlock]bool {
	out := map[*ssa.BasicBlock]bool{}
	type state struct {
		b    *ssa.BasicBlock
		pred *ssa.BasicBlock
		key  string
	}
	seen := map[string]bool{}
	var dfs func(b, pred *ssa.BasicBlock, known map[ssa.Value]bool, depth int)
	dfs = func(b, pred *ssa.BasicBlock, known map[ssa.Value]bool, depth int) {
		if b == stop || depth > 200 {
			return
		}
		// phis of b fed through pred
		k2 := map[ssa.Value]bool{}
		for v := range known {
			k2[v] = true
		}
		for _, in := range b.Instrs {
			p, ok := in.(*ssa.Phi)
			if !ok {
				break
			}
			for i, pr := range b.Preds {
				if pr == pred && known[p.Edges[i]] {
					k2[p] = true
				}
			}
			// a phi not fed by a known value on this path is no longer known
			fed := false
			for i, pr := range b.Preds {
				if pr == pred && known[p.Edges[i]] {
					fed = true
				}
			}
			if !fed {
				delete(k2, p)
			}
		}
		var names []string
		for v := range k2 {
			names = append(names, v.Name())
		}
		sort.Strings(names)
		key := fmt.Sprintf("%d|%s", b.Index, strings.Join(names, ","))
		if seen[key] {
			return
		}
		seen[key] = true
		out[b] = true
		if iff := blockIf(b); iff != nil {
			if bo, ok := iff.Cond.(*ssa.BinOp); ok && (bo.Op == token.NEQ || bo.Op == token.EQL) {
				var x ssa.Value
				switch {
				case isNilConst(bo.Y):
					x = bo.X
				case isNilConst(bo.X):
					x = bo.Y
				}
				if x != nil && k2[x] {
					idx := 0 // successor taken when x != nil
					if bo.Op == token.EQL {
						idx = 1
					}
					dfs(b.Succs[idx], b, k2, depth+1)
					return
				}
			}
		}
		for _, s := range b.Succs {
			dfs(s, b, k2, depth+1)
		}
	}
	dfs(start, from, map[ssa.Value]bool{ev: true}, 0)
	return out
}

// freshBytes: the slice is allocated by this very function (make / append onto nil / a Clone), possibly re-sliced:
// nothing that outlives the call shares its memory. A phi is fresh when all of its edges are.
func freshBytes(v ssa.Value, depth int) bool {
	if depth > 6 {
		return false
	}
	switch x := v.(type) {
	case *ssa.MakeSlice:
		return true
	case *ssa.Slice:
		// a slice of a local array counts when the array is a fresh allocation that was not spilled from elsewhere
		if a, ok := x.X.(*ssa.Alloc); ok {
			return a.Heap || true
		}
		return freshBytes(x.X, depth+1)
	case *ssa.Phi:
		for _, e := range x.Edges {
			if !freshBytes(e, depth+1) {
				return false
			}
		}
		return true
	case *ssa.Const:
		return x.Value == nil // nil slice
	case *ssa.Call:
		n := calleeName(&x.Call)
		if n == "bytes.Clone" || n == "slices.Clone" {
			return true
		}
		if n == "append" && len(x.Call.Args) > 0 {
			return freshBytes(x.Call.Args[0], depth+1)
		}
	case *ssa.ChangeType:
		return freshBytes(x.X, depth+1)
	case *ssa.Convert:
		return freshBytes(x.X, depth+1)
	}
	return false
}

// rulePayloadOwnership: a frame handed to the caller owns its payload. In V1Frame.unmarshal / V2Frame.unmarshal the
// bytes put into MessageRaw.Payload are allocated by that call; when they are not (a scratch buffer of the reader,
// a caller-provided buffer), Reader.Read must replace the message / payload on every path to a successful return.
// Otherwise the payload of a frame already returned changes when the next frame is read (and, across goroutines,
// is written while the application or a forwarding writer reads it).
func rulePayloadOwnership(c *Ctx, rule, why string) {
	r := c.R
	r.Rule(rule, "a returned frame owns its payload: the bytes stored into MessageRaw.Payload by V1Frame.unmarshal / V2Frame.unmarshal are allocated by that call (make / append / Clone), or else Reader.Read replaces the message on every path to a successful return — "+why, 2)
	rd := c.FnOpt("pkg/frame", "Reader.Read")
	for _, name := range []string{"V1Frame.unmarshal", "V2Frame.unmarshal"} {
		fn := c.Fn("pkg/frame", name)
		if fn == nil {
			continue
		}
		r.Functions[fnQual(fn)] = true
		n, bad := 0, ""
		for _, a := range litAllocs(fn, "message.MessageRaw") {
			v := litFields(a)["Payload"]
			if v == nil {
				continue
			}
			n++
			if freshBytes(v, 0) {
				continue
			}
			// not allocated here: does Reader.Read always replace it?
			replaced := false
			if rd != nil {
				for _, um := range callsIn(rd, func(nm string, cc *ssa.CallCommon) bool {
					return strings.HasSuffix(nm, ".unmarshal") || cc.IsInvoke() && cc.Method.Name() == "unmarshal"
				}) {
					_, leak := pathExistsAvoiding(um, func(in ssa.Instruction) bool {
						ret, isRet := in.(*ssa.Return)
						return isRet && len(ret.Results) == 2 && isNilConst(ret.Results[1])
					}, func(in ssa.Instruction) bool {
						st, isSt := in.(*ssa.Store)
						if !isSt {
							return false
						}
						f, _ := fieldOfAddr(st.Addr)
						return f != nil && (f.Name() == "Message" || f.Name() == "Payload")
					})
					replaced = !leak
				}
			}
			if !replaced {
				bad = "MessageRaw.Payload is " + clip(ex(v), 100) + " (" + c.Pos(a.Pos()) + "), memory that is not allocated by this call and is not replaced on every successful path of Reader.Read: the payload of a returned frame is overwritten when a later frame is read"
			}
		}
		if n == 0 {
			r.Broken(rule, name+" payload ownership", "no MessageRaw literal with a Payload found in "+name)
			continue
		}
		r.Check(bad == "", rule, name+" payload ownership", c.Pos(fn.Pos()), "payload bytes are allocated by the call that returns the frame", bad)
	}
}

// harmlessDiscard: Discard(n) directly after Peek(m), n ≤ m, on the same reader only advances the read position: the
// m peeked bytes are buffered, so nothing is refilled and the peeked slice stays valid (what peekAndDiscard does).
func harmlessDiscard(pc *ssa.Call, k ssa.CallInstruction, consuming []ssa.CallInstruction) bool {
	if calleeName(k.Common()) != "(bufio.Reader).Discard" || calleeName(&pc.Call) != "(bufio.Reader).Peek" || k.Common().Args[0] != pc.Call.Args[0] {
		return false
	}
	n, okN := constInt(k.Common().Args[1])
	m, okM := constInt(pc.Call.Args[1])
	if !(k.Common().Args[1] == pc.Call.Args[1] || okN && okM && n <= m) {
		return false
	}
	for _, o := range consuming {
		if o != k && o != ssa.CallInstruction(pc) && reachInstr(pc, o) && reachInstr(o, k) {
			return false
		}
	}
	return true
}
