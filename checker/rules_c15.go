package main

import (
	"fmt"
	"go/token"
	"go/types"
	"sort"
	"strings"

	"golang.org/x/tools/go/ssa"
)

func init() { register("C15", []string{"."}, runC15) }

type access struct {
	fn    *ssa.Function
	instr ssa.Instruction
	write bool
	field *types.Var
	owner string
	locks map[string]bool // mutex field names held
}

// heldLocks: mutex fields M such that (sync.Mutex).Lock(&x.M) dominates `in` in fn and an Unlock of the same
// mutex is deferred in fn or post-dominates `in`.
func heldLocks(fn *ssa.Function, in ssa.Instruction) map[string]bool {
	// forward must-analysis per mutex: held at a point iff on every path from the entry the last operation on the
	// mutex was Lock (an Unlock that is deferred releases at return only and does not end the section)
	out := map[string]bool{}
	type op struct {
		lock bool
		m    string
	}
	opOf := func(i ssa.Instruction) (op, bool) {
		call, ok := i.(*ssa.Call)
		if !ok {
			return op{}, false
		}
		switch calleeName(&call.Call) {
		case "(sync.Mutex).Lock", "(sync.RWMutex).Lock", "(sync.RWMutex).RLock":
			return op{true, ex(call.Call.Args[0])}, true
		case "(sync.Mutex).Unlock", "(sync.RWMutex).Unlock", "(sync.RWMutex).RUnlock":
			return op{false, ex(call.Call.Args[0])}, true
		}
		return op{}, false
	}
	mutexes := map[string]bool{}
	for _, i := range allInstrs(fn) {
		if o, ok := opOf(i); ok && o.lock {
			mutexes[o.m] = true
		}
	}
	for m := range mutexes {
		inB := map[*ssa.BasicBlock]bool{}
		outB := map[*ssa.BasicBlock]bool{}
		for _, b := range fn.Blocks {
			inB[b], outB[b] = true, true
		}
		inB[fn.Blocks[0]] = false
		transfer := func(b *ssa.BasicBlock, held bool, stop ssa.Instruction) bool {
			for _, i := range b.Instrs {
				if i == stop {
					return held
				}
				if o, ok := opOf(i); ok && o.m == m {
					held = o.lock
				}
			}
			return held
		}
		for changed := true; changed; {
			changed = false
			for _, b := range fn.Blocks {
				v := b != fn.Blocks[0]
				if b == fn.Blocks[0] {
					v = false
				} else {
					for _, p := range b.Preds {
						v = v && outB[p]
					}
					if len(b.Preds) == 0 {
						v = false
					}
				}
				o := transfer(b, v, nil)
				if v != inB[b] || o != outB[b] {
					inB[b], outB[b] = v, o
					changed = true
				}
			}
		}
		if in.Block() != nil && transfer(in.Block(), inB[in.Block()], in) {
			out[m] = true
		}
	}
	return out
}

func isSyncType(t types.Type) bool {
	s := typeStr(t)
	switch {
	case strings.HasPrefix(s, "chan "), strings.HasPrefix(s, "<-chan "), strings.HasPrefix(s, "chan<- "):
		return true
	case s == "sync.WaitGroup" || s == "sync.Mutex" || s == "sync.RWMutex" || s == "context.Context":
		return true
	}
	return false
}

func runC15(c *Ctx) {
	r := c.R
	defer ruleOwnership(c, "R15.4")
	defer rulePeekLifetime(c, "R15.6", "C15: a payload aliasing the reader's buffer is read by the application / a forwarding writer while the reader goroutine refills it")
	defer rulePayloadOwnership(c, "R15.7", "C15: a payload in reader-owned scratch memory is rewritten by the reader goroutine while the frame is in use elsewhere")
	defer ruleCodecNoSharedWrites(c, "R15.8", "C15: unsynchronised writes to memory shared by all channel readers and all writing goroutines")
	defer func() {
		c.R.Rule("R15.5", "the codec objects shared by all goroutines of a node keep no scratch state: ReadWriter.Write encodes into a buffer it allocates per call (= R4.4)", 2)
		ruleEncodeBuffer(c, "R15.5")
	}()
	r.NotDecided = append(r.NotDecided,
		"races inside user-supplied transports / dialect values",
		"the absence of races as the race detector would observe it: this is a lockset / confinement discipline check, not a happens-before proof; the discipline classes are the trusted artefact")
	// goroutine roots
	type root struct {
		name  string
		fn    *ssa.Function
		multi bool // several goroutines may run it on the same object
	}
	var roots []root
	add := func(name, fn string, multi bool) {
		if f := c.Fn("root", fn); f != nil {
			roots = append(roots, root{name, f, multi})
		}
	}
	add("loop", "Node.run", false)
	add("provider", "channelProvider.run", false)
	add("chrun", "Channel.run", false)
	// the two per-channel workers: the functions launched by `go` from Channel.run that call runReader / runWriter
	if chRun := c.FnOpt("root", "Channel.run"); chRun != nil {
		for _, g := range goStmts(chRun) {
			tf, _ := goTarget(g)
			if tf == nil || tf.Blocks == nil {
				continue
			}
			if len(callsNamed(tf, "(gomavlib.Channel).runReader")) > 0 || fnLocalName(tf) == "Channel.runReader" {
				roots = append(roots, root{"reader", tf, false})
			}
			if len(callsNamed(tf, "(gomavlib.Channel).runWriter")) > 0 || fnLocalName(tf) == "Channel.runWriter" {
				roots = append(roots, root{"writer", tf, false})
			}
		}
	}
	add("heartbeat", "nodeHeartbeat.run", false)
	add("streamreq", "nodeStreamRequest.run", false)
	// exported Node API: arbitrary user goroutines
	for _, fn := range rootFns(c) {
		if fn.Parent() == nil && fn.Signature.Recv() != nil && fn.Object() != nil && fn.Object().Exported() && strings.HasPrefix(fnLocalName(fn), "Node.") && fn.Name() != "Initialize" {
			roots = append(roots, root{"api", fn, true})
		}
	}
	reachOf := map[string]map[*ssa.Function]bool{}
	for _, rt := range roots {
		if reachOf[rt.name] == nil {
			reachOf[rt.name] = map[*ssa.Function]bool{}
		}
		for f := range c.reachableFns(rt.fn) {
			reachOf[rt.name][f] = true
		}
	}
	rootsOf := func(fn *ssa.Function) []string {
		var out []string
		for name, set := range reachOf {
			if set[fn] {
				out = append(out, name)
			}
		}
		sort.Strings(out)
		return out
	}
	// init-phase functions: run before the object is published to other goroutines
	// (an initialiser initialises its own receiver: Channel.initialize storing into a field of the Node it belongs
	// to runs in a provider goroutine while the node is live — that is a late write to the Node)
	isInitOf := func(fn *ssa.Function, owner string) bool {
		n := fnLocalName(fn)
		if i := strings.Index(n, "$"); i >= 0 {
			n = n[:i]
		}
		if strings.HasSuffix(n, ".Initialize") || strings.HasSuffix(n, ".initialize") || strings.HasSuffix(n, ".init") {
			return owner == "" || n[:strings.LastIndex(n, ".")] == owner[strings.LastIndex(owner, ".")+1:]
		}
		return strings.HasPrefix(n, "New") || n == "init"
	}

	// collect accesses to fields of the node-side and codec structs
	owners := map[string]bool{}
	for _, t := range []string{"gomavlib.Node", "gomavlib.Channel", "gomavlib.channelProvider", "gomavlib.endpointServer", "gomavlib.endpointClient", "gomavlib.endpointSerial", "gomavlib.endpointCustom",
		"gomavlib.endpointUDPBroadcast", "gomavlib.nodeHeartbeat", "gomavlib.nodeStreamRequest", "gomavlib.removeCloser", "gomavlib.wrappedPacketConn",
		"streamwriter.Writer", "frame.Writer", "frame.Reader", "frame.ReadWriter", "dialect.ReadWriter", "message.ReadWriter", "timednetconn.conn"} {
		owners[t] = true
	}
	var accs []access
	for _, fn := range c.AllFns {
		for _, in := range allInstrs(fn) {
			fa, ok := in.(*ssa.FieldAddr)
			if !ok {
				continue
			}
			owner := typeStr(fa.X.Type().Underlying().(*types.Pointer).Elem())
			if !owners[owner] {
				continue
			}
			st := fa.X.Type().Underlying().(*types.Pointer).Elem().Underlying().(*types.Struct)
			f := st.Field(fa.Field)
			if fa.Referrers() == nil {
				continue
			}
			for _, rf := range *fa.Referrers() {
				switch x := rf.(type) {
				case *ssa.Store:
					if x.Addr == ssa.Value(fa) {
						// a store into a freshly allocated composite literal is construction, not sharing
						if _, fresh := fa.X.(*ssa.Alloc); fresh {
							continue
						}
						accs = append(accs, access{fn: fn, instr: x, write: true, field: f, owner: owner})
					}
				case *ssa.UnOp:
					if x.Op == token.MUL {
						w := false
						// a loaded map that is updated / deleted from is a write to the shared map
						if x.Referrers() != nil {
							for _, mr := range *x.Referrers() {
								switch y := mr.(type) {
								case *ssa.MapUpdate:
									if y.Map == ssa.Value(x) {
										w = true
									}
								case *ssa.Call:
									if calleeName(&y.Call) == "delete" && len(y.Call.Args) > 0 && y.Call.Args[0] == ssa.Value(x) {
										w = true
									}
								}
							}
						}
						accs = append(accs, access{fn: fn, instr: x, write: w, field: f, owner: owner})
					}
				case ssa.CallInstruction:
					// address passed to a method (e.g. &n.wg, &sr.mutex): sync object use
				}
			}
		}
	}
	byField := map[*types.Var][]access{}
	for _, a := range accs {
		byField[a.field] = append(byField[a.field], a)
	}
	r.Rule("R15.1", "field discipline (lockset / confinement), every field of the node-side and per-channel codec structs: a field stored only during initialisation (Initialize / initialize / constructors, before the object is handed to another goroutine) may be read anywhere; "+
		"a field written later must be (a) a synchronisation object, or (b) accessed only from functions reachable from one single-instance goroutine root (node loop, provider, channel reader, channel writer, …) and never from the exported API, "+
		"or (c) accessed only with one and the same mutex held (Lock dominates, Unlock deferred or post-dominating); listed exceptions carry a reason", 60)
	exceptions := map[string]string{
		"gomavlib.Channel.running": "written by Channel.start in the node loop; read by Channel.close from the node loop, or from newChannel's terminate arm for a channel that was never handed to the loop (the two select arms are exclusive)",
	}
	var fields []*types.Var
	for f := range byField {
		fields = append(fields, f)
	}
	sort.Slice(fields, func(i, j int) bool {
		return byField[fields[i]][0].owner+"."+fields[i].Name() < byField[fields[j]][0].owner+"."+fields[j].Name()
	})
	for _, f := range fields {
		as := byField[f]
		key := as[0].owner + "." + f.Name()
		if isSyncType(f.Type()) {
			// sync objects: only initialisation may assign them
			bad := ""
			for _, a := range as {
				if a.write && !isInitOf(a.fn, a.owner) {
					bad = fnLocalName(a.fn) + " (" + c.Pos(a.instr.Pos()) + ")"
				}
			}
			r.Check(bad == "", "R15.1", key, c.Pos(f.Pos()), "synchronisation object, assigned only at initialisation", "a channel / mutex / context field is reassigned after initialisation in "+bad+": concurrent users may see either object")
			continue
		}
		var late []access
		for _, a := range as {
			if a.write && !isInitOf(a.fn, a.owner) {
				late = append(late, a)
			}
		}
		if len(late) == 0 {
			r.OK("R15.1", key, c.Pos(f.Pos()), fmt.Sprintf("init-only (%d accesses)", len(as)))
			continue
		}
		// post-init accesses
		var post []access
		for _, a := range as {
			if !isInitOf(a.fn, a.owner) {
				post = append(post, a)
			}
		}
		// (c) common mutex
		var common map[string]bool
		for i := range post {
			post[i].locks = heldLocks(post[i].fn, post[i].instr)
			if common == nil {
				common = map[string]bool{}
				for k := range post[i].locks {
					common[k] = true
				}
			} else {
				for k := range common {
					if !post[i].locks[k] {
						delete(common, k)
					}
				}
			}
		}
		if len(common) > 0 {
			r.OK("R15.1", key, c.Pos(f.Pos()), fmt.Sprintf("mutex-guarded by %v at all %d post-initialisation accesses", keysOf(common), len(post)))
			continue
		}
		// (b) confinement
		rootSet := map[string]bool{}
		unrooted := false
		for _, a := range post {
			rs := rootsOf(a.fn)
			if len(rs) == 0 {
				unrooted = true
			}
			for _, x := range rs {
				rootSet[x] = true
			}
		}
		// a root is a single goroutine only relative to the object it serves: there is one loop, one heartbeat and one
		// stream-request goroutine per node, but one provider per endpoint and one run / reader / writer per channel —
		// node-wide objects touched from those are touched from many goroutines at once
		nodeWide := as[0].owner == "gomavlib.Node" || as[0].owner == "gomavlib.nodeHeartbeat" || as[0].owner == "gomavlib.nodeStreamRequest" || as[0].owner == "dialect.ReadWriter" || as[0].owner == "message.ReadWriter"
		manyPerNode := rootSet["provider"] || rootSet["chrun"] || rootSet["reader"] || rootSet["writer"]
		if len(rootSet) == 1 && !rootSet["api"] && !(nodeWide && manyPerNode) {
			r.OK("R15.1", key, c.Pos(f.Pos()), fmt.Sprintf("confined to goroutine root %v (%d accesses)", keysOf(rootSet), len(post)))
			continue
		}
		// codec objects outside the root package: confined if all accessors are reachable from exactly one root
		if len(rootSet) == 0 && unrooted {
			// not reachable from any node goroutine (library-level object used by the caller's goroutine only)
			r.OK("R15.1", key, c.Pos(f.Pos()), "not reachable from any node goroutine (single-owner library object)")
			continue
		}
		if reason, ok := exceptions[key]; ok {
			// re-verify the exception's facts: writers only in the loop, and no access from the api
			okEx := !rootSet["api"]
			for _, a := range late {
				rs := rootsOf(a.fn)
				if len(rs) != 1 || rs[0] != "loop" {
					okEx = false
				}
			}
			r.Check(okEx, "R15.1", key, c.Pos(f.Pos()), "listed exception: "+reason, "the listed exception no longer holds (written outside the node loop or touched from the exported API)")
			continue
		}
		// report the unguarded sites
		var sites []string
		for _, a := range post {
			k := "read"
			if a.write {
				k = "write"
			}
			sites = append(sites, fmt.Sprintf("%s in %s [roots %v, locks %v] (%s)", k, fnLocalName(a.fn), rootsOf(a.fn), keysOf(a.locks), c.Pos(a.instr.Pos())))
		}
		sort.Strings(sites)
		if len(sites) > 6 {
			sites = sites[:6]
		}
		r.Fail("R15.1", key, c.Pos(f.Pos()), "field is written after initialisation and its accesses are neither confined to one goroutine root nor all under one mutex: "+strings.Join(sites, "; "))
	}

	// R15.2 values crossing goroutines
	ruleWriteAPIs(c, "R15.2")
	ruleRawPassthrough(c, "R15.2")

	// R15.3 package-level variables
	r.Rule("R15.3", "no undeclared shared state: package-level variables of the library packages are stored only by their package initialiser", 1)
	var bad []string
	n := 0
	for _, fn := range c.AllFns {
		for _, in := range allInstrs(fn) {
			st, ok := in.(*ssa.Store)
			if !ok {
				continue
			}
			if g, ok := st.Addr.(*ssa.Global); ok && strings.HasPrefix(g.Pkg.Pkg.Path(), modPath) {
				n++
				bad = append(bad, fmt.Sprintf("%s stores %s (%s)", fnLocalName(fn), g.Name(), c.Pos(st.Pos())))
			}
		}
	}
	r.Check(len(bad) == 0, "R15.3", "package-level variable stores", "-", "none outside package initialisers", "package-level state is written at run time: "+strings.Join(bad, "; "))
}

// ruleWriteAPIs (R15.2 part 1 / shared with R11.1): every Write* sends only encoded items.
func ruleWriteAPIs(c *Ctx, rule string) {
	r := c.R
	r.Rule(rule, "values crossing goroutines are not mutated afterwards: each Write* hands over either a fresh raw message produced by the node's encoder in the caller's goroutine, or the caller's frame after encodeFrame made its message raw "+
		"(so the k per-channel writers only read it); frame.Writer.Write mutates a frame only under the `not *MessageRaw` guard", 7)
	for _, name := range []string{"Node.WriteMessageTo", "Node.WriteMessageAll", "Node.WriteMessageExcept", "Node.WriteFrameTo", "Node.WriteFrameAll", "Node.WriteFrameExcept"} {
		fn := c.Fn("root", name)
		if fn == nil {
			continue
		}
		encName := "(gomavlib.Node).encodeMessage"
		if strings.Contains(name, "Frame") {
			encName = "(gomavlib.Node).encodeFrame"
		}
		encs := callsNamed(fn, encName)
		var sel *ssa.Select
		for _, in := range allInstrs(fn) {
			if s, ok := in.(*ssa.Select); ok {
				sel = s
			}
		}
		ok := len(encs) == 1 && sel != nil && instrDominates(encs[0], sel)
		why := "the item is handed to the channel writers without having been encoded by " + encName + " in the caller's goroutine: the same decoded frame/message is then encoded (mutated) concurrently by every channel writer"
		if ok && strings.Contains(name, "Message") {
			// what is sent must be the encoder's result
			sent := false
			for _, s := range sel.States {
				if s.Dir == types.SendOnly {
					v := ex(s.Send)
					if a := rootAlloc(s.Send); a != nil {
						v = exOrNil(litFields(a)["what"])
					}
					if v == ex(encs[0].(*ssa.Call))+"#0" {
						sent = true
					}
				}
			}
			if !sent {
				ok = false
				why = "the value sent to the writers is not the encoder's result"
			}
		}
		r.Check(ok, rule, name+" encodes before hand-over", c.Pos(fn.Pos()), "encoded in the caller, then sent", why)
	}
	// encodeFrame leaves a raw message in both frame kinds
	if ef := c.Fn("root", "Node.encodeFrame"); ef != nil {
		kinds := map[string]bool{}
		for _, s := range frameStoresIn(ef) {
			if s.field == "Message" && strings.Contains(s.val, "(message.ReadWriter).Write(") {
				kinds[s.owner] = true
			}
		}
		r.Check(len(kinds) == 2, rule, "Node.encodeFrame result", c.Pos(ef.Pos()), "Message ← raw encoding for v1 and v2 frames", "encodeFrame does not replace the message of both frame kinds by its raw encoding")
	}
}

// ruleRawPassthrough (R15.2 part 2 / shared with R8.1).
func ruleRawPassthrough(c *Ctx, rule string) {
	r := c.R
	for _, t := range []struct{ pk, name, label string }{{"pkg/frame", "Writer.Write", "frame.Writer.Write"}, {"root", "Node.encodeFrame", "Node.encodeFrame"}} {
		var w *ssa.Function
		if t.pk == "root" {
			// the node's encoder runs in the caller's goroutine on a frame that earlier Write* calls may already have
			// handed to channel writers: it must leave a frame that carries a raw message untouched as well
			if w = c.FnOpt(t.pk, t.name); w == nil {
				continue
			}
		} else if w = c.Fn(t.pk, t.name); w == nil {
			continue
		}
		var guard *ssa.If
		var notRaw *ssa.BasicBlock
		for _, iff := range ifsIn(w) {
			if _, fb, _, hit := succWhenFunc(iff, func(cs string) bool {
				return strings.HasSuffix(cs, ".(*message.MessageRaw)?#1") && !strings.HasPrefix(cs, "!")
			}); hit {
				guard, notRaw = iff, fb
			}
		}
		bad := ""
		if guard == nil {
			bad = "no `is *MessageRaw` test"
		} else {
			for _, in := range allInstrs(w) {
				mut := false
				switch x := in.(type) {
				case *ssa.Store:
					o := fieldStructName(x.Addr)
					mut = o == "frame.V1Frame" || o == "frame.V2Frame" || o == "message.MessageRaw"
				case *ssa.Call:
					mut = isEncodeCall(calleeName(&x.Call)) && calleeName(&x.Call) != "(gomavlib.Node).encodeFrame"
				}
				if mut && !edgeMustPass(w, edge{guard.Block(), notRaw}, in.Block()) {
					bad = "frame mutated at " + c.Pos(in.Pos()) + " even when it already carries a raw message"
				}
			}
		}
		r.Check(bad == "", rule, t.label+" raw passthrough", c.Pos(w.Pos()), "a frame carrying a raw message is only read", bad)
	}
}

// ruleOwnership (R15.4): objects cross goroutines by ownership transfer, and shared objects are not mutated.
// (a) runReader: the event handed to the application (pushEvent) is a fresh object of the current iteration and is the
// last thing the reader does with it — the stream-request hook, which reads evt.Frame, runs before the push (the
// application may edit or forward the frame as soon as it has it). (b) the functions that run on several goroutines at
// once (onEventFrame: one reader goroutine per channel; the heartbeat ticker) mutate through reflection only objects
// they have allocated themselves in the same invocation (reflect.New), never an object reachable from the receiver.
func ruleOwnership(c *Ctx, rule string) {
	r := c.R
	r.Rule(rule, "ownership: (a) in Channel.runReader every pushed event is allocated in the same loop iteration and the stream-request hook runs before the event is handed to the application, never after; "+
		"(b) onEventFrame and the heartbeat ticker set fields through reflection only on objects created by reflect.New in the same invocation (a message object kept in the module and refilled per request would be written by several reader goroutines at once)", 4)
	if rd := c.Fn("root", "Channel.runReader"); rd != nil {
		r.Functions[fnQual(rd)] = true
		checkReaderLoop(c, rd, rule)
	}
	for _, name := range []string{"nodeStreamRequest.onEventFrame", "nodeHeartbeat.run"} {
		fn := c.Fn("root", name)
		if fn == nil {
			continue
		}
		r.Functions[fnQual(fn)] = true
		bad := ""
		n := 0
		for _, f := range append([]*ssa.Function{fn}, fn.AnonFuncs...) {
			for _, in := range allInstrs(f) {
				call, ok := in.(*ssa.Call)
				if !ok {
					continue
				}
				cn := calleeName(&call.Call)
				if !strings.HasPrefix(cn, "(reflect.Value).Set") || len(call.Call.Args) == 0 {
					continue
				}
				n++
				// root of the receiver chain
				v := call.Call.Args[0]
				for d := 0; d < 12; d++ {
					cc, isCall := v.(*ssa.Call)
					if !isCall {
						break
					}
					switch calleeName(&cc.Call) {
					case "(reflect.Value).FieldByName", "(reflect.Value).Elem", "(reflect.Value).Field", "(reflect.Value).Index":
						v = cc.Call.Args[0]
						continue
					}
					break
				}
				rootCall, isCall := v.(*ssa.Call)
				if !isCall || calleeName(&rootCall.Call) != "reflect.New" {
					bad = fmt.Sprintf("%s sets a field through reflection on %s, which is not an object created by reflect.New in this invocation (%s): an object shared by the module is written by every goroutine that runs %s",
						cn, shortErr(v), c.Pos(call.Pos()), name)
				}
			}
		}
		r.Check(bad == "", rule, name+" reflective writes", c.Pos(fn.Pos()), fmt.Sprintf("%d reflective field writes, all on objects created by reflect.New in the same invocation", n), bad)
	}
}
