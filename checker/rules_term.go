package main

import (
	"go/token"
	"go/types"
	"strings"

	"golang.org/x/tools/go/ssa"
)

// ---------------------------------------------------------------------------------------------
// Termination-signal model of package gomavlib (shared by C10, C12, C13, C14).
//
// Structural classification, no field names are pinned:
//   term field  : a `chan struct{}` struct field that is never sent on and whose close sites are all
//                 plain (non-deferred) close() calls  -> closed by the *closer* (Close path)
//   done field  : a `chan struct{}` struct field never sent on whose close sites are all deferred
//                 -> closed by the goroutine itself when it ends (a join signal)
//   ctx field   : a context.Context field assigned from context.WithCancel whose cancel func is stored
//                 in a sibling field that is called somewhere
//   term param  : a `chan struct{}` parameter for which every caller passes a local channel that the
//                 caller closes with a plain close()
// ---------------------------------------------------------------------------------------------

type termModel struct {
	c         *Ctx
	termField map[*types.Var]bool
	doneField map[*types.Var]bool
	ctxField  map[*types.Var]*types.Var // ctx field -> cancel field
	closeSite map[*types.Var][]ssa.Instruction
	cancelUse map[*types.Var][]ssa.Instruction // cancel field -> call sites
}

func isChanStruct(t types.Type) bool {
	ch, ok := t.Underlying().(*types.Chan)
	if !ok {
		return false
	}
	st, ok := ch.Elem().Underlying().(*types.Struct)
	return ok && st.NumFields() == 0
}

func rootFns(c *Ctx) []*ssa.Function {
	var out []*ssa.Function
	for _, fn := range c.AllFns {
		if fn.Pkg != nil && fn.Pkg.Pkg.Path() == modPath {
			out = append(out, fn)
		} else if fn.Pkg == nil && fn.Parent() != nil {
			p := fn
			for p.Parent() != nil {
				p = p.Parent()
			}
			if p.Pkg != nil && p.Pkg.Pkg.Path() == modPath {
				out = append(out, fn)
			}
		}
	}
	return out
}

// loadedField: if v is a load of a struct field, return the field object.
func loadedField(v ssa.Value) *types.Var {
	// a channel handed on with a restricted direction is the same channel
	for {
		ct, isCT := v.(*ssa.ChangeType)
		if !isCT {
			break
		}
		if _, isCh := ct.Type().Underlying().(*types.Chan); !isCh {
			break
		}
		v = ct.X
	}
	u, ok := v.(*ssa.UnOp)
	if !ok || u.Op != token.MUL {
		return nil
	}
	f, _ := fieldOfAddr(u.X)
	return f
}

func buildTermModel(c *Ctx) *termModel {
	m := &termModel{c: c, termField: map[*types.Var]bool{}, doneField: map[*types.Var]bool{},
		ctxField: map[*types.Var]*types.Var{}, closeSite: map[*types.Var][]ssa.Instruction{}, cancelUse: map[*types.Var][]ssa.Instruction{}}
	sent := map[*types.Var]bool{}
	plainClose := map[*types.Var]int{}
	deferClose := map[*types.Var]int{}
	for _, fn := range rootFns(c) {
		for _, in := range allInstrs(fn) {
			switch x := in.(type) {
			case *ssa.Send:
				if f := loadedField(x.Chan); f != nil {
					sent[f] = true
				}
			case *ssa.Select:
				for _, s := range x.States {
					if s.Dir == types.SendOnly {
						if f := loadedField(s.Chan); f != nil {
							sent[f] = true
						}
					}
				}
			case ssa.CallInstruction:
				cc := x.Common()
				if b, ok := cc.Value.(*ssa.Builtin); ok && b.Name() == "close" && len(cc.Args) == 1 {
					if f := loadedField(cc.Args[0]); f != nil {
						m.closeSite[f] = append(m.closeSite[f], in)
						if _, isDefer := in.(*ssa.Defer); isDefer {
							deferClose[f]++
						} else {
							plainClose[f]++
						}
					}
				}
				// cancel func call: dynamic call of a loaded field of func type
				if !cc.IsInvoke() && cc.StaticCallee() == nil {
					if f := loadedField(cc.Value); f != nil {
						m.cancelUse[f] = append(m.cancelUse[f], in)
					}
				}
			case *ssa.Store:
				// ctx, cancel := context.WithCancel(...)
				f, _ := fieldOfAddr(x.Addr)
				if f == nil {
					continue
				}
				if e, ok := x.Val.(*ssa.Extract); ok {
					if call, ok := e.Tuple.(*ssa.Call); ok && calleeName(&call.Call) == "context.WithCancel" && e.Index == 0 {
						// find the sibling store of #1
						for _, in2 := range allInstrs(fn) {
							if s2, ok := in2.(*ssa.Store); ok {
								if e2, ok := peel(s2.Val).(*ssa.Extract); ok && e2.Tuple == e.Tuple && e2.Index == 1 {
									if f2, _ := fieldOfAddr(s2.Addr); f2 != nil {
										m.ctxField[f] = f2
									}
								}
							}
						}
					}
				}
			}
		}
	}
	for f := range m.closeSite {
		if !isChanStruct(f.Type()) || sent[f] {
			continue
		}
		if plainClose[f] > 0 && deferClose[f] == 0 {
			m.termField[f] = true
		}
		if deferClose[f] > 0 && plainClose[f] == 0 {
			m.doneField[f] = true
		}
	}
	return m
}

// termParam: v is a chan struct{} parameter of fn and every caller passes a local channel closed by
// a plain close() in the caller.
func (m *termModel) termParam(v ssa.Value) bool {
	p, ok := v.(*ssa.Parameter)
	if !ok || !isChanStruct(p.Type()) {
		return false
	}
	fn := p.Parent()
	idx := -1
	for i, q := range fn.Params {
		if q == p {
			idx = i
		}
	}
	sites := m.c.callersOf(fn)
	if len(sites) == 0 {
		return false
	}
	for _, s := range sites {
		args := s.Call.Common().Args
		if idx >= len(args) {
			return false
		}
		a := rootAlloc(args[idx])
		if a == nil || !localClosedPlain(a) {
			return false
		}
	}
	return true
}

// localClosedPlain: the local channel variable `a` is closed by a plain close() call in its function.
func localClosedPlain(a *ssa.Alloc) bool {
	fn := a.Parent()
	for _, in := range allInstrs(fn) {
		if call, ok := in.(*ssa.Call); ok {
			if b, ok := call.Call.Value.(*ssa.Builtin); ok && b.Name() == "close" && len(call.Call.Args) == 1 {
				if rootAlloc(call.Call.Args[0]) == a {
					return true
				}
			}
		}
	}
	return false
}

// classify a channel value: "term", "done", "ctx", "termparam", "" (ordinary); plus the field.
func (m *termModel) classify(ch ssa.Value) (string, *types.Var) {
	if f := loadedField(ch); f != nil {
		if m.termField[f] {
			return "term", f
		}
		if m.doneField[f] {
			return "done", f
		}
		return "", f
	}
	if call, ok := ch.(*ssa.Call); ok && call.Call.IsInvoke() && call.Call.Method.Name() == "Done" &&
		typeStr(call.Call.Value.Type()) == "context.Context" {
		if f := loadedField(call.Call.Value); f != nil {
			if _, ok := m.ctxField[f]; ok {
				return "ctx", f
			}
		}
		return "", nil
	}
	if m.termParam(ch) {
		return "termparam", nil
	}
	return "", nil
}

// selectHasTerm: the select has a receive case on a termination source.
func (m *termModel) selectHasTerm(sel *ssa.Select) (bool, string) {
	for _, s := range sel.States {
		if s.Dir != types.RecvOnly {
			continue
		}
		k, _ := m.classify(s.Chan)
		if k == "term" || k == "ctx" || k == "termparam" {
			return true, ex(s.Chan)
		}
	}
	return false, ""
}

// triggered: the termination source (term field or ctx field) has a trigger (close / cancel call) in a
// function reachable from one of the roots.
func (m *termModel) triggeredFrom(f *types.Var, kind string, reach map[*ssa.Function]bool) (bool, string) {
	var sites []ssa.Instruction
	if kind == "ctx" {
		sites = m.cancelUse[m.ctxField[f]]
	} else {
		sites = m.closeSite[f]
	}
	for _, s := range sites {
		if reach[s.Parent()] {
			return true, fnQual(s.Parent())
		}
	}
	return false, ""
}

func fieldOwner(c *Ctx, f *types.Var) string {
	p := c.Pkgs["root"]
	if p == nil {
		return f.Name()
	}
	sc := p.Types.Scope()
	for _, n := range sc.Names() {
		tn, ok := sc.Lookup(n).(*types.TypeName)
		if !ok {
			continue
		}
		st, ok := tn.Type().Underlying().(*types.Struct)
		if !ok {
			continue
		}
		for i := 0; i < st.NumFields(); i++ {
			if st.Field(i) == f {
				return n + "." + f.Name()
			}
		}
	}
	return f.Name()
}

func trimRecv(s string) string { return strings.TrimPrefix(s, "recv.") }

// peel strips interface / type-change wrappers.
func peel(v ssa.Value) ssa.Value {
	for i := 0; i < 6; i++ {
		switch x := v.(type) {
		case *ssa.MakeInterface:
			v = x.X
		case *ssa.ChangeInterface:
			v = x.X
		case *ssa.ChangeType:
			v = x.X
		default:
			return v
		}
	}
	return v
}
