package main

import (
	"fmt"
	"golang.org/x/tools/go/ssa"
)

func dbgStale(c *Ctx, name string) {
	fn := c.Funcs[name]
	stale := map[*ssa.Function]bool{c.Funcs["root:Node.encodeFrame"]: true}
	for _, e := range reEncodeEvents(c, fn, stale) {
		n := 0
		ok := enumPaths(fn.Blocks[0], nil, 30000, func(path []*ssa.BasicBlock) {
			n++
			if !typeTestsConsistent(path) {
				return
			}
			seenE, refreshed := false, false
			for _, in := range pathInstrs(path) {
				if in == e {
					seenE, refreshed = true, false
					continue
				}
				if !seenE {
					continue
				}
				if isChecksumRefresh(in) {
					refreshed = true
				}
				if isSuccessReturn(in) && !refreshed {
					var idx []int
					for _, b := range path {
						idx = append(idx, b.Index)
					}
					fmt.Println("stale path", idx)
					return
				}
			}
		})
		fmt.Println("event", c.Pos(e.Pos()), "paths", n, ok)
	}
}
